GO_RUNS = [
    {"pkg": "./provider/buffered", "pkgname": "buffered", "harness": ["buffered/c17_test.go"], "test": "TestVerifC17Buffered",
     "share": 0.8, "extra_overlay": {}},
    {"pkg": "./provider", "pkgname": "provider", "harness": ["provider/c17_test.go"], "test": "TestVerifC17",
     "share": 0.2, "extra_overlay": {}},
]
RUN_MODULE = "Run_C17"
COQ_TARGETS = ["Corr/Run_C17.vo", "Proofs/BufferedProofs.vo", "Proofs/SweepProofs.vo"]
N = {"quick": 100, "thorough": 3000}
GO_TIMEOUT = {"quick": 600, "thorough": 3000}
RULE = "wip"
TRUSTED = []
ASSUMPTIONS = []


def classify(desc, code):
    return None

TECHNIQUE = "wip"
LEVEL_TEXT = "wip"
LEVEL_NOTE = "wip"
