GO_RUNS = [
    {"pkg": "./provider/buffered", "pkgname": "buffered", "harness": ["buffered/c17_test.go"], "test": "TestVerifC17Buffered",
     "share": 0.7, "extra_overlay": {}},
    {"pkg": "./provider", "pkgname": "provider", "harness": ["provider/c17_test.go"], "test": "TestVerifC17",
     "share": 0.3, "extra_overlay": {}},
]
RUN_MODULE = "Run_C17"
COQ_TARGETS = ["Corr/Run_C17.vo", "Proofs/BufferedProofs.vo", "Proofs/SweepProofs.vo", "Proofs/KeyspaceBase.vo",
               "Proofs/KeyspaceProofs.vo", "Proofs/KeyspaceTrie.vo"]
N = {"quick": 400, "thorough": 2000}
GO_TIMEOUT = {"quick": 600, "thorough": 3000}
RULE = ("three kinds of cases; every scenario that triggered one of the six repaired defects stays in the generators. "
        "(1) buffered: the real buffered wrapper (batch sizes 1..1024) over a recording wrapped provider "
        "(4 of 5 cases) or over the real SweepingProvider with a recording message sender (1 of 5); the worker is parked inside a "
        "call of the wrapped provider while 0-27 start / force-start / provide-once / stop operations over 1-6 keys (and, in every "
        "tenth case, undecodable multihashes) are enqueued, 1-3 bursts per case, a quarter of them followed by Close + New on the "
        "same datastore; the calls made must be those of the model of the repaired wrapper and their effect the one of one-by-one "
        "execution (provide-once after stop and undecodable items included). (2) trace: the "
        "real SweepingProvider in a synctest bubble: 1-300 keys, swarms of 1-150 peers that grow / shrink / are replaced, "
        "replication factor 1-5 (or 20), router reporting the exact 20 XOR-nearest, reprovide interval 30 min - 22 h, 4-13 "
        "scripted steps (start / force start / provide once / stop / swarm change / network down-up / Close+New on the same "
        "datastores / address change) spread over several intervals plus 2.3 more intervals of observation, lookup latency 0-2 s, "
        "three fixed scenarios (single region that splits, rf 1 below the bucket size, work queued at Close), offline delay 0 - "
        "2 intervals, 1-6 workers with every split of dedicated workers that leaves each job type a worker; the recorded trace "
        "is judged by the verified acceptor. (3) sched: reprovideTimeForPrefix, timeBetween and sequences of "
        "schedulePrefixNoLock of the real code on random orders / intervals (1 ns - 24 h) / prefixes (0-30 bits) against their "
        "transcription. Non-trivial = a buffered case with a cancelled stop / applied stop / several batches / restart with a "
        "queue / provide-once after stop / bad item, a trace with at least one ADD_PROVIDER, every sched case; distinct = "
        "distinct (kind, feature set, size class) signatures")
TRUSTED = [
    "go-dsqueue v0.2.0 is a FIFO that survives Close + New on the same datastore (its GetN(1) returning everything persisted "
    "after a reopen is transcribed as observed)",
    "testing/synctest virtual time; the fake router answers with kb.SortClosestPeers over the generated swarm (exact K nearest); "
    "keys and peers are identified in Coq by the leading 32 bits of their sha256 Kademlia identifiers (pairwise different per case, "
    "so XOR orders coincide with those of the 256-bit identifiers)",
    "the trie lemmas of C18 (find_prefix_exact, prune_exact, add_one_spec) used by c17_schedule_prefix_free",
]
ASSUMPTIONS = [
    "Level0 is a specification on traces; accepts_sound makes the Coq acceptor a verified monitor of recorded traces of the real "
    "SweepingProvider: it is NOT a proof about the Go worker pool / goroutines",
    "the closest-peers router reports the exact K = 20 nearest peers (amino bucket size): with K <= 4 the early-exit heuristic of "
    "closestPeersToPrefix (maxConsecutiveNoFreshPeers) stops before the prefix is covered and with K = 1 a lookup delimits nothing",
    "every job type can get a worker (maxWorkers - dedicated workers of the other type >= 1); lookups take 0 / 0.1 / 0.5 / 1 / 2 s "
    "of virtual time (4 of 10 cases: jobs overlap and queue behind the workers, Close finds work in flight), ADD_PROVIDER "
    "messages take none; the swarm only changes while no lookup is in flight",
    "not generated: Close + New during an outage (the bootstrap then takes regions reprovided within the interval before the first "
    "reconnect as fresh and does not catch up a slot missed while down: observed gap 1.73 intervals); a key first given during an "
    "outage and given again later without force (found 'already provided', first advertised at its slot)",
    "a key counts as given when StartProviding is called while the network is up; during an outage the call returns nil, stores "
    "the key and the key is advertised at its schedule slot only (ProvideOnce: dropped) although the doc comment promises an error",
    "after a restart a key that was fresh at the restart may wait one more interval + delay counted from the restart (the rebuilt "
    "schedule may use other prefixes, hence other offsets)",
    "grace G = 7 min (probe back-off <= 1 min, retry ticker 5 min); reprovide_time theorems assume interval * 2^min(len,24) < 2^63",
]


def classify(desc, code):
    # The six defects found while building this check are repaired in /repo (1c8fa8f 31492f2 2d99c97 22c8252
    # 7d0480f b36ad55) and recorded as "fixed" in known_findings.json: nothing is suppressed any more.
    return None


TECHNIQUE = ("Coq proofs on Gallina models (buffered wrapper batching; schedule arithmetic; schedule trie) with differential "
             "correspondence against the Go code, plus a Coq-verified trace acceptor (accepts_sound: accepts -> Level0) evaluated on "
             "traces recorded from the real SweepingProvider under testing/synctest")
LEVEL_TEXT = ("Proved for all inputs: the (repaired) buffered wrapper's batched execution leaves the same keystore as one-by-one "
              "execution for every operation list incl. undecodable items and every batching, and queues for advertisement exactly "
              "what one-by-one execution queues up to keys already kept (the two former protocols are kept with their refutations); "
              "reprovide offsets lie in the cycle, are monotone and distinct per prefix length, split regions never move earlier, "
              "timeBetween is in [1, interval], the max-delay rule never binds, the schedule trie stays prefix-free without panics. "
              "The end-to-end property (every given key advertised with the current addresses to its r XOR-nearest peers, "
              "re-advertised within interval + delay while online across swarm changes / outages / restarts, stopped keys silent, "
              "ProvideOnce honoured) is specified as Level0 on traces and checked on recorded traces of the real provider by an "
              "acceptor proved sound in Coq.")
LEVEL_NOTE = ("PARTIAL: the Go worker pool is not modelled; the tie between the real SweepingProvider and Level0 is a verified monitor "
              "on generated traces (bounded by the generator), not a refinement proof. The exploration loop closestPeersToPrefix, the "
              "alarm/cursor logic of the scheduler and provider/dual are only exercised through those traces. Trusted: Coq kernel, vm_compute, the harness, synctest, "
              "go-dsqueue FIFO, the C18 trie lemmas.")
