# two runs: one request against a fresh node (the handlers), and - for the clause "a client-mode node answers nothing"
# across mode switches with streams already open - the histories of the C13 harness (same cases, judged by Run_C13:
# a request served while the node is in client mode is a failure there)
GO_RUNS = [
    {"pkg": ".", "pkgname": "dht", "test": "TestVerifC09", "share": 0.7, "harness": ["dht/c09_test.go"]},
    {"pkg": ".", "pkgname": "dht", "test": "TestVerifC13", "share": 0.3, "harness": ["dht/c13_test.go"]},
]
RUN_MODULE = "Run_C09"
COQ_TARGETS = ["Corr/Run_C09.vo", "Corr/Run_C13.vo", "Proofs/HandlersProofs.vo", "Proofs/PeerRecordProofs.vo", "Proofs/ModeProofs.vo"]
N = {"quick": 430, "thorough": 2900}
RULE = ("second run (30% of the cases): the mode-switch histories of the C13 harness (streams opened before a demotion on connections of "
        "both directions, requests arriving afterwards). First run: one request against a freshly built real IpfsDHT per case: server/client mode, values/providers enabled or not, K in {1,2,3,5,20}, "
        "routing table seeded with 0-60 peers (sometimes the requester and the node itself), scripted peerstore (no / few / >8 KiB of "
        "addresses per peer, fixed order), connectedness, address filter, value store with or without the requested record or failing, "
        "provider store with 0-20 providers (530-3000 maximal records in the budget cases) or failing; requests of every type 0-5 and "
        "unknown types x key lengths {0,1,34,80,81,4096} x cluster levels incl. int32 extremes x records (absent/matching/other key/empty) "
        "x provider entries (sender / other / no address / undecodable / all filtered / >8 KiB / nil entry) x stuffed peer lists, run "
        "directly through handlerForMsgType+handler or as framed bytes through handleNewStream on an in-memory stream; plus raw byte "
        "streams (random, oversized frame, truncated, 10-byte varint, mutated valid messages). Non-trivial = anything but a plain PING echo; "
        "distinct = distinct (path, type, outcome, origin, key class, mode flags, K-closer / target-first / budget-cut / record-trim / stored) signatures")
TRUSTED = [
    "go-libp2p-kbucket: RoutingTable.NearestPeers(k, n) returns the n members nearest to k in the XOR metric (specified so in the model, "
    "compared on every case); sha256 key conversion supplied by the harness",
    "google.golang.org/protobuf (Unmarshal never yields nil repeated elements; proto.Size compared with the model's size arithmetic on "
    "every FIND_NODE / GET_PROVIDERS response) and go-msgio framing (only exercised by the stream cases, no theorem)",
    "value store and provider store reduced to the outcome of the one call a handler makes (their internals: C05, C07); the provider store "
    "is a scripted records.ProviderStore placed in dht.providerStore, the value store is the real one over a fallible datastore",
    "the fake host / peerstore wrapper / in-memory stream of the harness; network.MessageSizeMax = 4 MiB transcribed and asserted",
]
ASSUMPTIONS = [
    "node_ok: every peer id the node can emit a record for (routing table, providers, ids with a peerstore address) is at most 8178 bytes "
    "(real ids are at most 42); cases outside it are generated and compared with the model but exempt from the 8 KiB clause",
    "K >= 1 for the closer-peer bounds, K <= 500 for the 4 MiB bound of FIND_NODE / GET_PROVIDERS responses",
    "the property is proved for decoded requests; 'every byte string' goes through msgio + protobuf decoding (trusted, exercised)",
]


def classify(desc, code):
    return None


TECHNIQUE = ("Coq proof over a Gallina transcription of handleNewMessage's gate and dispatch (dispatch table generated from handlers.go), the six "
             "handlers, closestPeersToQuery over an XOR-sorted routing table, the egress 8 KiB record bound and the GET_PROVIDERS budget loop with "
             "exact protowire arithmetic; differential correspondence with the real handlers and the real stream handler")
LEVEL_TEXT = ("Theorems in coq/Props/C09.v hold for every node state and every decoded request: client mode and disabled subsystems reset; at most K "
              "closer peers (plus the requested peer first for FIND_NODE), XOR-nearest first, never the node or the requester; every record <= 8 KiB; "
              "FIND_NODE / GET_PROVIDERS responses <= 4 MiB; PING / PUT_VALUE echoes carry no peer records; ADD_PROVIDER stores exactly the sender's "
              "records that carry a decodable address, filtered, for keys of 1-80 bytes; no request panics.")
LEVEL_NOTE = ("Partial: proved for structurally valid (decoded) requests; byte-level decoding is trusted and exercised. Proof is about the Gallina model; "
              "the tie to the Go code is the correspondence run. Trusted: Coq kernel, vm_compute, harness, kbucket NearestPeers, protobuf, msgio.")

RULE = RULE + (' PUT_VALUE: the validator prefers a stored record marked ok-best to an unmarked incoming one; 30% of the PUT_VALUE requests (and four directed cases) address a key the node holds such a record for, mostly carrying stuffed closer / provider peer records: the put is refused (stream reset), never echoed.')
