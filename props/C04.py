GO_PKG = "."
# external test package of the root package: the only place from which the standard client (package dht), the
# accelerated client (package fullrt) and the dual client (package dual) can all be driven, through their public API
GO_PKGNAME = "dht_test"
HARNESS = ["dht/c04_test.go"]
GO_TEST = "TestVerifC04"
RUN_MODULE = "Run_C04"
COQ_TARGETS = ["Corr/Run_C04.vo", "Proofs/ValueSearchProofs.vo"]
N = {"quick": 1500, "thorough": 20000}
RULE = ("a fixed plan of 84 tie scenarios first (two or more byte-different valid values of EQUAL rank -- same sequence number, different "
        "Select-neutral tag; for GetPublicKey the same key in two encodings -- from the local store and from responders, alone / after an "
        "improvement / alternating / next to dropped records / with a quorum, on each client and operation, in canonical and reverse delivery "
        "order); then random cases (75% with tags, 50% with only two sequence numbers so that ties are frequent): client standard / accelerated (fullrt) / dual; operation SearchValue / GetValue / GetPublicKey; 2-12 responders "
        "(WAN or LAN for dual) answering valid-new / valid-old / stale (outside the validator's clock-dependent validity window) / invalid / "
        "Select-error / mis-keyed / nil value / no record / error; local store none / valid / stale-by-validator / corrupt; quorum "
        "default,0,1,2,3,K; the delivery order of the answers chosen by the driver (gated message sender under testing/synctest).  "
        "Non-trivial = at least one accepted value; distinct = distinct (client, op, quorum, local kind, branch tags, size class, stream "
        "length) signatures.")
TRUSTED = [
    "the lookup (which peers are asked, when the search stops) is an input of the model: the harness records the answers in delivery order",
    "go-libp2p-routing-helpers Parallel.SearchValue / GetPublicKey (external): transcribed as merge_step, compared by correspondence",
    "record.PublicKeyValidator, crypto.UnmarshalPublicKey, peer.IDFromPublicKey: abstracted as the hash H",
    "testing/synctest virtual clock; fake host, gated message sender and fake crawler of the harness",
]
ASSUMPTIONS = [
    "accepted values are non-nil (remote nil values are dropped by the code; stored values were validated when stored)",
    "context cancellation by the caller is not modelled (it yields a prefix of the modelled stream)",
    "final_best / dual_merge assume Select is a total preorder on valid values (shown for the sequence-number validator); the rank theorems "
    "(9, 9a-9e) assume Select agrees with a rank on valid values and returns the FIRST of the best-ranked entries (go-libp2p-record convention)",
    "fixup_targets (who receives the corrective put; 9c/9d say the sender of a tied value does) is modelled and proved about, not compared "
    "with the implementation: the property is about the values yielded, the harness does not observe PUT_VALUE recipients",
]
GO_TIMEOUT = {"quick": 900, "thorough": 3000}


def classify(desc, code):
    # Known finding (known_findings.json): the dual client's SearchValue under back-pressure.  While the caller is not
    # reading the result channel, answers keep arriving at the WAN sub-search and are processed there; when the caller
    # reads again, the sub-search that finishes first after having sent something (typically the LAN side, which only
    # has the local record) makes routing-helpers' Parallel.search cancel all others, and the better values the WAN
    # sub-search had already processed are never forwarded: the stream ends below a valid value of a processed answer.
    spec = desc.get("spec") if isinstance(desc, dict) else None
    if code == 2 and isinstance(spec, dict) and spec.get("client") == "dual" and spec.get("op") == "search" and spec.get("slow_consumer"):
        return "dual-search-back-pressure-drops-processed-values"
    return None

TECHNIQUE = ("Coq proof (fold invariants over all arrival lists for processValues, record acceptance, local phase, dual merge, public-key "
             "check) + differential correspondence driving the real clients' SearchValue/GetValue/GetPublicKey with scripted responders")
LEVEL_TEXT = ("Theorems in coq/Props/C04.v hold for every validator, every assignment of records to responders and local storage, every "
              "delivery order and every quorum: values streamed by the standard client are valid for the requested key and come from a "
              "correctly keyed record; streams are strictly improving (under a rank-induced, first-of-equals Select: strictly increasing in rank against every earlier value, "
              "so a value that TIES with the best is never streamed, does not replace it, is counted for the quorum and its sender is not put in "
              "peersWithBest; the final value's rank is maximal among everything consumed); under a total-preorder Select the final value is at least as good as "
              "every value consumed before the search ended; nothing valid supplied gives not-found and a mis-keyed record is an RPC error; "
              "GetPublicKey only returns keys hashing to the peer; the accelerated client's stream equals the standard client's; the dual merge "
              "of any interleaving is improving and ends at the best; dual.GetValue returns one of the two halves' results, the WAN's when "
              "the WAN search succeeded (the priority C15 specifies; best-of-both is not claimed for it).")
LEVEL_NOTE = ("Proof is about the Gallina model of the value-processing logic; the lookup that produces the delivery order is an input. The "
              "tie to the Go code is the correspondence run on generated scripts and delivery orders (differential, bounded by the generator).")
