GO_PKG = "./fullrt"
GO_PKGNAME = "fullrt"
HARNESS = ["fullrt/c16_test.go"]
GO_TEST = "TestVerifC16"
RUN_MODULE = "Run_C16"
COQ_TARGETS = ["Corr/Run_C16.vo", "Proofs/FullRtProofs.vo", "Proofs/CrawlerProofs.vo"]
N = {"quick": 400, "thorough": 3000}
GO_TIMEOUT = {"quick": 600, "thorough": 3000}
RULE = ("eight case kinds, all running the real code of /repo on a fake host with a scripted message sender: "
        "(closest) the three table fields set as runCrawler sets them, 0-200 crawled peers with 0-4 real multiaddrs each out of a pool of 1-100 IP groups "
        "(a second transport on the same IP, IPv6/ASN groups, private, DNS and address-less peers included), K in {0,1,5,20}, limit in {0,1,3}, "
        "one tenth of the tables deliberately not the table of one crawl, then GetClosestPeers; "
        "(ctor) NewFullRT with generated BucketSize / WithIPDiversityFilterLimit / prefix options, the fields it stored, then a lookup; "
        "(crawl) crawler.DefaultCrawler.Run on graphs of 1-40 peers with dial failures, request failures, empty answers, address-less and duplicate seeds, parallelism 1-8; "
        "(refresh) 2-3 crawl rounds through the real runCrawler + DefaultCrawler with bootstrap peers and changing graphs, table and a lookup after each swap; "
        "(swap) a reader held inside the real GetClosestPeers while the real runCrawler swaps the table, further readers queued behind / between the writer's lock acquisitions; "
        "(bulk/single) ProvideMany, PutMany, Provide, PutValue on empty and non-empty tables; (bulk-swap, one case in 40) ProvideMany / PutMany of 1-6 keys started on the "
        "table of a first crawl (1-12 peers) while the second crawl (65%: nobody, else a random subset) is swapped in by the real runCrawler at the n-th log statement of the "
        "operation's goroutine (n = 1 in half of the cases, else 2-4), judged by the no-panic / no-hang clause alone; (chunk) divideByChunkSize. "
        "A case is non-trivial when it has at least one crawled peer / queried peer; distinct = distinct (kind, K, limit, size class, branch tags "
        "skipped / short / paged / mixed / failures / duplicate seeds / stage reached) signatures")
TRUSTED = [
    "go-log's SetPrimaryCore / zapcore: the harness' logging core runs on the goroutine that logs (used as a yield point of bulk operations)",
    "sha256 (kb.ConvertPeerID / kb.ConvertKey): identifiers are passed to the model as their leading 64 bits; the harness keeps them pairwise different within a case, "
    "which makes the XOR order on the prefixes equal to the order on the full identifiers",
    "go-libp2p-xor trie: kademlia.ClosestN(key, trie, n) is specified as 'the n nearest keys, nearest first' and trie.Size as the number of keys (compared on every case, not derived)",
    "manet.ToIP and peerdiversity.IPGroupKey: the harness maps every multiaddr to its group with the same two functions",
    "kaddht.PublicRoutingTableFilter: the harness asks the real filter which peers it keeps and passes the answer to the model",
    "fake host / peerstore / message sender of the harness; the peerstore returns addresses in a fixed order (pstoremem returns them in map order)",
    "sync.RWMutex writer preference (a pending Lock blocks later RLocks), used to place readers between the swap steps; goroutine ids parsed from runtime.Stack; "
    "reader counts read from sync.RWMutex by reflection",
    "hangs are detected by a watchdog: 30 s, shortened to 0.5 s when the paging step the code is about to compute is 0 on a non-empty table "
    "(the spinning call is then ended by pointing dht.rt at an empty trie); the recorded outcome is always what was observed",
]
ASSUMPTIONS = [
    "K, the limit and table sizes are non-negative machine integers far below 2^63 (negative configured values are outside the model; "
    "WithIPDiversityFilterLimit does not reject a negative limit)",
    "direct-state cases with K = 0 (a state NewFullRT can no longer produce) only compare model and implementation",
    "dial, request and send outcomes are scripted: workers always return (the real code bounds them with timeouts)",
    "crawler parallelism >= 1 for termination (with 0 workers the main loop blocks on its first hand-over; stated as a hypothesis of c16_crawl_progress)",
]

# The seven defects found while building this check (empty-table divide by zero, dropped limit option, bucket size 0,
# duplicate starting peers, three-step swap, same-group addresses, K = 0 returning the table) are repaired in /repo and
# recorded as `fixed:` in known_findings.json.  There is no known finding for C16: every failure is a violation.
def classify(desc, code):
    return None


TECHNIQUE = ("Coq proof (scan invariants for the IP-diversity paging loop, sortedness of the XOR order, induction over all schedules of the crawler work list "
             "and over all interleavings of swap steps with readers) on a Gallina model, differential correspondence with the real FullRT and DefaultCrawler")
LEVEL_TEXT = ("Theorems in coq/Props/C16.v hold for every crawled peer set, address assignment, key, K >= 1 and limit: the answer of the accelerated client is a "
              "strictly ascending (XOR) duplicate-free list of crawled peers of length <= K with at most `limit` peers per IP group, and equals the K nearest crawled peers "
              "when the limit is off or no group holds more crawled peers than the limit; the paging loop terminates whenever K + 2*limit > 0 and the constructor only "
              "produces K >= 1 with the configured limit (default bucket size without the option, error below 1); for every interleaving of crawl completions, swaps and "
              "readers every read is the answer on the table of one completed crawl; every schedule of the crawler, for every seed list (duplicates included), queries exactly "
              "the reachable peers, each once, with one callback per query, within 2*|reachable| steps; bulk and single operations return an error on an empty table and "
              "never panic or block. The model describes /repo after the fixes 554fc14..19e6b03; the harness keeps the inputs that triggered each repaired defect.")
LEVEL_NOTE = ("Proof is about the Gallina model; the tie to the Go code is the correspondence run (differential testing, bounded by the generator). Trusted: Coq kernel, vm_compute, "
              "the harness and its fake host, the ClosestN specification of the external XOR trie, sha256, IP group computation, sync.RWMutex semantics. "
              "Termination of the crawler assumes workers return (timeouts in the real code).")
