GO_PKG = "."
GO_PKGNAME = "dht"
HARNESS = ["dht/c05_test.go"]
# a five-line export shim (no logic) injected beside records/value_store.go: the harness lives in the root
# package (handlePutValue / handleGetValue / PutValue are there) and needs the unexported sweep and key mapping
EXTRA_OVERLAY = {"records/zz_verif_c05_export.go": "records/c05_export.go"}
GO_TEST = "TestVerifC05"
RUN_MODULE = "Run_C05"
COQ_TARGETS = ["Corr/Run_C05.vo", "Proofs/ValueStoreProofs.vo"]
N = {"quick": 600, "thorough": 6000}
RULE = ("random cases: 2-4 writers (remote PUT_VALUE via handlePutValue, local PutValue, putLocal), 1-2 readers (handleGetValue, getLocal), "
        "optional GC sweep, on 1-3 keys of which two share a lock stripe; records better / equal / worse / invalid / Select-error / "
        "bound to another key / mis-keyed / nil / no key; preloaded datastore entries good, corrupt, misfiled, without or with a bad time "
        "stamp, aged around the maximum age (-1 ns, 0, +1 ns); clock advances around the maximum age; the interleaving of all datastore "
        "accesses chosen by the driver.  A case is non-trivial when it reaches at least one of the branches blocked-on-stripe / replace / "
        "discard-delete / gc-delete / served / refused / old-record / ...; distinct = distinct (branch set, number of calls) signatures. "
        "Thorough adds every interleaving (all spawn and release orders) of two writers and one reader / local put / GC sweep on one key "
        "for all pairs of record kinds and five kinds of stored record.")
TRUSTED = [
    "protobuf (un)marshalling of recpb.Record is injective on (key, value, timeReceived); RFC3339Nano formatting/parsing round-trips nanoseconds",
    "valueDsKey is injective in the record key; the value datastore holds no provider keys",
    "testing/synctest virtual clock; the gated in-memory datastore of the harness (Query returns a snapshot in key order)",
    "record.NamespacedValidator dispatch on the key's namespace",
]
ASSUMPTIONS = [
    "callers of ValueStore.Put pass a record made for that key (ev_wf; true of handlePutValue, PutValue, updatePeerValues)",
    "datastore operations do not fail (other than ErrNotFound)",
    "one value namespace (one sweep query per GC pass)",
]
GO_TIMEOUT = {"quick": 600, "thorough": 3000}


def classify(desc, code):
    return None

TECHNIQUE = ("Coq proof (mutual-exclusion invariant by induction over all event lists of a program-counter model of the value store and "
             "its callers) + differential correspondence driving the real handlers on a gated datastore under testing/synctest")
LEVEL_TEXT = ("Theorems in coq/Props/C05.v hold for every interleaving of any number of PUT_VALUE / GET_VALUE handlers, local PutValue, "
              "getLocal/putLocal calls and GC sweeps on any keys, for every validator and maximum age: whatever is written is a record valid "
              "for and carrying its key; a valid stored record is only replaced by one Select prefers; deletions remove exactly the corrupt / "
              "misfiled / expired bytes the reader saw; a served record is the stored one, for the requested key, not older than the maximum age "
              "(the code's `>` comparison); an acknowledged put is in the store and stays readable until it ages out; a local PutValue is refused "
              "when a better value is stored.  The model is compared with the real code on driver-chosen interleavings on every run.")
LEVEL_NOTE = ("Proof is about the Gallina model; the tie to the Go code is the correspondence run (differential, bounded by the generator; "
              "thorough tier exhaustive for 2 writers x 1 reader on one key). Trusted: Coq kernel, vm_compute, the harness (gates, fake host, "
              "synctest clock), protobuf and RFC3339 encoding, go-datastore key handling.")
