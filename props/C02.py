GO_PKG = "."
GO_PKGNAME = "dht"
HARNESS = ["dht/sim_test.go", "dht/lookup_test.go", "dht/world_test.go"]
GO_TEST = "TestVerifC02"
RUN_MODULE = "Run_C02"
COQ_TARGETS = ["Corr/Run_C02.vo", "Proofs/LookupConvergence.vo"]
N = {"quick": 250, "thorough": 5000}
RULE = ("75% honest networks (every peer answers with the K nearest peers it knows; knowledge is either k-bucket complete with full buckets "
        "sampled at random, or total), 25% arbitrary networks as in C01; K in {1,2,3,5,20}, alpha in {1,2,3,10}, beta in {1,2,3}, four release "
        "strategies, occasional cancellation; each honest case is also run through the public GetClosestPeers on a fresh node to observe the "
        "returned list, the error and the bucket refresh stamp; non-trivial/distinct as in C01")
TRUSTED = ["sha256 ids", "kbucket NearestPeers and ResetCplRefreshedAtForID/GetTrackedCplsForRefresh", "the generator's construction of k-bucket complete knowledge",
           "testing/synctest virtual time and blocking detection"]
ASSUMPTIONS = ["distinct peers have distinct sha256 ids", "honest-network hypothesis of the property holds for the generated honest cases by construction"]
TECHNIQUE = "Coq proof (XOR-metric bucket lemma + invariant over event lists) of convergence, end condition, contact and termination; differential correspondence under synctest"
LEVEL_TEXT = ("Theorems in coq/Props/C02.v: for every k-bucket-complete honest network, key, non-empty seed table, (K, alpha, beta>=1) and arrival order the "
              "globally nearest peer is returned first; with total knowledge the result is exactly the K globally nearest; for any network an "
              "uncancelled, unstopped lookup ends only when the beta nearest non-failed learned peers answered or nothing is left to ask; a completed "
              "lookup has contacted every returned peer; an unterminated lookup always has a request in flight and terminates within |network| arrivals. "
              "Each run drives the real lookup on generated honest and adversarial networks and evaluates these clauses on the implementation's trace.")
LEVEL_NOTE = ("Proof about the Gallina model of query.go/lookup.go; ties to Go by the correspondence run (differential, bounded by the generator). The honest-network "
              "hypothesis is the property's own. Trusted: Coq kernel, vm_compute, harness, generator of complete knowledge, sha256 ids.")


def classify(desc, code):
    return None

RULE = RULE + (" Failing peers fail with a plain error, a wrapped context.Canceled or a wrapped context.DeadlineExceeded (a third each, a function of the peer id) while the lookup's own context is alive.")
