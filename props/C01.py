GO_PKG = "."
GO_PKGNAME = "dht"
HARNESS = ["dht/sim_test.go", "dht/lookup_test.go"]
GO_TEST = "TestVerifC01"
RUN_MODULE = "Run_C01"
COQ_TARGETS = ["Corr/Run_C01.vo"]
N = {"quick": 300, "thorough": 6000}
RULE = ("random networks of 1-50 peers (failing 0-60%, lying 0-30%: oversize lists, duplicates, the requester itself), K in {1,2,3,5,20}, "
        "alpha in {1,2,3,10}, beta in {1,2,3}, IP-group limit 0-3, optional FindPeer-style target, optional stop function, optional cancellation "
        "instant, four release strategies (random, FIFO, LIFO, farthest-first); the real runLookupWithFollowup is driven one response at a time; "
        "non-trivial = more than the seed event and a terminate event; distinct = distinct (termination reason, follow-up kinds, K/alpha/beta, size class)")
TRUSTED = ["sha256 / kbucket.ConvertKey (ids are supplied as sha256 values)", "kbucket NearestPeers = K nearest routing-table members",
           "peerstore address merging: every peer has one fixed address set in all responses", "peerdiversity.IPGroupKey",
           "testing/synctest virtual time and blocking detection"]
ASSUMPTIONS = ["distinct peers have distinct sha256 ids", "responses of one peer are the same each time it is asked"]
TECHNIQUE = "Coq proof by induction over event lists of the lookup state machine + differential correspondence under synctest"
LEVEL_TEXT = "see DESIGN.md C01"
LEVEL_NOTE = "see DESIGN.md C01"


def classify(desc, code):
    return None
