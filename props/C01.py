GO_PKG = "."
GO_PKGNAME = "dht"
HARNESS = ["dht/sim_test.go", "dht/lookup_test.go", "dht/world_test.go"]
GO_TEST = "TestVerifC01"
RUN_MODULE = "Run_C01"
COQ_TARGETS = ["Corr/Run_C01.vo", "Proofs/LookupProofs.vo", "Proofs/RunLookupSound.vo"]
N = {"quick": 300, "thorough": 6000}
RULE = ("random networks of 1-50 peers (failing 0-60%, lying 0-30%: oversize lists, duplicates, the requester itself), K in {1,2,3,5,20}, "
        "alpha in {1,2,3,10}, beta in {1,2,3}, IP-group limit 0-3, optional FindPeer-style target, optional stop function, optional cancellation "
        "instant, four release strategies (random, FIFO, LIFO, farthest-first); the real runLookupWithFollowup is driven one response at a time; "
        "non-trivial = more than the seed event and a terminate event; distinct = distinct (termination reason, follow-up kinds, K/alpha/beta, size class)")
TRUSTED = ["sha256 / kbucket.ConvertKey (ids are supplied as sha256 values)", "kbucket NearestPeers = K nearest routing-table members",
           "peerstore address merging: every peer has one fixed address set in all responses", "peerdiversity.IPGroupKey",
           "testing/synctest virtual time and blocking detection"]
ASSUMPTIONS = ["distinct peers have distinct sha256 ids", "responses of one peer are the same each time it is asked"]
TECHNIQUE = "Coq proof by induction over event lists of the lookup state machine + differential correspondence under synctest"
LEVEL_TEXT = ("Theorems in coq/Props/C01.v hold for every configuration, every scripted network (failing and lying peers), every seed list and "
              "every arrival order / cancellation instant (induction over the event list of the lookup state machine): no protocol panic, result "
              "bounded by K, distinct, without self, strictly ascending, every member a seed or named in a processed answer, none failed, exactly "
              "the K nearest learned non-failed peers, events agree with requests and answers. Every run also drives the real "
              "runLookupWithFollowup one response at a time and compares result, states, events and requests with the model, and evaluates the "
              "property itself on the implementation's trace.")
LEVEL_NOTE = ("Proof is about the Gallina transcription of query.go/qpeerset.go; goroutines are replaced by explicit event lists (one event = "
              "one queryUpdate received by the run loop). The tie to the Go code is the correspondence run under testing/synctest (differential, "
              "bounded by the generator). Trusted: Coq kernel, vm_compute, harness, sha256 ids, kbucket NearestPeers, peerstore address merging.")


def classify(desc, code):
    return None

RULE = RULE + (" Failing peers fail with a plain error, a wrapped context.Canceled or a wrapped context.DeadlineExceeded (a third each, a function of the peer id) while the lookup's own context is alive.")
