GO_PKG = "./provider/keystore"
GO_PKGNAME = "keystore"
HARNESS = ["keystore/c20_test.go"]
GO_TEST = "TestVerifC20"
RUN_MODULE = "Run_C20"
COQ_TARGETS = ["Corr/Run_C20.vo"]
N = {"quick": 300, "thorough": 6000}
RULE = "tbd"
TRUSTED = []
ASSUMPTIONS = []


def classify(desc, code):
    return None

TECHNIQUE = "tbd"
LEVEL_TEXT = "tbd"
LEVEL_NOTE = "tbd"
