# two runs: the model-backed run (plain keystore histories, gated resets) and the bounded-buffer run (reset buffer of 1-3
# keys, Puts staged in pieces and waiting for room; judged by the property's final-state clause, Run_C20B.v)
GO_RUNS = [
    {"pkg": "./provider/keystore", "pkgname": "keystore", "test": "TestVerifC20", "share": 0.75, "harness": ["keystore/c20_test.go"]},
    {"pkg": "./provider/keystore", "pkgname": "keystore", "test": "TestVerifC20B", "share": 0.25,
     "harness": ["keystore/c20_test.go", "keystore/c20b_test.go"]},
]
RUN_MODULE = "Run_C20"
COQ_TARGETS = ["Corr/Run_C20.vo", "Corr/Run_C20B.vo", "Proofs/KeystoreProofs.vo", "Proofs/ResetKeystoreProofs.vo", "Proofs/RunC20BSound.vo"]
N = {"quick": 400, "thorough": 12000}
RULE = ("bounded-buffer run (a quarter of the cases, numbered from 100000): the real ResettableKeystore with WithResetBufferCapacity 1-3 and batch size 1-4 in a "
        "testing/synctest bubble; 0-5 keys before, ResetCids with 1-8 keys fed with pauses of 0-30 ms, every datastore call delayed by 0-2 ms of virtual time "
        "(Sync and Query by 10-40 ms), 0-3 Puts at random instants (half of them larger than the buffer) and, in 3 of 4 cases, one Put larger than the buffer "
        "launched from inside the n-th sync/query/has/commit call made on behalf of the reset; 20% of the cases cancel the reset at a random instant; "
        "then Get \"\" and Size of the live keystore and of a keystore reopened after Close; judged by the final-state clause of the property (Run_C20B.v). "
        "model-backed run: two kinds of cases. plain (2 of 3): random histories of 3-60 operations on the real keystore over a recording, "
        "fault-injecting datastore: put/delete (1-6 keys, 4% with a repeated key)/empty, each with a 12% chance of one failing "
        "Has/Commit/Sync, get/count/contains with prefixes of 0-16 bits around clustered keys or (one in eight) the complete 256-bit identifier of a pool key (prefixBits 0/8/16, batch size 1-5 or 64), "
        "clean restarts, and crashes cutting the journal anywhere inside the last operation; non-trivial when a branch among "
        "put-some-new / long-prefix hit or miss / count capped / multi-batch empty / fault hit / restart / crash losing writes is reached. "
        "reset (1 of 3): the real ResettableKeystore inside a testing/synctest bubble, every datastore call made on behalf of ResetCids "
        "parked at a gate; 0-3 puts before, optionally a first undisturbed reset, then ResetCids with 0-11 keys fed one by one, ticker "
        "firings, 1-6 concurrent puts placed at random gates of every phase (bulk, refresh, catch-up, final drain, marker, teardown), "
        "optionally one failing datastore call (commit/sync/query/has of the alternate slot, the write of a ticker-driven drain of the put buffer, marker put, marker sync), a cancellation "
        "or a Close at a random gate, a put afterwards, Close; then a keystore is reopened on EVERY prefix of the journal and compared "
        "with the allowed sets. four fixed scenarios (same key put twice after phase B; failing marker write; failing ticker-driven drain with puts buffered; cancellation during "
        "opStart: the defects fixed by 47a8290, bdb3b1c, 83723a5) are part of every run. distinct = distinct (kind, branch set, size class) signatures")
TRUSTED = [
    "the harness' in-memory datastore (insertion-ordered map + journal + sync points + fault injection + gates) and go-datastore's "
    "NaiveQueryApply prefix/limit semantics, namespace.Wrap key transform, BasicBatch-like atomic commit",
    "durability model: a crash keeps a prefix of the write journal not shorter than the last successful Sync (write-ahead-log datastores "
    "such as pebble); a Sync of any prefix makes the whole journal durable",
    "sha256 / MhToBit256 / dsKey base64 suffix: modelled by the pair (leading 20 identifier bits, key identity) supplied by the harness; "
    "injectivity checked per pool by construction (distinct multihashes)",
    "testing/synctest scheduling and the translation of gated datastore calls into model events (harness/keystore/c20_test.go, c20Tr)",
]
ASSUMPTIONS = [
    "keys are well formed (the identifier is a function of the key identity); a call may repeat a key",
    "the in-memory swap of opCleanup is modelled together with the marker write (the code performs it after the marker Sync; "
    "only the worker, which is inside handleResetOp, reads the swapped fields)",
    "shared-datastore mode only (WithDatastoreFactory is not modelled); concurrent operations during a reset are Puts",
    "query prefixes are at most 16 bits, compared on the leading 20 bits of the identifiers",
]


def classify(desc, code):
    """No known findings: the three defects C20 found (dedup map keyed by a pointer, ignored
    marker-write failure, cancellation during opStart) are fixed in /repo; their scenarios stay in
    every run (reset cases 2, 5 and 8) and are reported as violations if they come back."""
    return None


TECHNIQUE = ("Coq proof (set refinement of the plain keystore by invariant over operation histories incl. restarts, crashes and injected "
             "failures; invariant of the reset state machine by induction over event lists, crash theorem for every journal prefix) on "
             "Gallina models, differential correspondence with the real keystore types, Go-side reopen-on-every-journal-prefix oracle")
LEVEL_TEXT = ("Theorems in coq/Props/C20.v hold for histories and interleavings of any length: Put returns exactly the new keys, "
              "Get/Count/ContainsPrefix are exact for short and long prefixes, Size is the cardinality, the persisted size is absent or exact "
              "at every crash point, acknowledged writes survive crashes; for the resettable keystore every crash point under every "
              "interleaving of concurrent Puts, aborts and Close reopens to the complete old or the complete new set with the acknowledged "
              "puts and a matching size; any failing datastore call of the reset, including the marker write, leaves the complete old set; "
              "the worker can always return to its idle loop. The three defects this check found (fixed in /repo: 47a8290, bdb3b1c, 83723a5) "
              "stay as fixed scenarios in every run.")
LEVEL_NOTE = ("The reset model has an unbounded put buffer: runs with a bounded buffer (WithResetBufferCapacity 1-3, Puts staged in pieces) are judged "
              "by the property's final-state clause on the implementation's observations only, not by c20_reset_atomic. Proof is about the Gallina models; the tie to the Go code is the correspondence run (differential testing, bounded by the "
              "generator) plus the Go-side oracle. Partial: failing marker Sync, failures inside the teardown and failing datastore calls of "
              "concurrent Puts during a reset are not modelled (oracle only); factory mode is not covered; continuing a history after a "
              "crash of the resettable keystore is proved only for the plain keystore (part 1).")
