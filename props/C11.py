GO_PKG = "./internal/net"
GO_PKGNAME = "net"
HARNESS = ["net/c11_test.go"]
GO_TEST = "TestVerifC11"
RUN_MODULE = "Run_C11"
COQ_TARGETS = ["Corr/Run_C11.vo", "Proofs/MsgSenderProofs.vo"]
N = {"quick": 400, "thorough": 12000}
