GO_PKG = "./internal/net"
GO_PKGNAME = "net"
HARNESS = ["net/c11_test.go"]
GO_TEST = "TestVerifC11"
RUN_MODULE = "Run_C11"
COQ_TARGETS = ["Corr/Run_C11.vo", "Proofs/MsgSenderProofs.vo"]
N = {"quick": 300, "thorough": 6000}
GO_TIMEOUT = {"quick": 600, "thorough": 2400}
RULE = ("online-generated driver schedules on the real messageSenderImpl over a fake host with in-memory gated streams, inside "
        "testing/synctest: 1-3 peers, 1-8 concurrent SendRequest/SendMessage calls, steps start / NewStream ok|fail / write ok|fail / "
        "remote answers oldest request (good|garbage, also on streams the client already reset = late reply) / remote reset / read timeout "
        "(virtual time) / ctx cancel|deadline / OnDisconnect (with or without the transport killing the peer's streams); five profiles "
        "(mixed, fault-heavy, stream-reuse counter, slow remote, disconnect-heavy). A case is non-trivial when it reaches at least one of "
        "retry / write-fail / dial-fail / timeout / timeout-twice / late-reply-dropped / garbage / remote-reset / cancel-blocked / "
        "disc-busy / disc-idle / invalidated / two-open-streams / one-message-per-stream / msg-ok; distinct = distinct "
        "(branch set, peers, calls) signatures")
TRUSTED = [
    "the in-memory stream of the harness (Read/Write/Reset/Close over buffers, write of a complete varint-framed message is a gate) "
    "stands for a yamux stream; go-msgio framing and protobuf decoding are exercised but not verified",
    "testing/synctest: virtual time, synctest.Wait() = every goroutine durably blocked; the Go runtime serves blocked channel senders "
    "in FIFO order (CtxMutex hand-off order used by the correspondence run, not by the theorems)",
    "each critical section under messageSenderImpl.smlk is one atomic model event (no blocking call inside them)",
]
ASSUMPTIONS = [
    "the remote answers the requests of a stream in order, one reply per request, echoing the request id, and never sends "
    "unsolicited messages (a remote that answers a SendMessage leaves a stale reply on the reused stream: outcome reported under "
    "input_distribution 'adversarial:remote-answers-SendMessage:*', not a violation)",
    "request ids are the call ids; Stream.Close returns nil",
    "one stream per PEER is proved for event lists without OnDisconnect (since d646d02 a failed Lock(ctx) no longer orphans a "
    "sender: c11_valid_sender_stays_mapped); right after a disconnect notification the model and the code have a transient with "
    "two open streams (c11_one_stream_per_peer_refuted); the trace check allows one extra open stream per disconnect "
    "notification of the peer",
    "the schedule of the repaired orphaned-sender leak needs a preemption no gate offers: regression replay with a hooked "
    "ctx_mutex overlay in corpus/C11/orphan-sender (run.sh), not part of the generated cases",
    "schedules in which Go's select would have two ready arms (Lock(ctx) with a free lock and a done context) are not generated",
]
TECHNIQUE = ("Coq proof (invariant by induction over all event lists of a transcribed state machine of messageSenderImpl / "
             "peerMessageSender / CtxMutex) plus differential correspondence: the real code is driven step by step inside synctest "
             "and the model replays the same driver steps, observations compared after every step")
LEVEL_TEXT = ("Theorems in coq/Props/C11.v hold for every event list (every interleaving of SendRequest/SendMessage/OnDisconnect calls, "
              "every placement of dial/write failures, late, garbage or missing replies, remote resets, read timeouts and context "
              "cancellations) of the model: a sender whose lock is free has a clean stream, a returned reply carries the caller's own "
              "request id and is obtained only by the read of its own exchange, a timed-out or cancelled read resets and drops the stream "
              "and fails (after at most one retry on a new stream), a reset stream is never written to or current again, exchanges on a "
              "sender are serialized by its lock over at most one open stream, a call writes at most twice, no nil-stream dereference. "
              "PARTIAL: the proof is about the state machine; real stream/yamux behaviour is replaced by an in-memory pipe; one stream "
              "per peer holds for event lists without OnDisconnect (transient after a disconnect refuted by witness).")
LEVEL_NOTE = ("Proof is about the Gallina model; the tie to the Go code is the correspondence run (step-by-step differential testing under "
              "synctest, bounded by the generator). Trusted: Coq kernel, vm_compute, the harness and its in-memory streams, synctest, "
              "FIFO hand-off of the channel mutex.")


def classify(desc, code):
    # no known finding is produced by the correspondence run on the unchanged tree
    return None
