GO_PKG = "./records"
GO_PKGNAME = "records"
HARNESS = ["records/c07_test.go"]
GO_TEST = "TestVerifC07"
RUN_MODULE = "Run_C07"
COQ_TARGETS = ["Corr/Run_C07.vo", "Proofs/ProvidersProofs.vo"]
N = {"quick": 600, "thorough": 5000}
RULE = ("random histories (5-85 operations + a final restart and a query of every key) of AddProvider / GetProviders / "
        "time.Sleep / restart / Close on the real ProviderManager in a synctest bubble, 1-12 keys (some are byte-prefixes "
        "of others) over a cache of 1-4 entries, 1-6 providers (one is the local peer), validity from a few ns to 48 h, "
        "sweep interval disabled / V/3 / V / 2V+3 / random, 60% of the sleeps aimed at an expiry instant -1/0/+1 ns, "
        "30% of the cases start on a datastore holding undecodable rows; thorough additionally inserts a restart after an "
        "acknowledged write; a case is non-trivial when it reaches at least one of the branches cache-hit / "
        "miss-after-evict-or-restart / expired-in-cache / expired-on-load / sweep-deleted / load-deleted / "
        "restart-with-rows / closed-op / add-unserved / garbage / multi; distinct = distinct (branch set, length class, "
        "cache size, key-count class) signatures")
TRUSTED = [
    "testing/synctest virtual time (time.Now, time.Since, time.Sleep, time.Ticker) stands for the wall clock",
    "go-datastore MapDatastore + sync.MutexWrap: Put/Delete/Query semantics, the path-boundary prefix filter of NaiveQueryApply "
    "(prefix + '/'), no errors; hashicorp simplelru (Get promotes, Add evicts the oldest) is the cache passed through the public "
    "Cache option",
    "base32 datastore paths are injective on the non-empty keys and peer ids of a case (the harness maps rows back to ids and "
    "fails on an unknown path); binary.Varint decoding of the stored time",
    "pstoremem peerstore returns the queried id in PeerInfo",
]
ASSUMPTIONS = [
    "operations are sequential (the model is atomic per operation); the documented race of the background sweep with a "
    "concurrent re-add of an expired record is outside the model",
    "provider keys are non-empty (handleAddProvider rejects empty keys, Provide rejects undefined keys): with an empty key "
    "mkProvKey degenerates to the whole providers prefix",
    "ProvideValidity >= 0; MapDatastore never fails; the GetProviders context is never cancelled",
    "handleAddProvider's decision is proved on a pure transcription (c07_add_provider_gate); its correspondence with the real "
    "handler is exercised by C09's harness (package dht), not here",
]


def classify(desc, code):
    return None


TECHNIQUE = ("Coq proof (refinement invariant by induction over operation histories, for every cache capacity) on a Gallina "
             "model of ProviderManager, differential correspondence with the real manager under synctest virtual time")
LEVEL_TEXT = ("Theorems in coq/Props/C07.v hold for every history of add / query / clock-advance / sweep / restart / close "
              "operations of any length over any keys and providers, every cache capacity, every validity and any "
              "undecodable rows present at start: GetProviders returns, as a duplicate-free set, exactly the providers whose "
              "most recent addition is at most the validity period old (also after eviction, sweeps and restarts), never a "
              "peer that was not added for that key; the sweep deletes exactly undecodable and expired rows; after Close "
              "every call returns ErrClosed and the datastore is not touched; handleAddProvider stores only sender = "
              "provider records with an address and a key of 1..80 bytes. The model is compared with the real "
              "ProviderManager on generated histories on every run, and the property is evaluated independently of the "
              "model on the recorded trace (query results against the specification, datastore rows against the "
              "specification, no datastore call after Close).")
LEVEL_NOTE = ("Proof is about the Gallina model; the tie to the Go code is the correspondence run (differential testing, "
              "bounded by the generator). Sequential model: the documented GC/re-add race is not modelled. Trusted: Coq "
              "kernel, vm_compute, the harness, synctest virtual time, MapDatastore/simplelru semantics, base32 path "
              "injectivity.")
