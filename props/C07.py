# two runs: the ProviderManager itself (package records), and the two handlers that feed and read it on a real
# node (package dht): accepted inbound ADD_PROVIDERs must be returned by every later GET_PROVIDERS
GO_RUNS = [
    {"pkg": "./records", "pkgname": "records", "test": "TestVerifC07", "share": 0.8, "harness": ["records/c07_test.go"]},
    {"pkg": ".", "pkgname": "dht", "test": "TestVerifC07H", "share": 0.2,
     "harness": ["dht/sim_test.go", "dht/lookup_test.go", "dht/world_test.go", "dht/c07h_test.go"]},
]
RUN_MODULE = "Run_C07"
COQ_TARGETS = ["Corr/Run_C07.vo", "Corr/Run_C07H.vo", "Proofs/ProvidersProofs.vo", "Proofs/ProvidersCloseProofs.vo"]
N = {"quick": 940, "thorough": 7800}
RULE = ("handler run (a fifth of the cases): sequences of inbound ADD_PROVIDER (own / foreign entries, addresses public / private / loopback / "
        "none, bad keys), addresses learned by the peerstore afterwards and GET_PROVIDERS through the real handlers of a node without or with a "
        "public-only address filter; every query must return exactly the providers accepted so far. ProviderManager run: four cases out of five: random histories (5-85 operations + a final restart and a query of every key) of AddProvider / GetProviders / "
        "time.Sleep / restart / Close on the real ProviderManager in a synctest bubble, 1-12 keys (some are byte-prefixes "
        "of others) over a cache of 1-4 entries, 1-6 providers (one is the local peer), validity from a few ns to 48 h, "
        "sweep interval disabled / V/3 / V / 2V+3 / random, 60% of the sleeps aimed at an expiry instant -1/0/+1 ns, "
        "30% of the cases start on a datastore holding undecodable rows; thorough additionally inserts a restart after an "
        "acknowledged write; a case is non-trivial when it reaches at least one of the branches cache-hit / "
        "miss-after-evict-or-restart / expired-in-cache / expired-on-load / sweep-deleted / load-deleted / "
        "restart-with-rows / closed-op / add-unserved / garbage / multi; distinct = distinct (branch set, length class, "
        "cache size, key-count class) signatures. "
        "Every fifth case (index % 5 == 4) is a CONCURRENT run for the Close fence: 1-5 client goroutines (AddProvider / "
        "GetProviders), pm.Close() and the real gcLoop on a gated datastore (every Put/Query/Delete/Get/Has/Batch/Commit parks "
        "until the driver releases it), driven one action at a time (start client i / start Close / release the parked call "
        "of a client or of the sweep / let the ticker fire) with a snapshot (who is parked in which call, who returned "
        "ok/ErrClosed, has Close returned) after the bubble became quiet; the first twelve concurrent cases are fixed "
        "schedules always run (client parked in Put at Close; parked in Query; client queued on mu behind another at "
        "Close; three queued; cached Get queued; Close during a sweep's Query; during a sweep's Delete; tick buffered when "
        "the context is cancelled; load deleting expired rows at Close; sweep and client both parked at Close; calls after "
        "Close), the others pick every action at random among the possible ones (setup: random additions, pauses that "
        "expire records, queries that fill the cache; validity 100 ms / 800 ms / 1 h; sweep off or every second); "
        "distinct signatures of concurrent cases = (what was parked or queued when Close was called, who won the mutex "
        "hand-off, calls during/after Close, tick while sweeping, client count)")
TRUSTED = [
    "testing/synctest virtual time (time.Now, time.Since, time.Sleep, time.Ticker) stands for the wall clock",
    "go-datastore MapDatastore + sync.MutexWrap: Put/Delete/Query semantics, the path-boundary prefix filter of NaiveQueryApply "
    "(prefix + '/'), no errors; hashicorp simplelru (Get promotes, Add evicts the oldest) is the cache passed through the public "
    "Cache option",
    "base32 datastore paths are injective on the non-empty keys and peer ids of a case (the harness maps rows back to ids and "
    "fails on an unknown path); binary.Varint decoding of the stored time",
    "pstoremem peerstore returns the queried id in PeerInfo",
    "concurrent cases: quiescence is read off the goroutine states of the bubble (runtime.Stack: every other goroutine durably "
    "blocked or in sync.Mutex.Lock), because testing/synctest does not treat a mutex wait as durable; datastore calls are "
    "attributed to a client by goroutine id, every other goroutine counts as the sweep",
]
ASSUMPTIONS = [
    "the content theorems (what is served, durability, sweep) are about sequential histories (the model Providers.v is atomic "
    "per operation); the documented race of the background sweep with a concurrent re-add of an expired record is outside it. "
    "The Close clause is ALSO proved on the interleaving model ProvidersClose.v (every schedule of any number of client calls, "
    "the sweep goroutine, the ticker and one Close call); there a datastore call is one step that returns, which datastore "
    "calls an operation makes is an input of the model, and a second concurrent Close call is not modelled",
    "provider keys are non-empty (handleAddProvider rejects empty keys, Provide rejects undefined keys): with an empty key "
    "mkProvKey degenerates to the whole providers prefix",
    "ProvideValidity >= 0; MapDatastore never fails; the GetProviders context is never cancelled",
    "handleAddProvider's decision is proved on a pure transcription (c07_add_provider_gate); its correspondence with the real "
    "handler is exercised by C09's harness (package dht), not here",
]


def classify(desc, code):
    return None


TECHNIQUE = ("Coq proof (refinement invariant by induction over operation histories, for every cache capacity) on a Gallina "
             "model of ProviderManager; Coq proof (one invariant by induction over schedules) on a small-step interleaving model "
             "of the lock discipline of AddProvider/GetProviders/gcLoop/Close; differential correspondence with the real manager "
             "under synctest virtual time, sequentially and concurrently on a gated datastore")
LEVEL_TEXT = ("Theorems in coq/Props/C07.v hold for every history of add / query / clock-advance / sweep / restart / close "
              "operations of any length over any keys and providers, every cache capacity, every validity and any "
              "undecodable rows present at start: GetProviders returns, as a duplicate-free set, exactly the providers whose "
              "most recent addition is at most the validity period old (also after eviction, sweeps and restarts), never a "
              "peer that was not added for that key; the sweep deletes exactly undecodable and expired rows; after Close "
              "every call returns ErrClosed and the datastore is not touched; handleAddProvider stores only sender = "
              "provider records with an address and a key of 1..80 bytes. The model is compared with the real "
              "ProviderManager on generated histories on every run, and the property is evaluated independently of the "
              "model on the recorded trace (query results against the specification, datastore rows against the "
              "specification, no datastore call after Close). Close fence under concurrency (section 7 of Props/C07.v, model "
              "ProvidersClose.v: client calls lock mu / read stopped / make their datastore calls / unlock, the sweep goroutine "
              "touches the datastore without mu and tests ctx.Err() between rows, Close = cancel, wait for the sweep goroutine, "
              "lock mu, set stopped, unlock, return): for EVERY schedule, any number of client calls, any datastore calls per "
              "operation and per sweep, any number of ticks: no datastore call is made at a step after the step at which Close "
              "returned, and when Close has returned no client is inside its datastore section and the sweep goroutine has "
              "exited; every call made after Close returned reports ErrClosed without entering its datastore section; the "
              "thread Close waits for is always enabled (no deadlock between Close, the sweep and the clients), every run "
              "that cannot be extended has Close returned, every schedule takes at most fuel(init) steps, and scheduling "
              "the thread Close waits for makes Close return within fuel(state) steps. The real manager is run under "
              "generated schedules on a gated datastore: the recorded snapshots must be a run of that model (mutex hand-off "
              "and select choices are read off the observation, the model only takes steps enabled in it) and must satisfy the "
              "clause by themselves (nothing parked in or arriving at the datastore once Close has returned, calls made after "
              "the return report closed, the run ends with Close and every call returned).")
LEVEL_NOTE = ("Proof is about the Gallina model; the tie to the Go code is the correspondence run (differential testing, "
              "bounded by the generator). Content clauses on the sequential model: the documented GC/re-add race is not modelled; the Close fence on the interleaving model. Trusted: Coq "
              "kernel, vm_compute, the harness, synctest virtual time, MapDatastore/simplelru semantics, base32 path "
              "injectivity.")
