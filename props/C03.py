GO_PKG = "."
GO_PKGNAME = "dht"
HARNESS = ["dht/sim_test.go", "dht/lookup_test.go", "dht/world_test.go", "dht/c03_test.go"]
GO_TEST = "TestVerifC03"
RUN_MODULE = "Run_C03"
COQ_TARGETS = ["Corr/Run_C03.vo", "Proofs/LookupConvergence.vo", "Proofs/OptProvideProofs.vo", "Proofs/FollowupProofs.vo"]
N = {"quick": 270, "thorough": 5400}
RULE = ("the nine public routing operations (GetClosestPeers, FindPeer, GetValue, SearchValue, FindProviders, FindProvidersAsync, PutValue, classic "
        "Provide, optimistic Provide with a primed network-size estimator) on random networks whose peers answer, fail the dial, fail the request, stay "
        "silent until the 10 s read timeout or answer late; optional cancellation instant and context deadline; 12% (30% for optimistic provide) of "
        "the cases make every peer fail; one call released at a time under testing/synctest, virtual time advanced only when nothing is parked; "
        "distinct = distinct (operation, cancelled, deadline, failure class, slow class, optimistic path, RPC count class)")
TRUSTED = ["testing/synctest virtual time and durable-blocking detection (a hang or a leak is the bubble's deadlock report)",
           "the fake message sender: a silent peer is a request that fails after 10 s or when its context is done",
           "the jobs pool of optimistic provide has room (default size 60)"]
ASSUMPTIONS = ["every started RPC eventually completes or times out (the put context has a one-minute timeout)"]
TECHNIQUE = "Coq proof over event lists (lookup state machine, optimistic-provide counting) + fault/cancellation exploration of the real operations under synctest"
LEVEL_TEXT = ("PARTIAL. Proved for all event lists: the lookup state machine never panics, never has more than alpha requests in flight (so no worker "
              "blocks on the update channel), always has a request in flight until it terminates, terminates within |peers| arrivals, terminates at "
              "once on cancellation without spawning; optimistic provide counts every completion exactly once, closes its channel at most once and "
              "returns after min(ceil(0.75K), n) completions, immediately when n = 0. The runtime part (goroutines, contexts, timers, channel closing "
              "of SearchValue/FindProvidersAsync) is explored on the real code: all nine operations under failing/silent/late peers and cancellation.")
LEVEL_NOTE = ("The theorems are about Gallina models of query.go and lookup_optim.go; Go scheduling, context propagation and timers are not modelled and "
              "are covered only by the synctest exploration (return, no panic, channels closed, no timer wait after cancel, clean exit after Close).")


def classify(desc, code):
    return None
