# two runs: the nine operations of the standard client (internal test package), and value lookups of the accelerated
# and the dual client through the public API over the scripted network of the C04 harness (external test package)
GO_RUNS = [
    {"pkg": ".", "pkgname": "dht", "test": "TestVerifC03", "share": 0.82,
     "harness": ["dht/sim_test.go", "dht/lookup_test.go", "dht/world_test.go", "dht/c03_test.go"]},
    {"pkg": ".", "pkgname": "dht_test", "test": "TestVerifC03F", "share": 0.18,
     "harness": ["dht/c04_test.go", "dht/c03f_test.go"]},
]
RUN_MODULE = "Run_C03"
COQ_TARGETS = ["Corr/Run_C03.vo", "Corr/Run_C03F.vo", "Proofs/LookupConvergence.vo", "Proofs/OptProvideProofs.vo", "Proofs/FollowupProofs.vo"]
N = {"quick": 330, "thorough": 6600}
RULE = ("second run (18% of the cases): SearchValue / GetValue of the accelerated (fullrt) and the dual client with quorums that stop the reader "
        "while many peers still answer; the call must return and the bubble must end with no goroutine of the operation left blocked after Close "
        "and after every timer fired (the caller's context stays alive). First run: the nine public routing operations (GetClosestPeers, FindPeer, GetValue, SearchValue, FindProviders, FindProvidersAsync, PutValue, classic "
        "Provide, optimistic Provide with a primed network-size estimator) on random networks whose peers answer, fail the dial, fail the request, stay "
        "silent until the 10 s read timeout or answer late; optional cancellation instant and context deadline; 12% (30% for optimistic provide) of "
        "the cases make every peer fail; one call released at a time under testing/synctest, virtual time advanced only when nothing is parked; "
        "distinct = distinct (operation, cancelled, deadline, failure class, slow class, optimistic path, RPC count class)")
TRUSTED = ["testing/synctest virtual time and durable-blocking detection (a hang or a leak is the bubble's deadlock report)",
           "the fake message sender: a silent peer is a request that fails after 10 s or when its context is done",
           "the jobs pool of optimistic provide has room (default size 60)"]
ASSUMPTIONS = ["every started RPC eventually completes or times out (the put context has a one-minute timeout)"]
TECHNIQUE = "Coq proof over event lists (lookup state machine, optimistic-provide counting) + fault/cancellation exploration of the real operations under synctest"
LEVEL_TEXT = ("PARTIAL. Proved for all event lists: the lookup state machine never panics, never has more than alpha requests in flight (so no worker "
              "blocks on the update channel), always has a request in flight until it terminates, terminates within |peers| arrivals, terminates at "
              "once on cancellation without spawning; optimistic provide counts every completion exactly once, closes its channel at most once and "
              "returns after min(ceil(0.75K), n) completions, immediately when n = 0. The runtime part (goroutines, contexts, timers, channel closing "
              "of SearchValue/FindProvidersAsync) is explored on the real code: all nine operations under failing/silent/late peers and cancellation.")
LEVEL_NOTE = ("The theorems are about Gallina models of query.go and lookup_optim.go; Go scheduling, context propagation and timers are not modelled and "
              "are covered only by the synctest exploration (return, no panic, channels closed, no timer wait after cancel, clean exit after Close).")


def classify(desc, code):
    return None

RULE = RULE + (" Failing peers fail with a plain error, a wrapped context.Canceled or a wrapped context.DeadlineExceeded (a third each, a function of the peer id) while the caller's context is alive: a transport error that looks like a cancellation must not leave the peer waiting.")
