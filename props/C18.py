GO_PKG = "./provider/internal/keyspace"
GO_PKGNAME = "keyspace"
HARNESS = ["keyspace/c18_test.go"]
GO_TEST = "TestVerifC18"
RUN_MODULE = "Run_C18"
COQ_TARGETS = ["Corr/Run_C18.vo", "Proofs/KeyspaceProofs.vo"]
# N bounds the number of case indices; campaign sizes derive from N/20 (see the harness)
N = {"quick": 3000, "thorough": 30000}
RULE = ""
TRUSTED = []
ASSUMPTIONS = []


def classify(desc, code):
    return None

TECHNIQUE = ""
LEVEL_TEXT = ""
LEVEL_NOTE = ""
