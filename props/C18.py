GO_PKG = "./provider/internal/keyspace"
GO_PKGNAME = "keyspace"
HARNESS = ["keyspace/c18_test.go"]
GO_TEST = "TestVerifC18"
RUN_MODULE = "Run_C18"
COQ_TARGETS = ["Corr/Run_C18.vo", "Proofs/KeyspaceBase.vo", "Proofs/KeyspaceProofs.vo", "Proofs/KeyspaceAlloc.vo",
               "Proofs/KeyspaceCovered.vo", "Proofs/KeyspaceTrie.vo", "Proofs/KeyspaceSubtract.vo",
               "Proofs/KeyspaceCoalesce.vo", "Proofs/KeyspaceNext.vo", "Proofs/KeyspaceGaps.vo", "Proofs/KeyspaceGapsOrder.vo",
               "Proofs/KeyspaceRegions.vo", "Proofs/KeyspaceAssign.vo", "Proofs/KeyspaceRemove.vo"]
# N bounds the number of case indices (replay by index); campaign sizes derive from N/20 (see the harness).
N = {"quick": 3000, "thorough": 20000}
GO_TIMEOUT = {"quick": 600, "thorough": 3000}
RULE = ("one case = one or two tries built on the real go-libdht trie by a script (Add/AddMany/Remove/PruneSubtrie) and dumped "
        "structurally, plus a batch of queries (AllKeys, FindPrefixOfKey, FindSubtrie, NextNonEmptyLeaf, PruneSubtrie, CoalesceTrie, "
        "SubtractTrie, TrieGaps, KeyspaceCovered, AllocateToKClosest, RegionsFromPeers, AssignKeysToRegions, ShortestCoveredPrefix, "
        "helpers) whose results are checked in Coq against the set-theoretic definition and against the transcription. Campaigns: "
        "prefix-free sets of bit strings of length <= 3 (thorough: all 677, every key/target/order; quick: a seed-dependent sixth), "
        "pairs of such sets (subtract) and of 3-bit full keys (allocation, r = 0..4), random histories over strings up to 8 bits, "
        "non-prefix-free / too-short-order adversarial inputs (panics must match), random 256-bit bit256 tries, long-prefix tries "
        "with 256-bit orders, random peers/multihashes for regions, assignment and covered prefixes. A case is non-trivial when a "
        "query reaches a non-default outcome (match found, several gaps, covered, several destinations, panic...); distinct = "
        "distinct (kind, size class, outcome set) signatures")
TRUSTED = [
    "the go-libdht trie source is not derived: its behaviour is transcribed in coq/Model/Trie.v and every trie the harness builds is "
    "compared structurally with the model's; sha256 (PeerIDToBit256 / MhToBit256) and kb.SortClosestPeers are run by the harness, the "
    "model receives the 256-bit identifiers and the sorted order",
    "slices.SortFunc on a strict total order returns the sorted list (insertion sort transcribed for <= 12 elements)",
]
ASSUMPTIONS = [
    "theorems are stated for well-formed tries (every leaf lies on the path spelled by its key), which is what Add/AddMany/Remove/Prune "
    "produce (proved for Add/AddMany/Prune/Coalesce/Subtract results, checked by the harness on every dumped trie)",
    "orders are at least as long as the trie is deep (bit256 orders in all callers); keys at most 256 bits where the code iterates with the 256-bit zero key",
    "k in AllocateToKClosest and regionSize are natural numbers (negative values are not modelled)",
]


# ---- classification of known findings ----------------------------------------------------
# F13: TrieGaps with a non-empty target returns prefixes above / beside the target.  A failing
# "gapsT" case is that finding iff every query's result is exactly what the CURRENT algorithm
# (ported below from trie.go:382-432) returns; any other deviation is a new violation.
def _siblings(k):
    return [k[:i] + ('1' if k[i] == '0' else '0') for i in range(len(k))]


def _sort_by_order(keys, order):
    import functools

    def cmp(a, b):
        m = min(len(a), len(b), len(order))
        for i in range(m):
            if a[i] != b[i]:
                return -1 if a[i] == order[i] else 1
        if len(a) == len(b) or m == len(order):
            return 0
        return 1 if len(a) < len(b) else -1
    return sorted(keys, key=functools.cmp_to_key(cmp))


def _is_leaf(t):
    return t is None or isinstance(t, dict)


def _gaps_at(t, depth, target, order):
    gaps = []
    inside = depth >= len(target)
    b = int(order[depth])
    for i in (b, 1 - b):
        if not inside and i != int(target[depth]):
            continue
        br = t[i]
        if _is_leaf(br):
            if br is not None:
                k = br["k"]
                if len(k) > depth + 1:
                    for sp in _sort_by_order(_siblings(k)[depth + 1:], order):
                        gaps.append(sp[depth:])
            else:
                gaps.append(str(i))
        else:
            gaps += [str(i) + g for g in _gaps_at(br, depth + 1, target, order)]
    return gaps


def _trie_gaps_current(t, target, order):
    if _is_leaf(t):
        if t is not None:
            k = t["k"]
            if k.startswith(target):
                return _sort_by_order(_siblings(k)[len(target):], order)
            if target.startswith(k):
                return []
        return [target]
    return _gaps_at(t, 0, target, order)


def classify(desc, code):
    try:
        if code == 2 and desc.get("kind") == "gapsT":
            for q in desc.get("qs") or []:
                if q.get("q") != "gaps" or q.get("target", "") == "":
                    return None
                if not isinstance(q.get("out"), list):
                    return None
                if _trie_gaps_current(desc.get("s0"), q["target"], q["order"]) != q["out"]:
                    return None
            return "triegaps-nonempty-target"
    except Exception:
        return None
    return None


TECHNIQUE = ("Coq proof by induction on the trie structure of a Gallina transcription of the keyspace functions against set-theoretic "
             "definitions over the key set, differential correspondence (model and definitions evaluated in Coq on results of the real code)")
LEVEL_TEXT = ("Theorems in coq/Props/C18.v hold for ALL well-formed tries, keys, targets, orders and r (induction on the trie, no bound): "
              "AllocateToKClosest gives every item exactly min(r,|dests|) distinct destinations, the XOR-nearest, once each; FindPrefixOfKey, "
              "FindSubtrie, PruneSubtrie, SubtractTrie, CoalesceTrie, NextNonEmptyLeaf (cyclic successor), AllEntries (sorted), KeyspaceCovered "
              "(true iff the keys tile the keyspace), RegionsFromPeers (partition, tiling, >= r peers, order, minimality), AssignKeysToRegions "
              "(every key in the regions of exactly one prefix) and ShortestCoveredPrefix (soundness w.r.t. a swarm) agree with their "
              "set-theoretic definitions; TrieGaps is exact for the empty target and, for any target, exact for the effective target (an "
              "ancestor of the target), with machine-checked counterexamples for the target itself (F13) and for short targets of "
              "ShortestCoveredPrefix (F12). AddMany/Add keep tries well formed. Every run compares the real functions with the model and with "
              "the definitions, exhaustively over prefix-free sets of strings of length <= 3 in the thorough tier.")
LEVEL_NOTE = ("Proofs are about the Gallina transcription; the tie to the Go code is the correspondence run (differential, bounded by the generator). "
              "Not proved (checked by correspondence only): absence of panic of "
              "KeyspaceCovered on non-tiling tries; Remove/shrink; the helpers (SiblingPrefixes, ExtendBinaryPrefix, FirstFullKeyWithPrefix, "
              "KeyToBytes, FlipLastBit) are their own definitions. Known finding: TrieGaps with a non-empty target (F13).")
