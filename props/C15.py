GO_PKG = "./dual"
GO_PKGNAME = "dual"
HARNESS = ["dual/c15_test.go"]
# inbound messages are delivered through the unexported handler table of IpfsDHT: a verif-tagged shim injected into package dht
EXTRA_OVERLAY = {"zz_verif_c15_shim.go": "dht/c15_shim.go"}
GO_TEST = "TestVerifC15"
RUN_MODULE = "Run_C15"
COQ_TARGETS = ["Corr/Run_C15.vo", "Proofs/DualProofs.vo", "Proofs/AddrClassProofs.vo"]
N = {"quick": 520, "thorough": 10000}
GO_TIMEOUT = {"quick": 600, "thorough": 2400}
RULE = ("real dual DHTs (dual.New on a fake host, scripted message senders for the two inner IpfsDHTs). Case kinds: addr - the exported "
        "filters and the two AddressFilter closures on address lists; a deterministic sweep first walks every boundary +-1 of go-multiaddr's "
        "Private4/Unroutable4/Private6/Unroutable6 tables, 2000::/3, the NAT64 prefixes, ::ffff:0:0/96 and ::1, plus every IPv4 boundary as a "
        "v4-mapped /ip6 address; random lists mix these with random v4/v6, dns names of every special-use class, relay, /ip6zone and non-IP forms; "
        "lookup - a WAN or LAN lookup whose seed refers 1-5 peers with mixed address sets (target / not target, addresses already known); "
        "write - Provide/PutValue over all 2x2 table-emptiness combinations; get / findpeer - all 2x2 emptiness x has/has-not combinations with "
        "per-DHT results measured on twin instances; prov - FindProvidersAsync with count in {0,1,2,3,20,-1,random}, WAN-first / LAN-first / "
        "unforced arrival; combine - all 36 pairs of nil / sentinel / fresh errors; inbound - the three provider-record sites of the WAN and of the "
        "LAN inner DHT: an inbound ADD_PROVIDER (wire-encoded, through the DHT's handler table; 1-3 entries of the sender / other peers / this "
        "node, with and without addresses, bad keys, addresses already known) -> peerstore and provider store afterwards; a served GET_PROVIDERS "
        "whose providers (this node included) have mixed peerstore addresses, some put there by the other inner DHT -> addresses attached per "
        "record; an inner FindProvidersAsync (count 0-3) against 1-2 scripted responders naming providers (this node and connected peers "
        "included) -> peerstore afterwards; address sets all-private, all-loopback, both, mixed, all-public, relay, dns, empty, random; a "
        "deterministic part runs every class x both DHTs x the three sites on every run (so the sets a filter empties are always there). distinct = distinct signatures (kind, classes reached, outcomes)")
TRUSTED = [
    "go-multiaddr v0.16.1 net/private.go CIDR tables and special-use domain lists, net.IP.To4 / IPNet.Contains / IsLoopback: hand-copied into "
    "Model/AddrClass.v, compared with the real functions at every CIDR boundary +-1 on every run (modelled, not verified)",
    "inner IpfsDHT operations (lookup, Provide, PutValue, GetValue, FindPeer, FindProvidersAsync) are inputs of the dual model; their own "
    "correctness belongs to C01-C08. Assumed: a write on an empty routing table contacts nobody and fails with kb.ErrLookupFailure",
    "the fake host (Connect always succeeds, nobody is 'connected' except the peers an inbound find_providers case marks, in-memory "
    "peerstore shared by the two inner DHTs) and the scripted senders; inbound messages are built with pb.RawPeerInfosToPBPeers, marshalled, "
    "unmarshalled and given to dht.handlerForMsgType(type) as handleNewMessage does (shim harness/dht/c15_shim.go)",
    "provider records are small: boundPeerRecordAddrs / the MessageSizeMax cap of a GET_PROVIDERS response never cut anything in the "
    "correspondence run (the theorems hold for every cut-off); the provider store (records.ProviderManager on an in-memory datastore) does not fail",
    "Go map iteration order is treated as a set (FindPeer address list)",
]
ASSUMPTIONS = [
    "'public' is the code's own two notions: dht_filters.go isPublicAddr (IPv4 outside Private4/Unroutable4, IPv6 inside 2000::/3, no DNS) for "
    "peers, manet.IsPublicAddr (also DNS names, NAT64, documentation prefix excluded) for addresses; relay addresses with a public relay IP count "
    "as public addresses for the WAN address filter",
    "PrivateRoutingTableFilter is compared only where it does not consult the OS routing table",
    "arrival order inside one inner provider stream is not observable (the inner DHT shuffles); the two streams' relative order is forced",
]


def classify(desc, code):
    return None


TECHNIQUE = ("Coq proof on Gallina models of dual.go's decision functions (induction over all arrival sequences of the two provider streams) and "
             "of the address classes / filters; differential correspondence with real dual DHTs on scripted senders")
LEVEL_TEXT = ("Theorems in coq/Props/C15.v hold for all inputs: writes go to the WAN DHT exactly when its table is non-empty; GetValue returns the "
              "WAN result when WAN succeeds, else the LAN result, else the combined error (never nil); FindPeer returns the union of both address "
              "sets without duplicates; the provider merge yields each provider once, at most count, only received ones, and loses none below the "
              "cap, for every interleaving of the two streams; a peer enters a WAN lookup only as the target or with a public non-relay address; "
              "everything the WAN DHT stores from DHT messages or advertises is public and the LAN DHT never stores or advertises loopback - for lookup "
              "responses, for own addresses, and (for all messages) at the three provider-record sites: what an inbound ADD_PROVIDER writes to the "
              "peerstore, what a GET_PROVIDERS response attaches to a provider record, what a provider search stores of the providers a response "
              "names are addresses of that very peer in that message which pass the DHT's address filter, and every such address of an accepted / "
              "attached / processed record is kept (an announcement the filter empties is recorded without any address); public and "
              "private classes are disjoint and loopback is never public.")
LEVEL_NOTE = ("Proof is about the Gallina model; the CIDR tables and domain lists are a dependency's data (modelled, compared at every boundary, not "
              "proved equal); inner DHT operations are inputs. Trusted: Coq kernel, vm_compute, harness fakes.")
