# two runs: the whole operations on the standard client (package dht, internal test), and the corrective puts after
# a value search on the standard and the accelerated (fullrt) client, driven through the public API from the
# external test package with the scripted network of the C04 harness
GO_RUNS = [
    {"pkg": ".", "pkgname": "dht", "test": "TestVerifC06", "share": 0.75,
     "harness": ["dht/sim_test.go", "dht/lookup_test.go", "dht/world_test.go", "dht/c06_test.go"]},
    {"pkg": ".", "pkgname": "dht_test", "test": "TestVerifC06F", "share": 0.25,
     "harness": ["dht/c04_test.go", "dht/c06f_test.go"]},
]
RUN_MODULE = "Run_C06"
COQ_TARGETS = ["Corr/Run_C06.vo", "Corr/Run_C06F.vo", "Proofs/PutFlowProofs.vo", "Proofs/LookupProofs.vo", "Proofs/ValueSearchProofs.vo"]
N = {"quick": 320, "thorough": 6400}
RULE = ("PutValue, classic Provide, optimistic Provide (primed network-size estimator) and SearchValue (corrective puts) on random networks with failing "
        "and lying peers, four address filters (identity, public only, private only, nothing passes) over a public+private+loopback address set, "
        "K in {1,2,3,5,20}; the lookup inside each operation is driven one response at a time; every PUT_VALUE/ADD_PROVIDER the fake network "
        "sees is recorded with recipient and a content check, also those sent in the background after the call returned; distinct = distinct "
        "(operation, filter, number of sends class, error, K, size class). Second run (a quarter of the cases): SearchValue / GetValue on the "
        "standard and the accelerated (fullrt) client over the scripted network of the C04 harness (2-12 responders: newer / older / tied / stale / "
        "invalid / mis-keyed / no record / failing, local record, quorum), 20 fixed scenarios first; every PUT_VALUE handed to the network is "
        "recorded with recipient, value, key and whether its context was still live (a request on a finished context is not delivered)")
TRUSTED = ["value-search run: the standard client's lookup result is not observable through the public API: the recipients are checked between the peers that answered without error and the whole table (a request failing after the lookup terminated leaves its peer in the result); exact for the accelerated client", "sha256 ids, kbucket NearestPeers", "the scripted network echoing PUT_VALUE and accepting ADD_PROVIDER", "the stop function of optimistic provide (gamma-function thresholds) is not modelled: for it only the property itself is evaluated on the trace"]
ASSUMPTIONS = ["the closest-peers lookup of the operation succeeds (property hypothesis); no cancellation in these runs"]
TECHNIQUE = "Coq proof (decision functions of PutValue/Provide/corrective puts composed with the lookup theorems) + differential correspondence of the whole operations under synctest"
LEVEL_TEXT = ("Theorems in coq/Props/C06.v: PutValue sends nothing before the local write and then exactly the lookup's peers, once each, never self; refuses "
              "a worse value; classic Provide sends one ADD_PROVIDER to every returned peer (also after an inner-deadline expiry) or nothing when the filtered "
              "address list is empty; the deadline budget arithmetic; optimistic Provide schedules every result peer and none twice; corrective puts go "
              "exactly to the returned peers that did not return the best value. Each run drives the four real operations and checks recipients, "
              "content, local-first and the address filter on the implementation's trace and against the model.")
LEVEL_NOTE = ("Proofs are about Gallina decision functions plus the lookup model; the tie to Go is the correspondence run (differential, bounded by the generator). "
              "fullrt's bulk variants are covered by C16; its corrective puts by the value-search run. Trusted: Coq kernel, vm_compute, harness, scripted network.")


def classify(desc, code):
    return None
