RUN_MODULE = "Run_C08"
COQ_TARGETS = ["Corr/Run_C08.vo", "Proofs/ProvSearchProofs.vo", "Proofs/ProvSearchFrtProofs.vo"]
# Two runs, one case type (Run_C08.case = CStd | CFrt):
#  - package dual: the standard client and the dual client (a test of the root package cannot import dual); the
#    unexported knobs of IpfsDHT it needs (shuffle, provider store, DisableFixLowPeers) are exported by a verif-tagged
#    shim injected into package dht
#  - package fullrt: the accelerated client, which has its own copy of the accumulation logic; the provider manager's
#    shuffle is fixed through a verif-tagged shim injected into package records
GO_RUNS = [
    {"pkg": "./dual", "pkgname": "dual", "harness": ["dual/c08_test.go"], "test": "TestVerifC08", "share": 0.5,
     "extra_overlay": {"zz_verif_c08_shim.go": "dht/c08_shim.go"}},
    {"pkg": "./fullrt", "pkgname": "fullrt", "harness": ["fullrt/c08_test.go"], "test": "TestVerifC08FullRT", "share": 0.5,
     "extra_overlay": {"records/zz_verif_c08_shim.go": "records/c08_shim.go"}},
]
N = {"quick": 2000, "thorough": 48000}
RULE = ("run 1 (package dual, standard and dual client): random provider distributions: 0-15 responders (each with 0-6 provider "
        "entries out of a pool of up to 23 peers, with "
        "and without addresses, sometimes the same peer twice in one answer, 0-3 closer peers, 8% failing) and 0-5 local "
        "providers per node, 3% provider-store failures; count in {0,1,2,3,5,K,random,-1}; K in {1,2,3,5,20}, alpha and beta in "
        "1-3; injected shuffle identity / reverse / rotate; 35% of the cases run the dual client over two nodes; the real "
        "FindProvidersAsync is driven one released call at a time in a random order; 20% of the cases have a consumer that "
        "cancels after 0-5 providers, 20% a cancellation between two events; non-trivial = yields something or reaches one of "
        "upgrade / cap-reached / local-suffices / rejected-some / find-all / negative / consumer-cancelled / cancel-between / "
        "store-error; distinct = distinct (kind, branch set, count, shuffle, number of yields) signatures. "
        "run 2 (package fullrt, accelerated client): same shapes: 0-15 responders in the routing table (bucket size K in "
        "{1,2,3,5,20}: the min(K, table size) closest are asked, all at once), answers of 0-7 entries, 35% of the non-empty answers "
        "get a provider that is already known (local, or named by an earlier responder) in front of / among the new ones, same peer "
        "twice in an answer, 8% failing responders, 0-5 local providers in the real provider manager (3% manager closed, 2% providers "
        "disabled, 1% undefined key, 3% failing datastore read), count in {0,1,2,3,5,20,K,-1}, success wait fraction in "
        "{1/4,2/4,3/4,1}, shuffle of FullRT and of the provider manager identity / reverse / rotate; the parked GET_PROVIDERS "
        "requests are let return one at a time in a random order, with 500 ms ticks in between (0/15/40%), 20% of the cases "
        "cancel the context at a generated step, 20% have a consumer that leaves after 0-5 providers, and once count providers "
        "were received a pending reply may still be delivered on the cancelled context (0/50/100%); signatures add "
        "new-after-known / unprocessed / ticks / late-reply / the store variant")
TRUSTED = [
    "the fake host / gated message sender / gated scripted provider store (harness/dual/c08_test.go) and testing/synctest: "
    "one answer is processed completely before the next is released",
    "the lookup (which peers are asked, in which order) is not modelled here: the processed answers are an input of the model (C01/C02 cover the lookup)",
    "protobuf encoding of provider peers and multiaddr decoding (an entry 'has addresses' iff one valid multiaddr was sent)",
    "accelerated client: the fake host / blocking crawler / gated message sender / gated sorted datastore under the real "
    "provider manager (harness/fullrt/c08_test.go), the routing table installed by the harness the way runCrawler installs it, "
    "the two verif-tagged shims (harness/dht/c08_shim.go, harness/records/c08_shim.go: setters only); which peers "
    "GetClosestPeers returns is C16's subject (only their number, min(K, table size), is checked here)",
]
ASSUMPTIONS = [
    "answer granularity: two responses are never processed concurrently by the driver; psTryAdd is atomic under psLock so set "
    "membership and the cap do not depend on this, but the order of two racing channel sends (with-address before "
    "without-address) is outside the model",
    "the shuffle is a permutation (the theorems quantify over every permutation; the harness injects three)",
    "the local provider store returns each peer once (routing.go notes the same assumption)",
    "accelerated client: execOnMany's per-operation timeout does not expire (the harness sets one hour); the success wait "
    "fraction is a multiple of 1/4 (exact in float64); a send of an answer's loop is not interrupted by a cancellation that "
    "another goroutine triggers while the answer is being processed (the model processes one answer at a time; a reply "
    "delivered after the cancellation is modelled, with every outcome of its race against ctx.Done())",
]


def classify(desc, code):
    # no known findings: the defect found by the slow-consumer cases of the fullrt run (an answer in progress lost its
    # remaining providers when execOnMany cancelled its per-peer context) is repaired in /repo (see known_findings.json)
    return None


def extra_coverage(outdir, impl):
    import glob, json, os
    per = {}
    for d in sorted(glob.glob(os.path.join(outdir, "run_*"))):
        try:
            im = json.load(open(os.path.join(d, "impl.json")))
            name = "fullrt" if "kind:fullrt" in (im.get("distribution") or {}) else "dual (standard + dual client)"
            per[name] = {"cases": im.get("cases", 0), "distinct_nontrivial": im.get("distinct_nontrivial", 0)}
        except Exception:
            pass
    return {"per_package": per}


TECHNIQUE = ("Coq proof (invariant between the provider map and the sent sequence, by induction over the processed answers; for the "
             "accelerated client by induction over the events of execOnMany: returning requests, ticks, cancellation, late replies) on "
             "Gallina models of the accumulation / stop / merge logic, differential correspondence with the real "
             "FindProvidersAsync of IpfsDHT, dual.DHT and fullrt.FullRT on simulated networks")
LEVEL_TEXT = ("Theorems in coq/Props/C08.v hold for every count (any Go int), every list of local providers, every sequence of "
              "processed answers of any length and content, every shuffle permutation and every prefix (cancellation instant): "
              "only local or reported providers are yielded; at most count distinct peers when count>0 (none when negative); a "
              "peer is yielded twice only as without-addresses then with-addresses; once count are held the stop function "
              "holds and later answers change nothing; with count 0 every reported provider is yielded; the channel close is "
              "the last event on every path; the dual merge never repeats a peer, forwards only delivered providers and at most "
              "count. Accelerated client (Model/ProvSearchFrt.v: local phase, the n parallel requests of execOnMany returning in ANY "
              "order mixed with ticks, a cancellation and replies that still get through after it, the success/ticker heuristics "
              "that decide which answers are still processed, a consumer that leaves): only local providers or providers of an "
              "answer that reached the search; no peer is ever repeated (there is no address upgrade); at most count; with count 0 "
              "every local provider and every provider of an answer processed on a live context is yielded; once count were "
              "received nothing returning later is processed and nothing more is yielded, late replies included; after a "
              "cancellation nothing is processed; the channel is closed exactly once, last. The models are compared on every run "
              "with the real IpfsDHT / dual.DHT / FullRT FindProvidersAsync driven on fake hosts with gated responses, and the "
              "property is evaluated independently of the model on every recorded trace.")
LEVEL_NOTE = ("Proof is about the Gallina models; the tie to the Go code is the correspondence run (differential testing, bounded "
              "by the generator, answers processed one at a time). "
              "Trusted: Coq kernel, vm_compute, the simulated host/sender/store, synctest.")
