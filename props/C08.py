GO_PKG = "./dual"
GO_PKGNAME = "dual"
HARNESS = ["dual/c08_test.go"]
# the harness is in package dual (a test of the root package cannot import dual); the unexported knobs of IpfsDHT it
# needs (shuffle, provider store, DisableFixLowPeers) are exported by a verif-tagged shim injected into package dht
EXTRA_OVERLAY = {"zz_verif_c08_shim.go": "dht/c08_shim.go"}
GO_TEST = "TestVerifC08"
RUN_MODULE = "Run_C08"
COQ_TARGETS = ["Corr/Run_C08.vo", "Proofs/ProvSearchProofs.vo"]
N = {"quick": 1000, "thorough": 24000}
RULE = ("random provider distributions: 0-15 responders (each with 0-6 provider entries out of a pool of up to 23 peers, with "
        "and without addresses, sometimes the same peer twice in one answer, 0-3 closer peers, 8% failing) and 0-5 local "
        "providers per node, 3% provider-store failures; count in {0,1,2,3,5,K,random,-1}; K in {1,2,3,5,20}, alpha and beta in "
        "1-3; injected shuffle identity / reverse / rotate; 35% of the cases run the dual client over two nodes; the real "
        "FindProvidersAsync is driven one released call at a time in a random order; 20% of the cases have a consumer that "
        "cancels after 0-5 providers, 20% a cancellation between two events; non-trivial = yields something or reaches one of "
        "upgrade / cap-reached / local-suffices / rejected-some / find-all / negative / consumer-cancelled / cancel-between / "
        "store-error; distinct = distinct (kind, branch set, count, shuffle, number of yields) signatures")
TRUSTED = [
    "the fake host / gated message sender / gated scripted provider store (harness/dual/c08_test.go) and testing/synctest: "
    "one answer is processed completely before the next is released",
    "the lookup (which peers are asked, in which order) is not modelled here: the processed answers are an input of the model (C01/C02 cover the lookup)",
    "protobuf encoding of provider peers and multiaddr decoding (an entry 'has addresses' iff one valid multiaddr was sent)",
]
ASSUMPTIONS = [
    "answer granularity: two responses are never processed concurrently by the driver; psTryAdd is atomic under psLock so set "
    "membership and the cap do not depend on this, but the order of two racing channel sends (with-address before "
    "without-address) is outside the model",
    "the shuffle is a permutation (the theorems quantify over every permutation; the harness injects three)",
    "the accelerated client (fullrt) is modelled and proved (c08_fullrt) but its correspondence is not driven here (C16's harness owns the FullRT environment)",
    "the local provider store returns each peer once (routing.go notes the same assumption)",
]


def classify(desc, code):
    return None


TECHNIQUE = ("Coq proof (invariant between the provider map and the sent sequence, by induction over the processed answers) on a "
             "Gallina model of the accumulation / stop / merge logic, differential correspondence with the real "
             "FindProvidersAsync of IpfsDHT and dual.DHT on a simulated network")
LEVEL_TEXT = ("Theorems in coq/Props/C08.v hold for every count (any Go int), every list of local providers, every sequence of "
              "processed answers of any length and content, every shuffle permutation and every prefix (cancellation instant): "
              "only local or reported providers are yielded; at most count distinct peers when count>0 (none when negative); a "
              "peer is yielded twice only as without-addresses then with-addresses; once count are held the stop function "
              "holds and later answers change nothing; with count 0 every reported provider is yielded; the channel close is "
              "the last event on every path; the dual merge never repeats a peer, forwards only delivered providers and at most "
              "count; the FullRT variant never repeats a peer. The model is compared on every run with the real "
              "IpfsDHT.FindProvidersAsync and dual.DHT.FindProvidersAsync driven on a fake host with gated responses, and the "
              "property is evaluated independently of the model on every recorded trace.")
LEVEL_NOTE = ("Proof is about the Gallina model; the tie to the Go code is the correspondence run (differential testing, bounded "
              "by the generator, answers processed one at a time). FullRT's routine is modelled and proved but not driven. "
              "Trusted: Coq kernel, vm_compute, the simulated host/sender/store, synctest.")
