RUN_MODULE = "Run_C14"
COQ_TARGETS = ["Corr/Run_C14.vo", "Proofs/LifecycleProofs.vo"]

_LIB = {"internal/zzc14/lib.go": "c14lib/lib.go", "internal/zzc14/host.go": "c14lib/host.go",
        "internal/zzc14/sender.go": "c14lib/sender.go"}

# one run per Go package; every run emits cases of Run_C14.v and injects the shared
# simulation library (harness/c14lib) as the package internal/zzc14
GO_RUNS = [
    {"pkg": ".", "pkgname": "dht", "test": "TestVerifC14Dht", "share": 0.17, "extra_overlay": _LIB,
     "harness": ["dht/sim_test.go", "dht/lookup_test.go", "dht/world_test.go", "dht/c14_test.go"]},
    {"pkg": "./records", "pkgname": "records", "test": "TestVerifC14Records", "share": 0.12, "extra_overlay": _LIB,
     "harness": ["records/c14_test.go"]},
    {"pkg": "./rtrefresh", "pkgname": "rtrefresh", "test": "TestVerifC14RtRefresh", "share": 0.15, "extra_overlay": _LIB,
     "harness": ["rtrefresh/c14_test.go"]},
    {"pkg": "./provider/keystore", "pkgname": "keystore", "test": "TestVerifC14Keystore", "share": 0.16, "extra_overlay": _LIB,
     "harness": ["keystore/c14_test.go"]},
    {"pkg": "./provider", "pkgname": "provider", "test": "TestVerifC14Provider", "share": 0.12, "extra_overlay": _LIB,
     "harness": ["provider/c14_test.go"]},
    {"pkg": "./dual", "pkgname": "dual", "test": "TestVerifC14Dual", "share": 0.08, "extra_overlay": _LIB,
     "harness": ["dual/c14_test.go"]},
    {"pkg": "./fullrt", "pkgname": "fullrt", "test": "TestVerifC14FullRT", "share": 0.08, "extra_overlay": _LIB,
     "harness": ["fullrt/c14_test.go"]},
    {"pkg": "./provider/buffered", "pkgname": "buffered", "test": "TestVerifC14Buffered", "share": 0.06, "extra_overlay": _LIB,
     "harness": ["buffered/c14_test.go"]},
    {"pkg": "./provider/dual", "pkgname": "dual", "test": "TestVerifC14ProviderDual", "share": 0.06, "extra_overlay": _LIB,
     "harness": ["providerdual/c14_test.go"]},
]

N = {"quick": 330, "thorough": 3000}
GO_TIMEOUT = {"quick": 600, "thorough": 1500}

RULE = ("per component (standard DHT, dual DHT, accelerated client, provider manager, value store, refresh manager, sweeping provider, "
        "buffered and dual provider wrappers, keystore, resettable keystore): generated option combinations (modes, subsystems disabled, "
        "auto refresh, GC intervals, owned/external keystore and datastore, worker pools, schedule on/off), 0-6 public operations started at "
        "generated steps (lookups and puts parked at the gates of a scripted network, GC sweeps parked in the datastore, refresh rounds, "
        "provide/reprovide work on a fake router and message sender, puts/deletes/resets on the keystores), Close injected at a generated "
        "step between two released calls (or after all operations), a second Close after the first returned or concurrently with it, calls "
        "on the closed instance, final drain; one case in 3-12 forces a constructor failure point (failing option, Amino prefix with a wrong "
        "bucket size, invalid mode, failing event-bus subscription, failing provider-manager option, failing datastore read/write/factory, "
        "second DHT / second provider failing, no BootstrapPeers option); one provider case in 6 stages a timer-driven reprovide that cannot get a "
        "worker before Close (every worker dedicated to burst jobs and the schedule timer fired; or one worker, the first scheduled reprovide "
        "parked in a slow lookup and the next one queued in Acquire). Observed: Close returned, second Close returned, no panic, "
        "operations returned, goroutines of repository code alive at the first quiescent point after each Close return (mapped through the "
        "regenerated inventory to the model's classes), nothing left when the synctest bubble ends, event-bus subscriptions closed. "
        "distinct = distinct (component, options, constructor point, instant class of Close, second-Close mode, result multiset)")
TRUSTED = [
    "testing/synctest: virtual time, durable-blocking detection, the 'blocked goroutines remain' report at the end of a bubble "
    "(a goroutine still waiting for a ticker when the case ends is reported too: time stops when the bubble's main goroutine returns)",
    "harness/c14lib: gates (every datastore / router / message-sender / host call parks until released), the in-memory datastore, the fake host "
    "and event bus, the real-time polling used where a component waits on a sync.Mutex (not a durable block for synctest), runtime.Stack parsing "
    "to list the goroutines of the current bubble with their creation site",
    "go2coq/goroutines.go prints the `go` / WaitGroup.Go sites the AST contains (60 sites in 12 package directories), the registration guard and "
    "the Done-on-every-path analysis (syntactic: defer X.Done() before any return, final unconditional X.Done(), callees of the same directory; "
    "panics are not paths; anything else aborts the generator)",
]
ASSUMPTIONS = [
    "goroutine, channel, context, timer and sync semantics are Go's (not modelled): the theorems are about the protocol each component uses",
    "the lookups of the provider's prefix-length estimation succeed in the harness (their 1 s retry sleep cannot elapse inside a synctest bubble "
    "while Close waits for the estimation on a sync.Mutex); that retry path is covered by the model class 'ends by itself' only",
    "the dual provider is explored with both providers offline (empty routing tables); the online paths are explored on the single provider",
    "handlers of inbound streams are owned by the libp2p host and are not part of the instances (documented by Close of the DHT)",
]
TECHNIQUE = ("Coq proof over event lists of a parameterised Close protocol machine (closing flag, sync.Once / select guard, registration guard, "
             "WaitGroup / channel wait), constructor scripts, regenerated goroutine inventory tied to the model by a table; exploration of the "
             "real components under testing/synctest with Close injected between released calls")
LEVEL_TEXT = ("PARTIAL. Proved for all interleavings: Close returns only when nothing registered is alive and nothing is registered afterwards "
              "(every component except the value store, whose StartGC is not ordered with Close); further and concurrent "
              "Close calls return without panic once the first has; the lock+flag guard of the provider and of the refresh manager admits no "
              "registration after the flag; every constructor error point of all eleven constructors stops what was "
              "started; every start site of the regenerated inventory is mapped to a class that Close awaits, that its caller joins, or that ends "
              "by itself, and every goroutine registered by an explicit WaitGroup.Add reaches the Done calls it owes on every path of its body "
              "(computed by go2coq; the theorem that Close returns has this as its hypothesis, and a goroutine that loses its Done makes every "
              "later Close hang). The check found five defects, all repaired in /repo and now stated positively (keystore Close under a concurrent second "
              "call, the refresh manager's unguarded WaitGroup registration, provider/dual.New and fullrt.NewFullRT error / panic paths, the reset "
              "handshake that wedged the resettable keystore); the two abandoned protocols are kept as theorems about why they were insufficient.")
LEVEL_NOTE = ("The theorems are about Gallina models of the Close protocols; that the Go code follows them is checked by exploration only "
              "(generated instants of Close, bounded by the generator). Trusted: Coq kernel, vm_compute, synctest, the harness library.")


def classify(desc, code):
    # the five defects this check found are fixed in /repo (known_findings.json: fixed:): no known-finding keys
    return None


def extra_coverage(outdir, impl):
    import glob, json, os
    per = {}
    for d in sorted(glob.glob(os.path.join(outdir, "run_*"))):
        try:
            im = json.load(open(os.path.join(d, "impl.json")))
            first = open(os.path.join(d, "cases.jsonl")).readline()
            pkg = json.loads(first).get("pkg", d) if first else d
            per[pkg] = {"cases": im.get("cases", 0), "distinct_nontrivial": im.get("distinct_nontrivial", 0)}
        except Exception:
            pass
    return {"per_package": per}

RULE = RULE + (" Buffered run: in a quarter of the cases one wrapped-provider call (the n-th) does not return on its own but only when the wrapped provider's own Close is called (a real SweepingProvider call that is ended by its shutdown), so Close of the buffered provider must close the wrapped provider before waiting for its worker.")
