GO_PKG = "."
GO_PKGNAME = "dht"
HARNESS = ["dht/sim_test.go", "dht/lookup_test.go", "dht/world_test.go", "dht/c12_test.go"]
GO_TEST = "TestVerifC12"
RUN_MODULE = "Run_C12"
COQ_TARGETS = ["Corr/Run_C12.vo", "Proofs/RtAdmissionProofs.vo"]
N = {"quick": 120, "thorough": 3000}
RULE = ("histories of 5-30 actions over 3-10 peers on a real IpfsDHT: identification completed for a peer speaking the protocol (admission probe), "
        "protocol removed, behaviour flips (a peer starts/stops failing requests), lookups (30% cancelled half way), routing-table refresh after the "
        "grace period (liveness pings, self lookup, bucket refreshes); every call of the node into the network is classified by the function on "
        "its goroutine stack (search query / follow-up / admission probe / refresh ping) and becomes one model event when released; the routing "
        "table is read at the quiescent point after each action; distinct = distinct (action kinds, peers class, events class)")
TRUSTED = ["go-libp2p-kbucket admission (modelled as an oracle; the harness uses K=20 with at most 10 peers so nothing is rejected)",
           "classification of calls by goroutine stack", "libp2p event bus and peerstore protocol book", "testing/synctest"]
ASSUMPTIONS = ["the host never reports the local peer as a remote peer"]
TECHNIQUE = "Coq proof by induction over event histories (admission/eviction with an arbitrary bucket oracle; refresh-manager request machine) + differential correspondence of the real node's routing table"
LEVEL_TEXT = ("Theorems in coq/Props/C12.v for every event history and every bucket admission policy: a member answered a lookup query or its admission probe "
              "(after being reported valid) earlier; self is never a member; a non-cancelled failure, a failed refresh probe or a protocol removal evicts "
              "until the peer answers again; cancellation-caused failures evict nobody; every refresh request is answered exactly once under every "
              "interleaving with Close. Each run replays generated histories on the real node and compares the routing table after every action.")
LEVEL_NOTE = ("Proof about the Gallina model of dht.go/query.go/subscriber_notifee.go/rtrefresh; tie to Go by the correspondence run (differential). kbucket "
              "internals and identify are external (modelled as oracle / driven through the event bus).")


def classify(desc, code):
    return None

RULE = RULE + (' 40% of the protocol-loss reports concern a peer that is also no longer connected (and fails when dialled) at the moment the event is handled.')
