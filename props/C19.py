GO_PKG = "./provider/internal/queue"
GO_PKGNAME = "queue"
HARNESS = ["queue/c19_test.go"]
GO_TEST = "TestVerifC19"
RUN_MODULE = "Run_C19"
COQ_TARGETS = ["Corr/Run_C19.vo", "Proofs/ProvideQueueProofs.vo"]
N = {"quick": 400, "thorough": 12000}
RULE = ("random histories of enqueue/dequeue/dequeue-matching/remove/clear/persist+drain on ProvideQueue and "
        "push/pop/remove/clear on ReprovideQueue over overlapping 0-5 bit prefixes, ending with a restart and a full "
        "drain; a case is non-trivial when it reaches at least one of the branches absorb / covered / deqm-keep-shorter "
        "/ deqm-remove / remove-last-key / restart-nonempty / r-absorb / r-remove; distinct = distinct "
        "(branch set, length class, prefix length) signatures")
TRUSTED = [
    "go-libdht trie on a set of pairwise non-comparable keys behaves as that set (FindSubtrie = members under the prefix, "
    "FindPrefixOfKey = the member that is a prefix); gammazero/deque Index/Insert/Remove semantics",
    "go-datastore: ds.NewKey path cleaning drops a trailing '/', Query with OrderByKey is lexicographic, MapDatastore batches apply all operations",
    "sha256 (MhToBit256) is modelled by the harness supplying the leading 12 bits of each key",
]
ASSUMPTIONS = ["keys passed to Enqueue match the prefix (API precondition, stated as a hypothesis of the theorems)",
               "prefixes used by the harness are at most 5 bits, keys are compared on their leading 12 bits"]


def classify(desc, code):
    return None

TECHNIQUE = "Coq proof (invariant by induction over operation histories + persist/drain round-trip) on a Gallina model, differential correspondence with the real queues"
LEVEL_TEXT = ("Theorems in coq/Props/C19.v hold for every history of queue operations of any length: the two structures of the prefix queue "
              "never drift apart, queued prefixes never overlap, no key is lost or duplicated, dequeue returns the oldest prefix with all and only "
              "its keys, absorption happens at the first superstring's position, persist+drain restores prefixes, order and keys, and no operation "
              "reaches the index panic. The model is compared with the real ProvideQueue/ReprovideQueue on generated histories on every run.")
LEVEL_NOTE = ("Proof is about the Gallina model; the tie to the Go code is the correspondence run (differential testing, bounded by the generator). "
              "Trusted: Coq kernel, vm_compute, the harness, set semantics of the go-libdht trie on prefix-free sets, go-datastore key cleaning and ordering.")
