GO_PKG = "."
GO_PKGNAME = "dht"
HARNESS = ["dht/c13_test.go"]
GO_TEST = "TestVerifC13"
RUN_MODULE = "Run_C13"
COQ_TARGETS = ["Corr/Run_C13.vo", "Proofs/ModeProofs.vo"]
N = {"quick": 260, "thorough": 6000}
GO_TIMEOUT = {"quick": 600, "thorough": 1500}
RULE = ("a real IpfsDHT per case (ModeAuto / ModeAutoServer / ModeClient / ModeServer, plus an invalid ModeOpt) on a fake host with the real "
        "event bus inside a synctest bubble; 3-38 driver operations chosen from the observed situation: emit EvtLocalReachabilityChanged "
        "(Public/Private/Unknown/out-of-range), offer an inbound DHT / outbound DHT / other-protocol stream (handler started at once or held), "
        "start a held handler (optionally a stream whose protocol is set only then: it escapes the demotion's reset loop), write a good (PING) or bad request, EOF, and - with a gate inside moveToClientMode (Network().Conns()) - "
        "operations inside the demotion window and its release; seven scripted histories first (the window witness, the non-vacuity history). "
        "A case is non-trivial when it reaches one of: served / refused / demote / demote-open-streams / promote / window / served-in-window / "
        "late-start-reset / stopped-by-mode-check / eof / released; distinct = distinct (mode option, branch set, gated, length class)")
TRUSTED = [
    "go-libp2p event bus delivers events to one subscriber in emission order (modelled as a FIFO queue)",
    "go-libp2p host only dispatches an inbound stream to a protocol that has a registered handler (the fake host does the same from the "
    "SetStreamHandler/RemoveStreamHandler calls it received)",
    "a Read on a stream that was Reset fails; closed/reset streams are detached from their connection (fake stream/conn)",
    "sync.Mutex: setMode and getMode are mutually exclusive (the translator checks both take dht.modeLk)",
    "go2coq/modetable.go prints what the AST of the mode switches says",
]
ASSUMPTIONS = [
    "PARTIAL: 'no service in client mode' is proved on the instant of the locked mode read; the window between `dht.mode = modeClient` and "
    "the stream resets inside moveToClientMode is inherent (c13_no_service_whenever_client_refuted shows it, the harness replays it)",
    "reachability values outside {Unknown, Public, Private} leave the mode unchanged (setMode(0) returns an error)",
    "the idle-timeout reset of streams and several served protocols are not modelled",
]


def classify(desc, code):
    return None


TECHNIQUE = ("Coq proof (invariant by induction over all event interleavings of emissions, subscriber steps, the two halves of "
             "moveToClientMode, stream arrivals, locked mode reads and requests) on a Gallina model whose enum decisions are regenerated "
             "from the Go source; differential correspondence with a real IpfsDHT driven under synctest")
LEVEL_TEXT = ("Theorems in coq/Props/C13.v hold for every event list: in the automatic modes the settled mode is the target of the last "
              "emitted reachability event (initial mode if none), fixed modes never change, the initial-mode table, a stream whose mode read "
              "sees client is reset and never served, a settled client serves nothing and accepts no stream, every handled request was "
              "preceded by a mode read that saw server, every inbound DHT stream open when moveToClientMode starts is finished or reset "
              "when it returns, and a server accepts and answers. The decision tables are regenerated from handleLocalReachabilityChangedEvent, "
              "New, setMode, startNetworkSubscriber and handleNewMessage on every run.")
LEVEL_NOTE = ("partial: the clause 'a node in client mode handles no inbound DHT stream' is proved for the mode-read instant and for settled "
              "states; the demotion window is shown to exist (refuted theorem + replay). Proof is about the Gallina model; the tie to the Go "
              "code is the regenerated tables plus the correspondence run (bounded by the generator). Trusted: Coq kernel, vm_compute, harness "
              "fakes (host dispatch, stream reset semantics), event bus FIFO order, sync.Mutex.")
