# two runs: single RPCs / one response inside a lookup / the real sender (c10_test.go), and - for "no response can
# permanently block the requesting node" at the level of whole operations - the nine routing operations of the C03
# harness on networks of answering, failing, silent and late peers (same cases, judged by Run_C03: an operation that
# does not return, panics or leaves its channel open is a failure there)
GO_RUNS = [
    {"pkg": ".", "pkgname": "dht", "test": "TestVerifC10", "share": 0.75, "harness": ["dht/c10_test.go"]},
    {"pkg": ".", "pkgname": "dht", "test": "TestVerifC03", "share": 0.25,
     "harness": ["dht/sim_test.go", "dht/lookup_test.go", "dht/world_test.go", "dht/c03_test.go"]},
]
RUN_MODULE = "Run_C10"
COQ_TARGETS = ["Corr/Run_C10.vo", "Corr/Run_C03.vo", "Proofs/ClientRpcProofs.vo", "Proofs/PeerRecordProofs.vo"]
N = {"quick": 600, "thorough": 6700}
RULE = ("second run (a quarter of the cases): the whole routing operations of the C03 harness. First run: (a) the abstract response domain instantiated to concrete protobuf messages - per ProtocolMessenger method: sender error, nil message, "
        "7 record shapes (absent / matching / other value / other key / empty / key only / random) x 20 closer-peer list shapes built from 16 "
        "peer-record shapes (no address, empty id, undecodable only, mixed, exactly at / one under / one over the 8 KiB limit with 1-byte and "
        "10-byte connection values, overflow in the middle, single oversized address, id over the limit, 230+ small addresses, nil entry) "
        "x provider-list shapes x message types; (b) random structured replies and random / truncated / bit-flipped bytes decoded by the real "
        "proto.Unmarshal; (c) real lookups whose seed answers with 0..3K+37 closer peers for K in {1,2,3,5,20} (self, target, duplicates, "
        "filtered peers); (d) the real internal/net message sender on scripted in-memory streams in a synctest bubble: 7 read behaviours "
        "(message, garbage, reset, EOF, oversized frame, truncated frame, silence) x retry behaviours x open/write failures x cancellation "
        "instants. A case is non-trivial when it reaches a branch other than 'plain success on an empty reply'; distinct = distinct "
        "(method, outcome, origin, reply features) signatures")
TRUSTED = [
    "byte strings abstracted to (identity tag, length), multiaddrs to (tag, encoded length, decodable?); 'decodable' is the verdict of "
    "go-multiaddr's NewMultiaddrBytes (modelled, not verified)",
    "google.golang.org/protobuf: proto.Unmarshal never yields a nil element in a repeated message field; protowire.SizeVarint/SizeTag/SizeBytes "
    "transcribed in Model/PeerRecord.v and exercised through the real boundPeerRecordAddrs at the exact limit",
    "go-msgio varint framing and its MessageSizeMax check (only exercised by the stream cases, no theorem)",
    "testing/synctest virtual time; the fake host / stream of the harness",
    "the closer-peer cap factor (2 * bucketSize, query.go) is transcribed by hand in Model/ClientRpc.v and checked by the lookup cases",
]
ASSUMPTIONS = [
    "a MessageSender returns a non-nil message with a nil error and messages come from proto.Unmarshal (no nil repeated element): the real "
    "internal/net sender guarantees both; a hand-made (nil,nil) reply panics Ping and a nil element panics PBPeerToPeerInfo (modelled, "
    "cases kept, not part of the property)",
    "the 8 KiB bound on a received record holds when its peer id is at most 8178 bytes; a larger id is kept (with no address) - "
    "c10_record_le_8k_unguarded_refuted",
    "opening a stream and writing the request take no virtual time in the model",
]


def classify(desc, code):
    # F1 (fixed in /repo e8efe95): PutValue dereferenced the missing record of a PUT_VALUE echo
    if isinstance(desc, dict) and desc.get("kind") == "rpc" and desc.get("rpc") == "put" and desc.get("outcome") == "panic":
        rep = desc.get("reply") or {}
        if desc.get("wire") and not rep.get("has_record", True):
            return "put-value-echo-without-record"
    return None


TECHNIQUE = ("Coq proof over a Gallina transcription (access by access: nil-safe getters vs. direct field reads) of the ProtocolMessenger methods, "
             "the ingress peer-record bound with exact protowire arithmetic, queryPeer's closer-peer cap and the sender's read/timeout/retry loop; "
             "differential correspondence with the real code on the instantiated abstract domain, random and mutated byte replies, real lookups "
             "and the real message sender under synctest")
LEVEL_TEXT = ("Theorems in coq/Props/C10.v hold for every reply: no client RPC panics or blocks on any message the real sender can deliver, on "
              "garbage, errors or silence (at most two streams and twice the read timeout); a record for another key is refused; every returned "
              "peer record is the longest address prefix fitting 8 KiB with undecodable addresses dropped; at most 2K peers of a response enter a lookup.")
LEVEL_NOTE = ("Proof is about the Gallina model; the tie to the Go code is the correspondence run (bounded by the generator). Trusted: Coq kernel, "
              "vm_compute, the harness, protobuf/multiaddr/msgio decoding, synctest.")
