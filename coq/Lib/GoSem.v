(* Go semantics that matter to the models: explicit Panic / Blocked outcomes,
   so that totality of Gallina never makes a theorem true for the wrong reason. *)
From Coq Require Export String.
From Coq Require Export List Bool Arith NArith ZArith Lia.
(* List is exported after String so that `length`, `app` etc. are the list ones *)
Export ListNotations.

Inductive res (A : Type) : Type :=
| Ok (a : A)
| Panic (why : string)
| Blocked (why : string).
Arguments Ok {A} a.
Arguments Panic {A} why.
Arguments Blocked {A} why.

Definition bind {A B} (r : res A) (f : A -> res B) : res B :=
  match r with
  | Ok a => f a
  | Panic w => Panic w
  | Blocked w => Blocked w
  end.
Notation "x <- r ;; k" := (bind r (fun x => k)) (at level 61, r at next level, right associativity).

Definition is_ok {A} (r : res A) : bool := match r with Ok _ => true | _ => false end.
Definition is_panic {A} (r : res A) : bool := match r with Panic _ => true | _ => false end.

(* p.field through a possibly-nil pointer *)
Definition deref {A} (o : option A) (why : string) : res A :=
  match o with Some a => Ok a | None => Panic why end.

(* a[i] on a slice *)
Definition go_nth {A} (l : list A) (i : nat) (why : string) : res A :=
  match nth_error l i with Some a => Ok a | None => Panic why end.

(* integer division: a / b panics on b = 0 *)
Definition go_div (a b : Z) : res Z :=
  if Z.eqb b 0 then Panic "integer divide by zero" else Ok (Z.quot a b).

Lemma bind_ok_inv {A B} (r : res A) (f : A -> res B) b :
  bind r f = Ok b -> exists a, r = Ok a /\ f a = Ok b.
Proof. destruct r as [a| |]; simpl; intro H; try discriminate. exists a; auto. Qed.
