(* Kademlia keys and prefixes as bit lists, most significant bit first. *)
From Coq Require Export List Bool Arith NArith Lia.
Export ListNotations.

Definition bits := list bool.

Fixpoint is_prefix (p k : bits) : bool :=
  match p, k with
  | [], _ => true
  | b :: p', c :: k' => Bool.eqb b c && is_prefix p' k'
  | _ :: _, [] => false
  end.

Fixpoint bits_eqb (a b : bits) : bool :=
  match a, b with
  | [], [] => true
  | x :: a', y :: b' => Bool.eqb x y && bits_eqb a' b'
  | _, _ => false
  end.

(* comparable: one is a prefix of the other (the two prefixes overlap) *)
Definition comparable (a b : bits) : bool := is_prefix a b || is_prefix b a.

(* [kb w v]: the [w] low bits of [v], most significant first.  Used by the
   harness to write keys compactly. *)
Fixpoint kb (w : nat) (v : N) : bits :=
  match w with
  | O => []
  | S w' => N.testbit v (N.of_nat w') :: kb w' v
  end.

(* lexicographic order on bit lists; a proper prefix sorts first *)
Fixpoint bits_ltb (a b : bits) : bool :=
  match a, b with
  | [], [] => false
  | [], _ :: _ => true
  | _ :: _, [] => false
  | x :: a', y :: b' =>
      if Bool.eqb x y then bits_ltb a' b' else negb x
  end.

Fixpoint cpl (a b : bits) : nat :=
  match a, b with
  | x :: a', y :: b' => if Bool.eqb x y then S (cpl a' b') else 0
  | _, _ => 0
  end.

Lemma bits_eqb_eq a b : bits_eqb a b = true <-> a = b.
Proof.
  revert b; induction a as [|x a IH]; intros [|y b]; simpl; split; intro H;
    try reflexivity; try discriminate.
  - apply andb_true_iff in H as [H1 H2]. apply eqb_prop in H1. apply IH in H2. congruence.
  - inversion H; subst. rewrite eqb_reflx. simpl. apply IH. reflexivity.
Qed.

Lemma bits_eqb_refl a : bits_eqb a a = true.
Proof. apply bits_eqb_eq; reflexivity. Qed.

Lemma bits_eqb_neq a b : bits_eqb a b = false <-> a <> b.
Proof.
  split; intro H.
  - intro E. apply bits_eqb_eq in E. congruence.
  - destruct (bits_eqb a b) eqn:E; [apply bits_eqb_eq in E; contradiction|reflexivity].
Qed.

Lemma is_prefix_refl a : is_prefix a a = true.
Proof. induction a as [|x a IH]; simpl; [reflexivity|]. rewrite eqb_reflx, IH. reflexivity. Qed.

Lemma is_prefix_nil_r p : is_prefix p [] = true -> p = [].
Proof. destruct p; simpl; [reflexivity|discriminate]. Qed.

Lemma is_prefix_trans a b c :
  is_prefix a b = true -> is_prefix b c = true -> is_prefix a c = true.
Proof.
  revert b c; induction a as [|x a IH]; intros [|y b] [|z c]; simpl; intros H1 H2;
    try reflexivity; try discriminate.
  apply andb_true_iff in H1 as [E1 H1]. apply andb_true_iff in H2 as [E2 H2].
  apply eqb_prop in E1. apply eqb_prop in E2. subst.
  rewrite eqb_reflx. simpl. eapply IH; eauto.
Qed.

Lemma is_prefix_antisym a b :
  is_prefix a b = true -> is_prefix b a = true -> a = b.
Proof.
  revert b; induction a as [|x a IH]; intros [|y b]; simpl; intros H1 H2;
    try reflexivity; try discriminate.
  apply andb_true_iff in H1 as [E1 H1]. apply andb_true_iff in H2 as [_ H2].
  apply eqb_prop in E1. subst. f_equal. apply IH; assumption.
Qed.

(* two prefixes of the same key are comparable *)
Lemma prefixes_of_same_comparable a b k :
  is_prefix a k = true -> is_prefix b k = true -> comparable a b = true.
Proof.
  unfold comparable.
  revert b k; induction a as [|x a IH]; intros [|y b] [|z k]; simpl; intros H1 H2;
    try reflexivity; try discriminate.
  apply andb_true_iff in H1 as [E1 H1]. apply andb_true_iff in H2 as [E2 H2].
  apply eqb_prop in E1. apply eqb_prop in E2. subst.
  rewrite eqb_reflx. simpl. eapply IH; eauto.
Qed.

Lemma is_prefix_app p s : is_prefix p (p ++ s) = true.
Proof. induction p as [|x p IH]; simpl; [reflexivity|]. rewrite eqb_reflx, IH. reflexivity. Qed.

Lemma is_prefix_exists p k : is_prefix p k = true <-> exists s, k = p ++ s.
Proof.
  split.
  - revert k; induction p as [|x p IH]; intros k H.
    + exists k; reflexivity.
    + destruct k as [|y k]; simpl in H; [discriminate|].
      apply andb_true_iff in H as [E H]. apply eqb_prop in E. subst.
      destruct (IH _ H) as [s ->]. exists s; reflexivity.
  - intros [s ->]. apply is_prefix_app.
Qed.
