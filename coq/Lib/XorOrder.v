From Coq Require Import NArith Lia Bool.
Local Open Scope N_scope.

Lemma low_lt_of_bit_false (x m : N) :
  N.testbit x m = false -> x mod 2^(N.succ m) < 2^m.
Proof.
  intro Hm. set (P := 2^(N.succ m)).
  assert (HP: P <> 0) by (apply N.pow_nonzero; lia).
  destruct (N.eq_dec (x mod P) 0) as [E|NE].
  - rewrite E. apply N.neq_0_lt_0, N.pow_nonzero. lia.
  - apply N.log2_lt_pow2; [apply N.neq_0_lt_0; exact NE|].
    assert (Hle: N.log2 (x mod P) < N.succ m).
    { apply N.log2_lt_pow2; [apply N.neq_0_lt_0; exact NE|]. apply N.mod_lt; exact HP. }
    assert (Hne: N.log2 (x mod P) <> m).
    { intro E. pose proof (N.bit_log2 _ NE) as Hb. rewrite E in Hb.
      unfold P in Hb. rewrite N.mod_pow2_bits_low in Hb by lia. congruence. }
    lia.
Qed.

Lemma low_ge_of_bit_true (u m : N) :
  N.testbit u m = true -> 2^m <= u mod 2^(N.succ m).
Proof.
  intro Hu. set (P := 2^(N.succ m)).
  assert (Hb: N.testbit (u mod P) m = true) by (unfold P; rewrite N.mod_pow2_bits_low by lia; exact Hu).
  destruct (N.eq_dec (u mod P) 0) as [E|NE].
  - rewrite E, N.bits_0 in Hb. discriminate.
  - apply N.log2_le_pow2; [apply N.neq_0_lt_0; exact NE|].
    apply N.le_ngt. intro Hlt. rewrite (N.bits_above_log2 _ _ Hlt) in Hb. discriminate.
Qed.

Lemma lxor_lt_of_topbit (w u : N) :
  w <> 0 -> N.testbit u (N.log2 w) = true -> N.lxor w u < u.
Proof.
  intros Hw Hu.
  remember (N.log2 w) as m eqn:Em.
  remember (N.lxor w u) as x eqn:Ex0.
  assert (Hhigh: forall i, m < i -> N.testbit x i = N.testbit u i).
  { intros i Hi. subst x m. rewrite N.lxor_spec, (N.bits_above_log2 w i) by exact Hi. apply xorb_false_l. }
  assert (Hm: N.testbit x m = false).
  { subst x m. rewrite N.lxor_spec, Hu, N.bit_log2 by exact Hw. reflexivity. }
  assert (HP: 2^(N.succ m) <> 0) by (apply N.pow_nonzero; lia).
  assert (Hdiv: x / 2^(N.succ m) = u / 2^(N.succ m)).
  { apply N.bits_inj. intro i. rewrite !N.div_pow2_bits. apply Hhigh. lia. }
  pose proof (N.div_mod x _ HP) as Ex.
  pose proof (N.div_mod u _ HP) as Eu.
  pose proof (low_lt_of_bit_false x m Hm) as Hxl.
  pose proof (low_ge_of_bit_true u m Hu) as Hul.
  rewrite Hdiv in Ex.
  remember (2^(N.succ m) * (u / 2^(N.succ m))) as hi.
  remember (x mod 2^(N.succ m)) as xl. remember (u mod 2^(N.succ m)) as ul. remember (2^m) as pm.
  lia.
Qed.

Lemma topdiff_bit (u v : N) : v < u -> N.testbit u (N.log2 (N.lxor u v)) = true.
Proof.
  intro Hlt.
  assert (Hne: N.lxor u v <> 0) by (intro E; apply N.lxor_eq in E; lia).
  remember (N.log2 (N.lxor u v)) as m eqn:Em.
  pose proof (N.bit_log2 _ Hne) as Hb. rewrite <- Em, N.lxor_spec in Hb.
  destruct (N.testbit u m) eqn:Eu; [reflexivity|exfalso].
  assert (Ev: N.testbit v m = true) by (destruct (N.testbit v m); simpl in Hb; congruence).
  assert (H: N.lxor (N.lxor u v) v < v) by (apply lxor_lt_of_topbit; [exact Hne | rewrite <- Em; exact Ev]).
  rewrite N.lxor_assoc, N.lxor_nilpotent, N.lxor_0_r in H. lia.
Qed.

(* the bucket fact used by convergence: every x in p0's bucket of c is nearer to t than p0 *)
Lemma bucket_members_nearer (t p0 c x : N) :
  N.lxor c t < N.lxor p0 t ->
  x <> p0 -> N.log2 (N.lxor p0 x) = N.log2 (N.lxor p0 c) ->
  N.lxor x t < N.lxor p0 t.
Proof.
  intros Hc Hx Hb.
  set (u := N.lxor p0 t). set (v := N.lxor c t).
  assert (Euv: N.lxor u v = N.lxor p0 c).
  { unfold u, v. rewrite N.lxor_assoc, (N.lxor_comm t), N.lxor_assoc, N.lxor_nilpotent, N.lxor_0_r. reflexivity. }
  assert (Hbit: N.testbit u (N.log2 (N.lxor p0 x)) = true).
  { rewrite Hb, <- Euv. apply topdiff_bit. exact Hc. }
  assert (Hw: N.lxor p0 x <> 0) by (intro E; apply N.lxor_eq in E; congruence).
  pose proof (lxor_lt_of_topbit _ _ Hw Hbit) as H.
  replace (N.lxor (N.lxor p0 x) u) with (N.lxor x t) in H; [exact H|].
  unfold u. rewrite (N.lxor_comm p0 x), N.lxor_assoc, <- (N.lxor_assoc p0 p0), N.lxor_nilpotent, N.lxor_0_l. reflexivity.
Qed.

