(* Model of the accelerated client's provider search
     fullrt/dht.go  FindProvidersAsync          (FullRT, lines 1391-1408)
                    findProvidersAsyncRoutine   (FullRT, lines 1410-1525)
                    execOnMany                  (FullRT, lines 1036-1097; the part that decides
                                                 which answers are still processed)
   Definitions only.  The accumulation itself (psTryAdd on a set of ids, no
   address upgrade; the local loop and the per-answer loop) is [fr_try_add],
   [fr_stop], [fr_feed] of Model/ProvSearch.v.

   Unlike the standard client the accelerated client does not run a lookup:
   GetClosestPeers hands it a fixed set of [n] peers (C16 covers which), and
   execOnMany asks all of them at once, each in its own goroutine.  The events
   of the model are therefore the [n] requests *returning*, in some order, mixed
   with the 500 ms ticks of execOnMany's ticker and the cancellation of the
   caller's context ([ALate]: a reply that still gets through after the
   cancellation).  As in ProvSearch.v one answer is processed completely
   before the next event (psTryAdd is atomic under psLock; the order of two
   sends racing on the unbuffered channel from two goroutines is outside the
   model).  Abstracted: the peerstore side effect maybeAddAddrs, tracing and
   query events, the per-operation timeout of execOnMany (the harness sets it to
   one hour), the float arithmetic of the wait fraction (restricted to quarters,
   which float64 represents exactly). *)
From Verif.Lib Require Import GoSem Bits.
From Verif.Model Require Export ProvSearch.

Inductive arrival :=
| AOk (a : list entry)   (* protoMessenger.GetProviders of one asked peer returns this provider list (1476),
                            or the context's error when its context is already cancelled *)
| AFail                  (* ... returns an error (1477-1479) *)
| ATick                  (* 500 ms pass (the ticker of execOnMany, 1067/1084) *)
| ACancel                (* the caller's context is cancelled *)
| ALate (a : list entry) (wins : nat).
                         (* the request returns this provider list even if its context is already cancelled
                            (the reply had been read when the cancellation came: a message sender does not
                            look at the context again).  The sends of the loop 1490-1511 then race against
                            ctx.Done(): [wins] of them win before ctx.Done() does. *)

(* the state shared by the goroutines of one search while execOnMany runs *)
Record xstate := {
  x_ps : list peer;        (* ps, 1418 *)
  x_done : nat;            (* numDone *)
  x_succ : nat;            (* numSuccess *)
  x_tick : option nat;     (* ticker != nil, with successSinceLastTick *)
  x_dead : bool;           (* the context the requests run on (putctx, child of queryctx, child of ctx) is cancelled *)
  x_sent : nat }.          (* providers handed to psTryAdd's caller for sending so far *)

Definition x_with_dead (st : xstate) : xstate :=
  {| x_ps := x_ps st; x_done := x_done st; x_succ := x_succ st; x_tick := x_tick st; x_dead := true; x_sent := x_sent st |}.

Definition x_failed (st : xstate) : xstate :=
  {| x_ps := x_ps st; x_done := S (x_done st); x_succ := x_succ st; x_tick := x_tick st; x_dead := x_dead st; x_sent := x_sent st |}.

(* numSuccessfulToWaitFor := int(float64(len(peers)) * dht.waitFrac) (1044) for waitFrac = q/4 *)
Definition wait_for (n q : nat) : nat := (n * q) / 4.

(* [takes = Some t]: the consumer cancels the context when it has received t
   providers and stops receiving (the routine's next send loses against
   ctx.Done()); [None]: it receives until the channel is closed *)
Definition takes_reached (takes : option nat) (sent : nat) : bool :=
  match takes with Some t => Nat.leb t sent | None => false end.

Definition cut (takes : option nat) (ys : list entry) : list entry :=
  match takes with Some t => firstn t ys | None => ys end.

(* The loop 1490-1511 on a cancelled context: psTryAdd, then
   `select { case peerOut <- *prov: ... case <-ctx.Done(): return ctx.Err() }`
   with both cases ready: the send wins [wins] times.  Result: the set, what
   was sent, whether fn returned nil. *)
Fixpoint fr_feed_race (count : Z) (ps : list peer) (es : list entry) (wins : nat) : list peer * list entry * bool :=
  match es with
  | [] => (ps, [], true)
  | e :: rest =>
      let (ps1, added) := fr_try_add count ps (fst e) in
      if added then
        match wins with
        | O => (ps1, [], false)
        | S w => if fr_stop count ps1 then (ps1, [e], true)
                 else let '(ps2, ys, r) := fr_feed_race count ps1 rest w in (ps2, e :: ys, r)
        end
      else if fr_stop count ps1 then (ps1, [], true)
           else fr_feed_race count ps1 rest wins
  end.

(* fn returned nil (1061-1083): numDone++, numSuccess++, the ticker is started
   once numSuccess reaches numSuccessfulToWaitFor (1065-1071), and the context
   is cancelled when numSuccess+numDone >= len(peers) (1077-1078) *)
Definition x_success (n q : nat) (st : xstate) (ps1 : list peer) (sent1 : nat) (dead1 : bool) : xstate :=
  let succ1 := S (x_succ st) in
  let done1 := S (x_done st) in
  {| x_ps := ps1; x_done := done1; x_succ := succ1;
     x_tick := match x_tick st with
               | None => if Nat.leb (wait_for n q) succ1 then Some succ1 else None
               | Some s => Some s
               end;
     x_dead := dead1 || Nat.leb n (succ1 + done1); x_sent := sent1 |}.

(* an answer delivered while the context is alive: shuffle, then the loop
   1490-1511 = [fr_feed]; when the cap is reached cancelquery() (1508) and
   return nil; fn returns nil unless a send lost against ctx.Done() (1501-1503:
   only when the consumer left) *)
Definition x_answer (sh : list entry -> list entry) (count : Z) (n q : nat) (takes : option nat)
           (st : xstate) (a : list entry) : xstate * list entry * bool :=
  let '(ps1, ys, early) := fr_feed count (x_ps st) (sh a) in
  let sent1 := x_sent st + length ys in
  let all_sent := match takes with Some t => Nat.leb sent1 t | None => true end in
  if all_sent then (x_success n q st ps1 sent1 (early || takes_reached takes sent1), ys, true)
  else ({| x_ps := ps1; x_done := S (x_done st); x_succ := x_succ st; x_tick := x_tick st;
           x_dead := true; x_sent := sent1 |}, ys, true).

(* One event while execOnMany waits (loop 1059-1095, fn 1469-1522).  Result: new
   state, what the answer's loop hands to the channel, whether an answer was
   processed on a live context.
   - a request that returns after its context was cancelled returns the
     context's error: fn returns it, numDone++ only -- unless the reply had
     already been read ([ALate]);
   - a tick: cancel unless there was a success since the last tick (1084-1094). *)
Definition x_step (sh : list entry -> list entry) (count : Z) (n q : nat) (takes : option nat)
           (st : xstate) (ar : arrival) : xstate * list entry * bool :=
  if Nat.leb n (x_done st) then (st, [], false)        (* `for numDone < len(peers)` has ended *)
  else
  match ar with
  | ACancel => (x_with_dead st, [], false)
  | ATick =>
      match x_tick st with
      | None => (st, [], false)
      | Some s =>
          if Nat.ltb s (x_succ st)
          then ({| x_ps := x_ps st; x_done := x_done st; x_succ := x_succ st; x_tick := Some (x_succ st);
                   x_dead := x_dead st; x_sent := x_sent st |}, [], false)
          else (x_with_dead st, [], false)
      end
  | AFail => (x_failed st, [], false)
  | AOk a => if x_dead st then (x_failed st, [], false) else x_answer sh count n q takes st a
  | ALate a w =>
      if x_dead st then
        let '(ps1, ys, ok) := fr_feed_race count (x_ps st) (sh a) w in
        let sent1 := x_sent st + length ys in
        if ok then (x_success n q st ps1 sent1 true, ys, false)
        else ({| x_ps := ps1; x_done := S (x_done st); x_succ := x_succ st; x_tick := x_tick st;
                 x_dead := true; x_sent := sent1 |}, ys, false)
      else x_answer sh count n q takes st a
  end.

Fixpoint x_run (sh : list entry -> list entry) (count : Z) (n q : nat) (takes : option nat)
         (st : xstate) (ars : list arrival) : xstate * list entry * list bool :=
  match ars with
  | [] => (st, [], [])
  | ar :: rest =>
      let '(st1, ys, pr) := x_step sh count n q takes st ar in
      let '(st2, ys', prs) := x_run sh count n q takes st1 rest in
      (st2, ys ++ ys', pr :: prs)
  end.

(* The search.  [no_store]: providers are disabled or the key is undefined
   (1395-1399: a closed channel is returned) or ProviderManager.GetProviders
   fails (1436-1439); [precancel]: the context is cancelled before the provider
   store is read (GetProviders returns the context's error).  Then the local
   providers (1440-1459): when they suffice, or the consumer leaves in the
   middle of them, nothing is asked.  Otherwise the [n] closest peers are asked
   (1461-1524).  Result: what the consumer receives, and for every event
   whether it was a processed answer. *)
Definition frt_core (sh : list entry -> list entry) (no_store precancel : bool) (count : Z) (locals : list entry)
           (n q : nat) (arrivals : list arrival) (takes : option nat) : list entry * list bool :=
  let none := map (fun _ : arrival => false) arrivals in
  if no_store || precancel || takes_reached takes 0 then ([], none)
  else
    let '(p0, y0, early) := fr_feed count [] locals in
    if early || match takes with Some t => Nat.ltb t (length y0) | None => false end
    then (cut takes y0, none)
    else
      let st0 := {| x_ps := p0; x_done := 0; x_succ := 0; x_tick := None;
                    x_dead := takes_reached takes (length y0); x_sent := length y0 |} in
      let '(_, ys, fl) := x_run sh count n q takes st0 arrivals in
      (cut takes (y0 ++ ys), fl).

(* `defer close(peerOut)` (1415), resp. close(peerOut) at 1397: the close is the
   last event on every path *)
Definition frt_routine (sh : list entry -> list entry) (no_store precancel : bool) (count : Z) (locals : list entry)
           (n q : nat) (arrivals : list arrival) (takes : option nat) : list event :=
  map Yield (fst (frt_core sh no_store precancel count locals n q arrivals takes)) ++ [Closed].

(* the answers that were processed on a live context: the events flagged true *)
Fixpoint processed (ars : list arrival) (fl : list bool) : list (list entry) :=
  match ars, fl with
  | AOk a :: ars', true :: fl' => a :: processed ars' fl'
  | ALate a _ :: ars', true :: fl' => a :: processed ars' fl'
  | _ :: ars', _ :: fl' => processed ars' fl'
  | _, _ => []
  end.

(* the answers that reached the search at all: those, and the late ones *)
Fixpoint delivered (ars : list arrival) (fl : list bool) : list (list entry) :=
  match ars, fl with
  | AOk a :: ars', true :: fl' => a :: delivered ars' fl'
  | ALate a _ :: ars', _ :: fl' => a :: delivered ars' fl'
  | _ :: ars', _ :: fl' => delivered ars' fl'
  | _, _ => []
  end.

Definition is_late (ar : arrival) : bool := match ar with ALate _ _ => true | _ => false end.
