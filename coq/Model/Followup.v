(* The follow-up wait loop of runLookupWithFollowup (query.go): n follow-up
   queries were started, each sends exactly one token on doneCh when it ends.
     for i := range queryPeers {
       select {
       case <-doneCh: followupsCompleted++
                      if stopFn(qps) { cancelFollowUp(); if i < len-1 { completed = false }; break loop }
       case <-ctx.Done(): completed = false; cancelFollowUp(); break loop }
     }
     if !completed { for i := followupsCompleted; i < len; i++ { <-doneCh } }
   Definitions only. *)
From Verif.Lib Require Import GoSem.

Inductive fphase := FLoop | FDrain (remaining : nat) | FReturned.
Inductive fevent :=
| FDone (stop_now : bool)   (* a follow-up query ended; the stop function evaluated right after says [stop_now] *)
| FCancel.                  (* the caller's context is done *)

Record fstate := {
  f_n : nat;            (* len(queryPeers) *)
  f_i : nat;            (* loop index *)
  f_counted : nat;      (* followupsCompleted *)
  f_recv : nat;         (* tokens received from doneCh so far *)
  f_completed : bool;   (* lookupRes.completed *)
  f_phase : fphase }.

Definition finit (n : nat) (completed : bool) : fstate :=
  {| f_n := n; f_i := 0; f_counted := 0; f_recv := 0; f_completed := completed;
     f_phase := match n with O => FReturned | _ => FLoop end |}.

(* what happens when the loop is left (break or exhausted) *)
Definition after_loop (s : fstate) : fstate :=
  if f_completed s
  then {| f_n := f_n s; f_i := f_i s; f_counted := f_counted s; f_recv := f_recv s; f_completed := true; f_phase := FReturned |}
  else {| f_n := f_n s; f_i := f_i s; f_counted := f_counted s; f_recv := f_recv s; f_completed := false;
          f_phase := match f_n s - f_counted s with O => FReturned | r => FDrain r end |}.

Definition fstep (s : fstate) (e : fevent) : option fstate :=
  match f_phase s, e with
  | FLoop, FDone stop_now =>
      let s1 := {| f_n := f_n s; f_i := f_i s; f_counted := S (f_counted s); f_recv := S (f_recv s);
                   f_completed := f_completed s; f_phase := FLoop |} in
      if stop_now
      then Some (after_loop {| f_n := f_n s1; f_i := f_i s1; f_counted := f_counted s1; f_recv := f_recv s1;
                               f_completed := if Nat.ltb (f_i s) (f_n s - 1) then false else f_completed s;
                               f_phase := FLoop |})
      else if Nat.eqb (S (f_i s)) (f_n s)
           then Some (after_loop s1)
           else Some {| f_n := f_n s1; f_i := S (f_i s); f_counted := f_counted s1; f_recv := f_recv s1;
                        f_completed := f_completed s1; f_phase := FLoop |}
  | FLoop, FCancel =>
      Some (after_loop {| f_n := f_n s; f_i := f_i s; f_counted := f_counted s; f_recv := f_recv s;
                          f_completed := false; f_phase := FLoop |})
  | FDrain (S r), FDone _ =>
      Some {| f_n := f_n s; f_i := f_i s; f_counted := f_counted s; f_recv := S (f_recv s); f_completed := f_completed s;
              f_phase := match r with O => FReturned | _ => FDrain r end |}
  | _, _ => None
  end.

Fixpoint frun (s : fstate) (evs : list fevent) : option fstate :=
  match evs with
  | [] => Some s
  | e :: r => match fstep s e with Some s' => frun s' r | None => None end
  end.
