(* Model of crawler/crawler.go, DefaultCrawler.Run (lines 192-289): the work
   list of the main loop.  Definitions only; lemmas in Proofs/CrawlerProofs.v.

   Abstraction.
   - A peer is a number.  What a worker brings back for peer p
     ([queryPeer], lines 297-337: connect, sixteen FIND_NODE requests, answers
     merged in a map) is [net p]: the keys of [res.data].  It is [[]] when the
     connect or any request failed, and also when every answer was empty: the
     loop tests [len(res.data) > 0] (line 259) and treats both alike.
     No peer is asked twice (CrawlerProofs.crawl_once), so one answer per
     peer is all there is.
   - The private address book ([peerAddrs], [RemoveSourceAndAddPeers]) only
     supplies dial addresses to the workers; it never influences which peers
     are queried and is not modelled.
   - Go iterates [res.data] in map order; [net p] is that order.  The theorems
     hold for every [net], hence for every order.
   - The worker pool is abstracted to its observable effect on the main loop:
     a job can be handed over ([CDispatch], line 283) while fewer than
     [par + 1] jobs are outstanding (one in the channel buffer, one per
     worker), and the result of any outstanding job can arrive ([CResult i],
     line 258) provided there is a worker at all.  This over-approximates the
     real schedules (e.g. with one worker results come in FIFO order), which
     is the safe direction for theorems over all schedules. *)
From Verif.Lib Require Import GoSem Bits.

Definition cnet := N -> list N.

Definition cmem (x : N) (l : list N) : bool := existsb (N.eqb x) l.

Record cstate := {
  c_todial : list N;            (* toDial *)
  c_seen : list N;              (* peersSeen (a set; kept in insertion order) *)
  c_queried : list N;           (* peersQueried: peers whose query succeeded *)
  c_out : list N;               (* outstanding jobs, oldest first; len = outstanding *)
  c_disp : list N;              (* log: every job handed to a worker, in order *)
  c_cb : list (N * bool)        (* log: every callback: (peer, true = handleSuccess) *)
}.

(* lines 221-240: a starting peer without any address (peerstore or AddrInfo)
   is skipped; one that is already in peersSeen only contributes its addresses
   (lines 232-235); every other one is appended to toDial and marked seen. *)
Definition dialable (seeds : list (N * bool)) : list N := map fst (filter snd seeds).
Fixpoint uniq_acc (l acc : list N) : list N :=
  match l with
  | [] => acc
  | x :: r => if cmem x acc then uniq_acc r acc else uniq_acc r (acc ++ [x])
  end.
Definition uniq (l : list N) : list N := uniq_acc l [].
Definition crawl_init (seeds : list (N * bool)) : cstate :=
  let s := uniq (dialable seeds) in
  {| c_todial := s; c_seen := s; c_queried := []; c_out := []; c_disp := []; c_cb := [] |}.

(* lines 263-272: peers not seen before are marked seen and appended to toDial *)
Fixpoint add_new (data seen todial : list N) : list N * list N :=
  match data with
  | [] => (seen, todial)
  | q :: r => if cmem q seen then add_new r seen todial
              else add_new r (seen ++ [q]) (todial ++ [q])
  end.

Fixpoint remove_nth {A} (i : nat) (l : list A) : list A :=
  match l, i with
  | [], _ => []
  | _ :: r, O => r
  | x :: r, S j => x :: remove_nth j r
  end.

Inductive cev := CDispatch | CResult (i : nat).

Definition cstep (net : cnet) (par : nat) (s : cstate) (e : cev) : option cstate :=
  match e with
  | CDispatch =>
      match c_todial s with
      | [] => None
      | p :: r =>
          if length (c_out s) <=? par then
            Some {| c_todial := r; c_seen := c_seen s; c_queried := c_queried s;
                    c_out := c_out s ++ [p]; c_disp := c_disp s ++ [p]; c_cb := c_cb s |}
          else None
      end
  | CResult i =>
      if par =? 0 then None else
      match nth_error (c_out s) i with
      | None => None
      | Some p =>
          match net p with
          | [] =>                                   (* handleFail *)
              Some {| c_todial := c_todial s; c_seen := c_seen s; c_queried := c_queried s;
                      c_out := remove_nth i (c_out s); c_disp := c_disp s;
                      c_cb := c_cb s ++ [(p, false)] |}
          | data =>                                 (* handleSuccess *)
              let (seen', todial') := add_new data (c_seen s) (c_todial s) in
              Some {| c_todial := todial'; c_seen := seen'; c_queried := c_queried s ++ [p];
                      c_out := remove_nth i (c_out s); c_disp := c_disp s;
                      c_cb := c_cb s ++ [(p, true)] |}
          end
      end
  end.

Fixpoint crun (net : cnet) (par : nat) (evs : list cev) (s : cstate) : option cstate :=
  match evs with
  | [] => Some s
  | e :: r => match cstep net par s e with Some s' => crun net par r s' | None => None end
  end.

(* line 249: the loop condition is false *)
Definition cfinished (s : cstate) : bool :=
  match c_todial s, c_out s with [], [] => true | _, _ => false end.

(* One concrete schedule (hand over whenever possible, otherwise take the
   oldest result), used to evaluate the model on a case.  [Blocked]: the loop
   can neither send nor receive (no worker), or the fuel ran out. *)
Fixpoint crawl_exec (fuel : nat) (net : cnet) (par : nat) (s : cstate) : res cstate :=
  if cfinished s then Ok s else
  match fuel with
  | O => Blocked "crawler: main loop still running"
  | S f =>
      match cstep net par s CDispatch with
      | Some s' => crawl_exec f net par s'
      | None =>
          match cstep net par s (CResult 0) with
          | Some s' => crawl_exec f net par s'
          | None => Blocked "crawler: no worker to take the job"
          end
      end
  end.

(* peers reachable from the dialable seeds through successful answers *)
Inductive reachable (net : cnet) (seeds : list N) : N -> Prop :=
| reach_seed p : In p seeds -> reachable net seeds p
| reach_step p q : reachable net seeds p -> In q (net p) -> reachable net seeds q.

