(* Model of the iterative lookup: qpeerset/qpeerset.go and query.go
   (run / updateState / isReadyToTerminate / spawnQuery / terminate /
   queryPeer's response processing / constructLookupResult /
   runLookupWithFollowup).  Definitions only.

   Identifiers are Kademlia ids (N, the sha256 of the peer id, supplied by the
   harness); the distance to the key is the XOR.  The goroutines of the real
   code are replaced by an explicit event list: `Arrive p` is "the run loop
   receives the queryUpdate of the request to p from its channel" (p must be in
   flight), `Cancel` is "the run loop sees its context done".  One loop
   iteration of `run` is one `step`. *)
From Verif.Lib Require Import GoSem.
Local Open Scope N_scope.

Definition id := N.
Inductive pstate := Heard | Waiting | Queried | Unreachable.
Definition pstate_eqb (a b : pstate) : bool :=
  match a, b with
  | Heard, Heard | Waiting, Waiting | Queried, Queried | Unreachable, Unreachable => true
  | _, _ => false
  end.

Record pentry := { pid : id; pst : pstate; pref : id }.

Definition dist (key a : id) : N := N.lxor a key.

(* ---- qpeerset -------------------------------------------------------------- *)
Definition find_peer (l : list pentry) (p : id) : option pentry :=
  find (fun e => N.eqb (pid e) p) l.

(* TryAdd *)
Definition try_add (l : list pentry) (p ref : id) : list pentry :=
  match find_peer l p with
  | Some _ => l
  | None => l ++ [{| pid := p; pst := Heard; pref := ref |}]
  end.

(* SetState / GetState: qp.all[qp.find(p)] with find = -1 panics *)
Definition set_state (l : list pentry) (p : id) (s : pstate) : res (list pentry) :=
  match find_peer l p with
  | None => Panic "qpeerset: index out of range [-1]"
  | Some _ => Ok (map (fun e => if N.eqb (pid e) p then {| pid := pid e; pst := s; pref := pref e |} else e) l)
  end.
Definition get_state (l : list pentry) (p : id) : res pstate :=
  match find_peer l p with
  | None => Panic "qpeerset: index out of range [-1]"
  | Some e => Ok (pst e)
  end.

(* sort.Sort by distance (distances of distinct ids are distinct, so the
   unstable sort is deterministic) *)
Fixpoint insert_by (key : id) (e : pentry) (l : list pentry) : list pentry :=
  match l with
  | [] => [e]
  | x :: l' => if N.leb (dist key (pid e)) (dist key (pid x)) then e :: l else x :: insert_by key e l'
  end.
Definition sort_by (key : id) (l : list pentry) : list pentry := fold_right (insert_by key) [] l.

(* GetClosestNInStates(n, states...): `result[:n]` with negative n panics *)
Definition in_states (sts : list pstate) (s : pstate) : bool := existsb (pstate_eqb s) sts.
Definition closest_in_states (key : id) (sts : list pstate) (l : list pentry) : list id :=
  map pid (filter (fun e => in_states sts (pst e)) (sort_by key l)).
Definition closest_n_in_states (key : id) (n : Z) (sts : list pstate) (l : list pentry) : res (list id) :=
  let r := closest_in_states key sts l in
  if Z.leb n (Z.of_nat (length r))
  then (if Z.ltb n 0 then Panic "slice bounds out of range" else Ok (firstn (Z.to_nat n) r))
  else Ok r.
Definition num_in_state (s : pstate) (l : list pentry) : nat :=
  length (filter (fun e => pstate_eqb (pst e) s) l).

(* ---- configuration, environment ------------------------------------------ *)
(* what the lookup's stop function looks at *)
Inductive stopspec :=
| StopNever
| StopQueriedAtLeast (n : nat)       (* n peers answered *)
| StopPeerQueried (p : id)           (* a given peer answered *)
| StopAfterFollowups (j : nat).      (* becomes true once j follow-up queries have ended (a stop function fed by the query function's side effects, e.g. providers found) *)
Definition stop_fn (sp : stopspec) (l : list pentry) : bool :=
  match sp with
  | StopNever => false
  | StopQueriedAtLeast n => Nat.leb n (num_in_state Queried l)
  | StopPeerQueried p => match find_peer l p with Some e => pstate_eqb (pst e) Queried | None => false end
  | StopAfterFollowups _ => false      (* no follow-up query has ended while the search runs *)
  end.

Record config := {
  cK : nat; cAlpha : nat; cBeta : nat;
  cSelf : id; cKey : id;
  cTarget : option id;       (* Some t when the key is the peer id t (FindPeer) *)
  cLimit : nat;              (* maxPeersPerIPGroup, 0 = off *)
  cStop : stopspec }.

(* one closer peer of a response: id, does it pass the query filter (on the
   response's addresses plus the peerstore's), its IP groups *)
Record rpeer := { rid : id; rpass : bool; rgroups : list N }.
Inductive outcome :=
| ODialFail
| OReqFail
| OAnswer (closer : list rpeer).

(* filterPeersByIPDiversity *)
Definition memN (x : N) (l : list N) : bool := existsb (N.eqb x) l.
Fixpoint dedupN (l : list N) : list N :=
  match l with
  | [] => []
  | x :: l' => if memN x l' then dedupN l' else x :: dedupN l'
  end.
Definition group_members (g : N) (ps : list rpeer) : list N :=
  dedupN (map rid (filter (fun p => memN g (rgroups p)) ps)).
Definition all_groups (ps : list rpeer) : list N := dedupN (flat_map rgroups ps).
Definition over_groups (limit : nat) (ps : list rpeer) : list N :=
  filter (fun g => Nat.ltb limit (length (group_members g ps))) (all_groups ps).
Definition ip_diversity_filter (limit : nat) (ps : list rpeer) : list rpeer :=
  match limit with
  | O => ps
  | _ => let bad := over_groups limit ps in
         let to_remove := flat_map (fun g => group_members g ps) bad in
         filter (fun p => negb (memN (rid p) to_remove)) ps
  end.

(* queryPeer's processing of a successful response: cap at 2*K, IP diversity,
   drop self, keep the target or what passes the query filter *)
Definition process_response (c : config) (closer : list rpeer) : list id :=
  let capped := firstn (2 * cK c) closer in
  let div := ip_diversity_filter (cLimit c) capped in
  map rid (filter (fun p => negb (N.eqb (rid p) (cSelf c)) &&
                           ((match cTarget c with Some t => N.eqb (rid p) t | None => false end) || rpass p)) div).

(* ---- lookup state ------------------------------------------------------------ *)
Inductive reason := Stopped | Cancelled | Starvation | Completed.
Inductive levent :=
| EvReq (cause p : id)                                    (* request event: waiting = [p] *)
| EvResp (cause : id) (heard queried unreach : list id)   (* response event *)
| EvTerm (r : reason).

(* projections of the published event log *)
Definition resp_heard (evs : list levent) : list id :=
  flat_map (fun e => match e with EvResp _ h _ _ => h | _ => [] end) evs.
Definition resp_queried (evs : list levent) : list id :=
  flat_map (fun e => match e with EvResp _ _ q _ => q | _ => [] end) evs.
Definition resp_failed (evs : list levent) : list id :=
  flat_map (fun e => match e with EvResp _ _ _ u => u | _ => [] end) evs.
Definition req_peers (evs : list levent) : list id :=
  flat_map (fun e => match e with EvReq _ p => [p] | _ => [] end) evs.
Definition is_term (e : levent) : bool := match e with EvTerm _ => true | _ => false end.

Record lstate := {
  ps : list pentry;
  term : option reason;
  evlog : list levent;   (* published lookup events, oldest first *)
  reqs : list id }.      (* requests spawned by the search phase, oldest first *)

Record update := { ucause : id; uheard : list id; uqueried : list id; uunreach : list id }.

Definition log_ev (s : lstate) (e : levent) : lstate :=
  {| ps := ps s; term := term s; evlog := evlog s ++ [e]; reqs := reqs s |}.
Definition with_ps (s : lstate) (l : list pentry) : lstate :=
  {| ps := l; term := term s; evlog := evlog s; reqs := reqs s |}.

(* transition of a peer out of Waiting; anything else is the "kademlia protocol error" panic *)
Definition leave_waiting (c : config) (l : list pentry) (p : id) (to : pstate) : res (list pentry) :=
  if N.eqb p (cSelf c) then Ok l else
  st <- get_state l p ;;
  match st with
  | Waiting => set_state l p to
  | _ => Panic "kademlia protocol error: transition from a state other than waiting"
  end.

Fixpoint leave_waiting_all (c : config) (l : list pentry) (ps : list id) (to : pstate) : res (list pentry) :=
  match ps with
  | [] => Ok l
  | p :: rest => l' <- leave_waiting c l p to ;; leave_waiting_all c l' rest to
  end.

(* updateState *)
Definition update_state (c : config) (s : lstate) (u : update) : res lstate :=
  match term s with
  | Some _ => Panic "update should not be invoked after the logical lookup termination"
  | None =>
      let s1 := log_ev s (EvResp (ucause u) (uheard u) (uqueried u) (uunreach u)) in
      let l1 := fold_left (fun l p => if N.eqb p (cSelf c) then l else try_add l p (ucause u)) (uheard u) (ps s1) in
      l2 <- leave_waiting_all c l1 (uqueried u) Queried ;;
      l3 <- leave_waiting_all c l2 (uunreach u) Unreachable ;;
      Ok (with_ps s1 l3)
  end.

Definition live : list pstate := [Heard; Waiting; Queried].

(* isStarvationTermination / isLookupTermination *)
Definition starvation (l : list pentry) : bool :=
  Nat.eqb (num_in_state Heard l) 0 && Nat.eqb (num_in_state Waiting l) 0.
Definition lookup_termination (c : config) (l : list pentry) : bool :=
  let top := firstn (cBeta c) (closest_in_states (cKey c) live l) in
  forallb (fun p => match find_peer l p with Some e => pstate_eqb (pst e) Queried | None => false end) top.

(* terminate: sticky *)
Definition terminate (s : lstate) (r : reason) : lstate :=
  match term s with
  | Some _ => s
  | None => let s1 := log_ev s (EvTerm r) in
            {| ps := ps s1; term := Some r; evlog := evlog s1; reqs := reqs s1 |}
  end.

(* spawnQuery *)
Definition spawn (s : lstate) (cause p : id) : res lstate :=
  let s1 := log_ev s (EvReq cause p) in
  l <- set_state (ps s1) p Waiting ;;
  Ok {| ps := l; term := term s1; evlog := evlog s1; reqs := reqs s1 ++ [p] |}.
Fixpoint spawn_all (s : lstate) (cause : id) (l : list id) : res lstate :=
  match l with
  | [] => Ok s
  | p :: rest => s' <- spawn s cause p ;; spawn_all s' cause rest
  end.

(* the part of one iteration of run() after the select *)
Definition after_select (c : config) (s : lstate) (cause : id) : res lstate :=
  let max_spawn := (Z.of_nat (cAlpha c) - Z.of_nat (num_in_state Waiting (ps s)))%Z in
  if stop_fn (cStop c) (ps s) then Ok (terminate s Stopped)
  else if starvation (ps s) then Ok (terminate s Starvation)
  else if lookup_termination c (ps s) then Ok (terminate s Completed)
  else
    to_query <- closest_n_in_states (cKey c) max_spawn [Heard] (ps s) ;;
    match term s with
    | Some _ => Ok s
    | None => spawn_all s cause to_query
    end.

Inductive event := Arrive (p : id) | Cancel.

Definition update_of (c : config) (env : id -> outcome) (p : id) : update :=
  match env p with
  | OAnswer closer => {| ucause := p; uheard := process_response c closer; uqueried := [p]; uunreach := [] |}
  | _ => {| ucause := p; uheard := []; uqueried := []; uunreach := [p] |}
  end.

(* one iteration of the run loop; None = the event cannot happen (p not in flight / loop has returned) *)
Definition step (c : config) (env : id -> outcome) (s : lstate) (e : event) : option (res lstate) :=
  match term s with
  | Some _ => None
  | None =>
      match e with
      | Cancel => Some (after_select c (terminate s Cancelled) (cSelf c))
      | Arrive p =>
          match find_peer (ps s) p with
          | Some en => if pstate_eqb (pst en) Waiting
                       then Some (s1 <- update_state c s (update_of c env p) ;; after_select c s1 p)
                       else None
          | None => None
          end
      end
  end.

Definition lstate0 : lstate := {| ps := []; term := None; evlog := []; reqs := [] |}.

(* the first iteration: the seed update {cause: self, heard: seeds} *)
Definition start (c : config) (seeds : list id) : res lstate :=
  s1 <- update_state c lstate0 {| ucause := cSelf c; uheard := seeds; uqueried := []; uunreach := [] |} ;;
  after_select c s1 (cSelf c).

Inductive runres :=
| RDone (s : lstate)            (* run() returned *)
| RPending (s : lstate)         (* events exhausted before termination *)
| RBadEvent (s : lstate) (e : event)
| RPanic (why : string).

Fixpoint run_events (c : config) (env : id -> outcome) (s : lstate) (evs : list event) : runres :=
  match term s with
  | Some _ => RDone s
  | None =>
      match evs with
      | [] => RPending s
      | e :: rest =>
          match step c env s e with
          | None => RBadEvent s e
          | Some (Ok s') => run_events c env s' rest
          | Some (Panic w) => RPanic w
          | Some (Blocked w) => RPanic w
          end
      end
  end.

Definition run_search (c : config) (env : id -> outcome) (seeds : list id) (evs : list event) : runres :=
  match start c seeds with
  | Ok s => run_events c env s evs
  | Panic w => RPanic w
  | Blocked w => RPanic w
  end.

(* ---- constructLookupResult and the follow-up ---------------------------------- *)
Record lresult := {
  r_peers : list id;             (* top K not unreachable *)
  r_states : list pstate;
  r_closest : list id;           (* top K including unreachable *)
  r_completed : bool }.

Definition construct_result (c : config) (s : lstate) : lresult :=
  let peers := firstn (cK c) (closest_in_states (cKey c) live (ps s)) in
  {| r_peers := peers;
     r_states := map (fun p => match find_peer (ps s) p with Some e => pst e | None => Heard end) peers;
     r_closest := firstn (cK c) (closest_in_states (cKey c) [Heard; Waiting; Queried; Unreachable] (ps s));
     r_completed := lookup_termination c (ps s) || starvation (ps s) |}.

(* the peers the follow-up queries: result members still Heard or Waiting *)
Definition followup_peers (c : config) (s : lstate) : list id :=
  let r := construct_result c s in
  map fst (filter (fun ps => match snd ps with Heard | Waiting => true | _ => false end)
                  (combine (r_peers r) (r_states r))).

(* runLookupWithFollowup after the search: [cancelled_before] = ctx already
   done when the search returned; [n_done] follow-up completions are received
   before the context is cancelled (None = never cancelled).  The stop function
   is evaluated on the final peerset, which the follow-up does not modify. *)
Definition followup (c : config) (s : lstate) (cancelled_before : bool) (cancel_after : option nat)
  : lresult * list id (* follow-up requests issued *) :=
  let r := construct_result c s in
  let fp := followup_peers c s in
  match fp with
  | [] => (r, [])
  | _ =>
      if cancelled_before || stop_fn (cStop c) (ps s)
      then ({| r_peers := r_peers r; r_states := r_states r; r_closest := r_closest r; r_completed := false |}, [])
      else
        let n := length fp in
        let interrupted :=
          match cancel_after with
          | Some k => Nat.ltb k n
          | None => false
          end in
        (* stop_fn was false above and the peerset no longer changes, so only the context can interrupt *)
        ({| r_peers := r_peers r; r_states := r_states r; r_closest := r_closest r;
            r_completed := if interrupted then false else r_completed r |}, fp)
  end.

(* ---- honest networks (the hypothesis of C02) ------------------------------------------ *)
Fixpoint ins_dist (key x : N) (l : list N) : list N :=
  match l with
  | [] => [x]
  | y :: l' => if N.leb (dist key x) (dist key y) then x :: l else y :: ins_dist key x l'
  end.
Definition sort_dist (key : N) (l : list N) : list N := fold_right (ins_dist key) [] l.

(* an honest peer answers with the K nearest peers it knows *)
Definition honest_answer (K : nat) (key : id) (known : list id) : list rpeer :=
  map (fun p => {| rid := p; rpass := true; rgroups := [] |}) (firstn K (sort_dist key known)).
Definition honest_env (c : config) (knows : id -> list id) : id -> outcome :=
  fun p => OAnswer (honest_answer (cK c) (cKey c) (knows p)).

(* the members of U in the same k-bucket of p as x *)
Definition bucket_of (U : list id) (p x : id) : list id :=
  filter (fun y => negb (N.eqb y p) && N.eqb (N.log2 (N.lxor p y)) (N.log2 (N.lxor p x))) U.

(* lookup.go: the network-size estimator and the bucket refresh stamp are only
   touched when the context is alive and the lookup completed *)
Definition gcp_side_effects (ctx_err : bool) (r : lresult) : bool := negb ctx_err && r_completed r.
