(* Model of records/providers_manager.go (ProviderManager) and records/provider_set.go,
   plus the store decision of handlers.go:handleAddProvider.  Definitions only.

   Abstractions (what is NOT in the model):
   - keys and peers are identities (N); the datastore key of a row is the pair
     (key, peer) -- mkProvKeyFor/base32/ds.NewKey cleaning and go-datastore's
     path-boundary prefix query are trusted to be injective on non-empty keys
     and peers (validated by the correspondence run, which uses keys that are
     byte-prefixes of each other);
   - a datastore value is [Some t] (a varint that readTimeValue decodes to t) or
     [None] (undecodable bytes); MapDatastore never returns errors;
   - Go maps (providerSet.set, the datastore) are association lists; their
     iteration order is the list order and GetProviders' shuffle is dropped:
     every observable is compared as a set;
   - the clock is a number of nanoseconds (N).  Go computes now.Sub(t) in signed
     int64; with t <= now or not, and validity >= 0, [validity <? now - t] on N
     (truncated subtraction) decides exactly what `now.Sub(t) > validity` decides;
   - the peerstore (addresses, providerAddrTTL), tracing spans, ctx cancellation
     of GetProviders and datastore errors are not modelled;
   - concurrency: every operation is atomic (AddProvider/GetProviders hold mu for
     their whole datastore access; collectExpired is one step).  The documented
     race of the sweep with a concurrent re-add is therefore outside this model.
     The lock discipline itself (what Close guarantees about calls in flight) is
     modelled in ProvidersClose.v. *)
From Verif.Lib Require Import GoSem Bits.

Definition key := N.
Definition peer := N.
Definition time := N.

Record cfg := { cap : nat;          (* size of the LRU passed with the Cache option *)
                validity : N }.     (* pm.provideValidity, ns *)

(* `now.Sub(t) > provideValidity` / `time.Since(v) > pm.provideValidity`
   (providers_manager.go:287, 338, 425): strict. *)
Definition expired (c : cfg) (nw t : time) : bool := N.ltb (validity c) (nw - t)%N.

(* ---- provider_set.go ---------------------------------------------------- *)
Record pset := { ps_providers : list peer; ps_set : list (peer * time) }.
Definition pset_empty : pset := {| ps_providers := []; ps_set := [] |}.

Definition m_has (p : peer) (l : list (peer * time)) : bool :=
  existsb (fun e => N.eqb (fst e) p) l.
(* ps.set[p] = t *)
Definition m_put (p : peer) (t : time) (l : list (peer * time)) : list (peer * time) :=
  filter (fun e => negb (N.eqb (fst e) p)) l ++ [(p, t)].

(* setVal, provider_set.go:27-34 *)
Definition set_val (ps : pset) (p : peer) (t : time) : pset :=
  {| ps_providers := if m_has p (ps_set ps) then ps_providers ps else ps_providers ps ++ [p];
     ps_set := m_put p t (ps_set ps) |}.

(* ---- the datastore: rows (key, peer) -> value --------------------------- *)
Record row := { r_key : key; r_peer : peer; r_val : option time }.

Definition row_is (k : key) (p : peer) (r : row) : bool :=
  N.eqb (r_key r) k && N.eqb (r_peer r) p.
(* dstore.Put: replaces the row of that datastore key *)
Definition d_put (k : key) (p : peer) (v : option time) (d : list row) : list row :=
  filter (fun r => negb (row_is k p r)) d ++ [{| r_key := k; r_peer := p; r_val := v |}].

(* a row that loadProviderSet / collectExpired delete: undecodable or expired *)
Definition row_dead (c : cfg) (nw : time) (r : row) : bool :=
  match r_val r with
  | None => true
  | Some t => expired c nw t
  end.

(* ---- simplelru.LRU as used by the manager: front of the list = most recent *)
Definition cache := list (key * pset).
Definition lru_find (k : key) (c : cache) : option pset :=
  match find (fun e => N.eqb (fst e) k) c with Some e => Some (snd e) | None => None end.
Definition lru_remove (k : key) (c : cache) : cache :=
  filter (fun e => negb (N.eqb (fst e) k)) c.
(* LRU.Get: MoveToFront.  The value is a *providerSet, so what the callers do
   with it afterwards is an update of the front entry: they pass the new value. *)
Definition lru_touch (k : key) (v : pset) (c : cache) : cache := (k, v) :: lru_remove k c.
(* LRU.Add: existing => move to front and replace; else push front and remove
   the oldest when Len() > size *)
Definition lru_add (size : nat) (k : key) (v : pset) (c : cache) : cache :=
  match lru_find k c with
  | Some _ => (k, v) :: lru_remove k c
  | None => let c' := (k, v) :: c in
            if Nat.ltb size (length c') then removelast c' else c'
  end.

(* ---- the manager --------------------------------------------------------- *)
Record pm := { disk : list row;
               lru : cache;
               stopped : bool;
               now : time;
               jn : nat }.      (* number of datastore calls made so far (the journal) *)

Inductive result :=
| RNone                       (* operation without result *)
| ROk                         (* AddProvider: nil *)
| RClosed                     (* ErrClosed *)
| RProvs (ps : list peer).    (* GetProviders: providers, nil error *)

(* loadProviderSet (310-365): one Query; every row of the key that is
   undecodable or expired is deleted (one Delete each), the others are
   setVal'ed in query order. *)
Definition rows_of (k : key) (d : list row) : list row :=
  filter (fun r => N.eqb (r_key r) k) d.
Definition load_set (c : cfg) (nw : time) (k : key) (d : list row) : pset :=
  fold_left (fun o r => match r_val r with
                        | Some t => if expired c nw t then o else set_val o (r_peer r) t
                        | None => o
                        end) (rows_of k d) pset_empty.
Definition load_disk (c : cfg) (nw : time) (k : key) (d : list row) : list row :=
  filter (fun r => negb (N.eqb (r_key r) k && row_dead c nw r)) d.
Definition load_deleted (c : cfg) (nw : time) (k : key) (d : list row) : nat :=
  length (filter (row_dead c nw) (rows_of k d)).

(* getProviderSetForKey (280-308) *)
Definition get_set (c : cfg) (s : pm) (k : key) : pset * pm :=
  match lru_find k (lru s) with
  | Some ps =>
      let live := filter (fun e => negb (expired c (now s) (snd e))) (ps_set ps) in
      let ps' := {| ps_providers := map fst live; ps_set := live |} in
      (ps', {| disk := disk s; lru := lru_touch k ps' (lru s); stopped := stopped s;
               now := now s; jn := jn s |})
  | None =>
      let out := load_set c (now s) k (disk s) in
      (out, {| disk := load_disk c (now s) k (disk s);
               lru := match ps_providers out with
                      | [] => lru s
                      | _ => lru_add (cap c) k out (lru s)
                      end;
               stopped := stopped s; now := now s;
               jn := jn s + 1 + load_deleted c (now s) k (disk s) |})
  end.

(* GetProviders (233-275) *)
Definition get_providers (c : cfg) (s : pm) (k : key) : pm * result :=
  if stopped s then (s, RClosed)
  else let (ps, s') := get_set c s k in (s', RProvs (ps_providers ps)).

(* AddProvider (189-207) + writeProviderEntry *)
Definition add_provider (s : pm) (k : key) (p : peer) : pm * result :=
  if stopped s then (s, RClosed)
  else ({| disk := d_put k p (Some (now s)) (disk s);
           lru := match lru_find k (lru s) with
                  | Some ps => lru_touch k (set_val ps p (now s)) (lru s)
                  | None => lru s
                  end;
           stopped := stopped s; now := now s; jn := jn s + 1 |}, ROk).

(* collectExpired (406-431): one Query over the whole provider subtree, one
   Delete per dead row; never touches the cache.  Close waits for gcLoop to
   exit (176-183), so no sweep runs on a stopped manager. *)
Definition gc (c : cfg) (s : pm) : pm :=
  if stopped s then s
  else {| disk := filter (fun r => negb (row_dead c (now s) r)) (disk s);
          lru := lru s; stopped := stopped s; now := now s;
          jn := jn s + 1 + length (filter (row_dead c (now s)) (disk s)) |}.

Inductive op :=
| Add (k : key) (p : peer)
| Get (k : key)
| Advance (d : N)
| Gc
| Restart      (* Close, then NewProviderManager on the same datastore *)
| Close.

Definition step (c : cfg) (s : pm) (o : op) : pm * result :=
  match o with
  | Add k p => add_provider s k p
  | Get k => get_providers c s k
  | Advance d => ({| disk := disk s; lru := lru s; stopped := stopped s; now := (now s + d)%N; jn := jn s |}, RNone)
  | Gc => (gc c s, RNone)
  | Restart => ({| disk := disk s; lru := []; stopped := false; now := now s; jn := jn s |}, RNone)
  | Close => ({| disk := disk s; lru := lru s; stopped := true; now := now s; jn := jn s |}, RNone)
  end.

Fixpoint run (c : cfg) (s : pm) (ops : list op) : pm :=
  match ops with
  | [] => s
  | o :: rest => run c (fst (step c s o)) rest
  end.

Fixpoint run_obs (c : cfg) (s : pm) (ops : list op) : list result :=
  match ops with
  | [] => []
  | o :: rest => snd (step c s o) :: run_obs c (fst (step c s o)) rest
  end.

(* A new manager on a datastore that may already hold undecodable rows
   (written by somebody else under the providers prefix). *)
Definition init (t0 : time) (garbage : list (key * peer)) : pm :=
  {| disk := fold_left (fun d kp => d_put (fst kp) (snd kp) None d) garbage [];
     lru := []; stopped := false; now := t0; jn := 0 |}.

(* ---- the specification ---------------------------------------------------- *)
Record spec := { sp_last : key -> peer -> option time;   (* time of the most recent addition *)
                 sp_now : time;
                 sp_stopped : bool }.

Definition spec_step (sp : spec) (o : op) : spec :=
  match o with
  | Add k p =>
      if sp_stopped sp then sp
      else {| sp_last := fun k' p' => if N.eqb k' k && N.eqb p' p then Some (sp_now sp) else sp_last sp k' p';
              sp_now := sp_now sp; sp_stopped := false |}
  | Advance d => {| sp_last := sp_last sp; sp_now := (sp_now sp + d)%N; sp_stopped := sp_stopped sp |}
  | Restart => {| sp_last := sp_last sp; sp_now := sp_now sp; sp_stopped := false |}
  | Close => {| sp_last := sp_last sp; sp_now := sp_now sp; sp_stopped := true |}
  | Get _ | Gc => sp
  end.
Definition spec_run (sp : spec) (ops : list op) : spec := fold_left spec_step ops sp.
Definition spec0 (t0 : time) : spec := {| sp_last := fun _ _ => None; sp_now := t0; sp_stopped := false |}.

(* p is a provider of k that must be served: added, and the validity period has
   not elapsed since the most recent addition *)
Definition spec_serves (c : cfg) (sp : spec) (k : key) (p : peer) : bool :=
  match sp_last sp k p with
  | Some t => negb (expired c (sp_now sp) t)
  | None => false
  end.

(* ---- handlers.go:handleAddProvider (238-279) as a pure decision ----------- *)
(* A provider entry of the message: its id and its decoded addresses. *)
Record pinfo := { pi_id : peer; pi_addrs : list N }.

(* the AddProvider calls the handler makes, in order: (peer, filtered addrs) *)
Definition gate_calls (filt : N -> bool) (sender : peer) (pis : list pinfo) : list (peer * list N) :=
  map (fun pi => (pi_id pi, filter filt (pi_addrs pi)))
      (filter (fun pi => N.eqb (pi_id pi) sender && negb (Nat.ltb (length (pi_addrs pi)) 1)) pis).

Inductive gate_result :=
| GKeyTooLarge | GKeyEmpty | GNoValidProvider | GStored.

(* [store_ok]: whether providerStore.AddProvider succeeds (it fails with
   ErrClosed on a closed store); the returned list is what was stored. *)
Definition handle_add_provider (filt : N -> bool) (store_ok : bool) (sender : peer) (keylen : nat) (pis : list pinfo)
  : gate_result * list (peer * list N) :=
  if Nat.ltb 80 keylen then (GKeyTooLarge, [])
  else if Nat.eqb keylen 0 then (GKeyEmpty, [])
  else match gate_calls filt sender pis with
       | [] => (GNoValidProvider, [])
       | calls => if store_ok then (GStored, calls) else (GNoValidProvider, [])
       end.
