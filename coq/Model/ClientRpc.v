(* Model of the client side of the DHT RPCs (C10).  Definitions only.

   Transcribed access by access from
     pb/protocol_messenger.go   PutValue, GetValue, GetClosestPeers, PutProviderAddrs,
                                GetProviders, Ping
     query.go:419-500           queryPeer: what a response's closer peers become
     internal/net/message_manager.go:269-347
                                peerMessageSender.SendRequest, ctxReadMsg
   A generated protobuf getter (GetRecord, GetCloserPeers, GetValue, GetKey...) is
   nil-safe; a direct field read through a pointer (resp.Type, pbp.Id) is
   [deref] and panics on nil.

   Abstracted: byte strings to (tag, length) (Model/PeerRecord.v); tracing spans
   and logging dropped; the MessageSender is a scripted [reply]; virtual time in
   nanoseconds; opening a stream and writing take no virtual time. *)
From Verif.Lib Require Import GoSem Bits.
From Verif.Gen Require Import Consts Dispatch.
From Verif.Model Require Import PeerRecord.
Local Open Scope Z_scope.

(* recpb.Record: key, value *)
Record arecord := { r_key : bstr; r_value : bstr }.

(* pb.Message as received: every sub-message is optional, the type is an open
   enum.  The Key and ClusterLevelRaw of a response are never read by the client
   and are left out (the harness still varies them). *)
Record amsg := {
  m_type : Z;
  m_record : option arecord;
  m_closer : list (option apeer);
  m_provs : list (option apeer)
}.

(* what MessageSender.SendRequest returned: (nil, err) or (rpmes, nil).  The
   real sender returns a non-nil message with a nil error (message_manager.go:
   `mes := new(pb.Message)`); [RMsg None] is a custom sender's (nil, nil). *)
Inductive reply := RErr | RMsg (m : option amsg).

(* what the real sender can hand to a ProtocolMessenger method: an error, or a
   non-nil message decoded by proto.Unmarshal (no nil element in a repeated field) *)
Definition wire_msg (m : amsg) : bool := all_some (m_closer m) && all_some (m_provs m).
Definition wire_reply (rp : reply) : bool :=
  match rp with RErr => true | RMsg (Some m) => wire_msg m | RMsg None => false end.

(* nil-safe getters *)
Definition get_record (m : option amsg) : option arecord :=
  match m with Some m => m_record m | None => None end.
Definition get_closer (m : option amsg) : list (option apeer) :=
  match m with Some m => m_closer m | None => [] end.
Definition get_provs (m : option amsg) : list (option apeer) :=
  match m with Some m => m_provs m | None => [] end.
Definition rec_get_value (r : option arecord) : bstr :=
  match r with Some r => r_value r | None => bempty end.
Definition rec_get_key (r : option arecord) : bstr :=
  match r with Some r => r_key r | None => bempty end.

(* error classes of the client RPCs *)
Inductive cerr :=
| ESend            (* the sender's error, passed through (Ping wraps it) *)
| ENotPut          (* "value not put correctly" *)
| EBadRecord       (* internal.ErrIncorrectRecord *)
| EPingType        (* "got unexpected response type" *)
| ENoSelfAddrs     (* "no known addresses for self, cannot put provider" *)
| EOther.          (* never produced by the model: an error the harness could not classify *)

(* PutValue (protocol_messenger.go:65-94).  [rec] is the caller's record (non-nil:
   API precondition, `rec.Key` is read before anything is sent).
     if !bytes.Equal(rpmes.GetRecord().GetValue(), pmes.GetRecord().GetValue()) *)
Definition put_value (rec : arecord) (rp : reply) : res (option cerr) :=
  match rp with
  | RErr => Ok (Some ESend)
  | RMsg rm =>
      if bstr_eqb (rec_get_value (get_record rm)) (rec_get_value (Some rec))
      then Ok None else Ok (Some ENotPut)
  end.

Inductive gv_result :=
| GVErr (e : cerr)
| GV (rec : option arecord) (peers : list ainfo).

(* GetValue (protocol_messenger.go:98-146) *)
Definition get_value (key : bstr) (rp : reply) : res gv_result :=
  match rp with
  | RErr => Ok (GVErr ESend)
  | RMsg rm =>
      peers <- pb_peers_to_infos (get_closer rm) ;;
      match get_record rm with
      | Some rec =>
          if bstr_eqb key (rec_get_key (Some rec)) then Ok (GV (Some rec) peers)
          else Ok (GVErr EBadRecord)
      | None => Ok (GV None peers)
      end
  end.

Inductive peers_result :=
| PErr (e : cerr)
| PPeers (l : list ainfo).

(* GetClosestPeers (protocol_messenger.go:151-177) *)
Definition get_closest_peers (rp : reply) : res peers_result :=
  match rp with
  | RErr => Ok (PErr ESend)
  | RMsg rm => peers <- pb_peers_to_infos (get_closer rm) ;; Ok (PPeers peers)
  end.

Inductive provs_result :=
| VErr (e : cerr)
| VProvs (provs closer : list ainfo).

(* GetProviders (protocol_messenger.go:217-249): provider peers are converted first *)
Definition get_providers (rp : reply) : res provs_result :=
  match rp with
  | RErr => Ok (VErr ESend)
  | RMsg rm =>
      provs <- pb_peers_to_infos (get_provs rm) ;;
      closer <- pb_peers_to_infos (get_closer rm) ;;
      Ok (VProvs provs closer)
  end.

(* Ping (protocol_messenger.go:252-274): `resp.Type` is a direct field read *)
(* Message_PING: Gen/Dispatch.v, from pb/dht.pb.go *)
Definition ping (rp : reply) : res (option cerr) :=
  match rp with
  | RErr => Ok (Some ESend)
  | RMsg rm =>
      m <- deref rm "resp.Type: nil *Message" ;;
      if m_type m =? Message_PING then Ok None else Ok (Some EPingType)
  end.

(* PutProviderAddrs (protocol_messenger.go:188-213): no response is read at all *)
Definition put_provider (self_addrs : nat) (send_ok : bool) : res (option cerr) :=
  if (self_addrs <? 1)%nat then Ok (Some ENoSelfAddrs)
  else if send_ok then Ok None else Ok (Some ESend).

(* ---- queryPeer: which peers of one response enter the lookup ------------- *)
(* if maxCloserPeers := 2 * q.dht.bucketSize; len(newPeers) > maxCloserPeers {
       newPeers = newPeers[:maxCloserPeers] } *)
Definition closer_cap_factor : nat := 2.
Definition cap_closer (K : nat) (l : list ainfo) : list ainfo :=
  if (closer_cap_factor * K <? length l)%nat then firstn (closer_cap_factor * K) l else l.

(* [div]: filterPeersByIPDiversity removes the peers of over-represented IP
   groups (None: no diversity filter configured, maxPeersPerIPGroup = 0).
   [qfilter]: dht.queryPeerFilter; the target of the query passes regardless.
   Result: the `heard` list of the queryUpdate. *)
Definition process_response (K : nat) (self target : bstr) (qfilter : ainfo -> bool)
           (div : option (ainfo -> bool)) (l : list ainfo) : list bstr :=
  let l1 := cap_closer K l in
  let l2 := match div with Some rm => filter (fun n => negb (rm n)) l1 | None => l1 end in
  map ai_id
      (filter (fun n => negb (bstr_eqb (ai_id n) self)
                        && (bstr_eqb (ai_id n) target || qfilter n)) l2).

(* filterPeersByIPDiversity (rt_diversity_filter.go:114-164), called with
   q.maxPeersPerIPGroup = the routing-table diversity filter's maxForTable
   (query.go:187-194), 0 when no filter is configured.
   [gm]: the IP group of an address (manet.ToIP + peerdiversity.IPGroupKey, library
   code outside the repository: an oracle), None when the address has no IP or
   no group.  A group is over-represented when more than [limit] distinct peer
   ids have an address in it; every entry whose id is among the peers of an
   over-represented group is removed. *)
Definition id_tag (n : ainfo) : N := b_tag (ai_id n).
Definition peer_groups (gm : addr -> option N) (n : ainfo) : list N :=
  flat_map (fun a => match gm a with Some g => [g] | None => [] end) (ai_addrs n).
Definition in_group (gm : addr -> option N) (g : N) (n : ainfo) : bool :=
  existsb (N.eqb g) (peer_groups gm n).
Definition group_size (gm : addr -> option N) (l : list ainfo) (g : N) : nat :=
  length (nodup N.eq_dec (map id_tag (filter (in_group gm g) l))).
Definition over_group (gm : addr -> option N) (limit : nat) (l : list ainfo) (g : N) : bool :=
  (limit <? group_size gm l g)%nat.
Definition to_remove (gm : addr -> option N) (limit : nat) (l : list ainfo) : list N :=
  map id_tag (filter (fun n => existsb (over_group gm limit l) (peer_groups gm n)) l).
Definition removed_by (gm : addr -> option N) (limit : nat) (l : list ainfo) (n : ainfo) : bool :=
  existsb (N.eqb (id_tag n)) (to_remove gm limit l).
Definition filter_diversity (gm : addr -> option N) (limit : nat) (l : list ainfo) : list ainfo :=
  match limit with O => l | _ => filter (fun n => negb (removed_by gm limit l n)) l end.
(* the [div] argument of [process_response] for a configured limit: the filter
   sees the capped list *)
Definition diversity (gm : addr -> option N) (limit : nat) (K : nat) (l : list ainfo)
  : option (ainfo -> bool) :=
  match limit with O => None | _ => Some (removed_by gm limit (cap_closer K l)) end.

(* a lookup step for the three kinds of query function: the closer peers of the
   RPC result are what queryPeer receives; an RPC error marks the peer
   unreachable and nothing is heard *)
Definition lookup_heard_div (K : nat) (self target : bstr) (qfilter : ainfo -> bool)
           (gm : addr -> option N) (limit : nat) (rp : reply) : res (option (list bstr)) :=
  r <- get_closest_peers rp ;;
  match r with
  | PErr _ => Ok None
  | PPeers l => Ok (Some (process_response K self target qfilter (diversity gm limit K l) l))
  end.
Definition lookup_heard (K : nat) (self target : bstr) (qfilter : ainfo -> bool)
           (rp : reply) : res (option (list bstr)) :=
  lookup_heard_div K self target qfilter (fun _ => None) 0 rp.

(* ---- the request/response exchange on a stream -------------------------- *)
(* what happens on the stream after the request was written *)
Inductive read_ev :=
| RdMsg (m : amsg)     (* a length-prefixed frame that proto.Unmarshal accepts *)
| RdGarbage            (* a frame that proto.Unmarshal rejects *)
| RdFail               (* read error: reset, EOF, frame longer than MessageSizeMax *)
| RdSilent.            (* nothing ever arrives *)

(* one pass of the `for` loop: prep (open a stream unless one is kept), write, read *)
Record attempt := { at_prep : bool; at_write : bool; at_read : read_ev }.

Inductive sr_err :=
| SPrep | SWrite | SUnmarshal | SRead | SReadTimeout | SCanceled | SOutOfFuel.

(* select { case err := <-errc; case <-ctx.Done(); case <-t.C }: the case that
   becomes ready first wins; a select none of whose cases ever becomes ready
   blocks forever.  Each argument: None = never ready, Some t = ready at t. *)
Definition select3 {A} (c1 c2 c3 : option (Z * A)) : res (Z * A) :=
  let pick (a b : option (Z * A)) :=
    match a, b with
    | Some (t, x), Some (u, y) => if u <? t then Some (u, y) else Some (t, x)
    | Some x, None => Some x
    | None, b => b
    end in
  match pick (pick c1 c2) c3 with
  | Some r => Ok r
  | None => Blocked "select: no case can ever be ready"
  end.

(* ctxReadMsg (message_manager.go:316-343): result and the time it took.
   [cancel]: the context is cancelled that long after the read starts. *)
Definition ctx_read_msg (cancel : option Z) (r : read_ev) : res (Z * (sr_err + amsg)) :=
  select3
    (match r with
     | RdMsg m => Some (0, inr m)
     | RdGarbage => Some (0, inl SUnmarshal)
     | RdFail => Some (0, inl SRead)
     | RdSilent => None
     end)
    (match cancel with Some c => Some (c, inl SCanceled) | None => None end)
    (Some (dhtReadMessageTimeout, inl SReadTimeout)).

Record sr_result := { sr_out : sr_err + amsg; sr_time : Z; sr_attempts : nat }.

(* peerMessageSender.SendRequest (message_manager.go:269-314).  [script n] is what
   the transport/remote does on the n-th pass of the loop.  [cancel]: absolute
   virtual time at which the caller's context is cancelled. *)
Fixpoint send_request (fuel : nat) (retry : bool) (n : nat) (now : Z) (cancel : option Z)
         (script : nat -> attempt) : res sr_result :=
  match fuel with
  | O => Ok {| sr_out := inl SOutOfFuel; sr_time := now; sr_attempts := n |}
  | S fuel' =>
      let a := script n in
      if negb (at_prep a) then Ok {| sr_out := inl SPrep; sr_time := now; sr_attempts := S n |}
      else if negb (at_write a) then
        if retry then Ok {| sr_out := inl SWrite; sr_time := now; sr_attempts := S n |}
        else send_request fuel' true (S n) now cancel script
      else
        rd <- ctx_read_msg (match cancel with Some c => Some (Z.max 0 (c - now)) | None => None end)
                           (at_read a) ;;
        let (dt, out) := rd in
        match out with
        | inr m => Ok {| sr_out := inr m; sr_time := now + dt; sr_attempts := S n |}
        | inl e =>
            match e with
            | SCanceled => Ok {| sr_out := inl e; sr_time := now + dt; sr_attempts := S n |}
            | _ => if retry then Ok {| sr_out := inl e; sr_time := now + dt; sr_attempts := S n |}
                   else send_request fuel' true (S n) (now + dt) cancel script
            end
        end
  end.

(* the reply a ProtocolMessenger method sees *)
Definition reply_of (r : sr_result) : reply :=
  match sr_out r with inr m => RMsg (Some m) | inl _ => RErr end.

(* ---- all client RPCs behind one entry point ----------------------------- *)
Inductive rpc :=
| CPut (rec : arecord)
| CGetValue (key : bstr)
| CClosest
| CProviders
| CPing
| CPutProvider (self_addrs : nat) (send_ok : bool).

Inductive rpc_out :=
| OErr (e : cerr)
| ODone
| OValue (rec : option arecord) (peers : list ainfo)
| OPeers (peers : list ainfo)
| OProvs (provs closer : list ainfo).

Definition out_of_err (o : option cerr) : rpc_out :=
  match o with Some e => OErr e | None => ODone end.

Definition run_rpc (c : rpc) (rp : reply) : res rpc_out :=
  match c with
  | CPut rec => o <- put_value rec rp ;; Ok (out_of_err o)
  | CGetValue key =>
      r <- get_value key rp ;;
      Ok (match r with GVErr e => OErr e | GV rec peers => OValue rec peers end)
  | CClosest =>
      r <- get_closest_peers rp ;;
      Ok (match r with PErr e => OErr e | PPeers l => OPeers l end)
  | CProviders =>
      r <- get_providers rp ;;
      Ok (match r with VErr e => OErr e | VProvs p c => OProvs p c end)
  | CPing => o <- ping rp ;; Ok (out_of_err o)
  | CPutProvider n ok => o <- put_provider n ok ;; Ok (out_of_err o)
  end.

(* every peer.AddrInfo an RPC hands to its caller *)
Definition infos_of (o : rpc_out) : list ainfo :=
  match o with
  | OValue _ peers => peers
  | OPeers peers => peers
  | OProvs provs closer => provs ++ closer
  | _ => []
  end.

(* an RPC over the real sender: two passes of the loop at most are needed *)
Definition rpc_over_stream (c : rpc) (cancel : option Z) (script : nat -> attempt)
  : res (rpc_out * sr_result) :=
  r <- send_request 2 false 0 0 cancel script ;;
  o <- run_rpc c (reply_of r) ;;
  Ok (o, r).
