(* Model of the value lookup path: routing.go GetValue / SearchValue /
   searchValueQuorum / processValues / getValues, pb/protocol_messenger.go
   GetValue (record acceptance), fullrt/dht.go (same functions of the
   accelerated client), dual/dual.go GetValue / SearchValue (through
   go-libp2p-routing-helpers Parallel.SearchValue), records.go GetPublicKey.
   Definitions only.

   What is modelled: the decision logic applied to the stream of answers.  The
   lookup that decides which peers are asked, and in which order their answers
   arrive, is an input: [resps] is the list of answers in the order in which
   they were delivered to the query function (every order is a possible input).
   Abstractions: keys, values and peers are opaque numbers ([N]); a value is
   never the nil slice once accepted (the code drops nil values of remote
   records; a locally stored value was non-nil when it was validated);
   context cancellation is not modelled (a search that is cancelled yields a
   prefix of what is described here). *)
From Verif.Lib Require Import GoSem Bits.
Local Open Scope N_scope.

Definition vkey := N.
Definition val := N.
Definition peer := N.

(* what a responder put in its GET_VALUE reply *)
Inductive resp :=
| RespErr                                  (* the request failed *)
| RespNoRec                                (* a reply without record *)
| RespRec (rk : vkey) (v : option val).    (* a record: embedded key, value (None = nil) *)

(* what the query function makes of it *)
Inductive rpc :=
| RpcError        (* SendRequest failed, or internal.ErrIncorrectRecord *)
| RpcNoValue      (* nothing enters the search *)
| RpcValue (v : val).

Section Search.
Variable valid : vkey -> val -> bool.                (* Validator.Validate(key, v) == nil *)
Variable sel : vkey -> val -> val -> option nat.     (* Validator.Select(key, [a; b]) = (index, err) *)
Variable k : vkey.                                   (* the requested key *)

(* protocol_messenger.go:125-137 then routing.go:333-350 (fullrt/dht.go:881-902):
   a record for another key is an RPC error; a nil value or a value the
   validator rejects is dropped *)
Definition accept (r : resp) : rpc :=
  match r with
  | RespErr => RpcError
  | RespNoRec => RpcNoValue
  | RespRec rk ov =>
      if N.eqb rk k
      then match ov with
           | None => RpcNoValue
           | Some v => if valid k v then RpcValue v else RpcNoValue
           end
      else RpcError
  end.

Fixpoint remote_arrivals (resps : list (peer * resp)) : list (peer * val) :=
  match resps with
  | [] => []
  | (p, r) :: rest =>
      match accept r with
      | RpcValue v => (p, v) :: remote_arrivals rest
      | _ => remote_arrivals rest
      end
  end.

(* routing.go:293-311: the standard client re-validates the local record;
   fullrt/dht.go getValues: so does the accelerated client (since dea7c9c).
   [local] is what getLocal returned (ValueStore.Get: filed under k, not older
   than the maximum age -- C05). *)
Definition local_std (self : peer) (local : option val) : list (peer * val) :=
  match local with
  | Some v => if valid k v then [(self, v)] else []
  | None => []
  end.
Definition local_fullrt (self : peer) (local : option val) : list (peer * val) :=
  match local with
  | Some v => if valid k v then [(self, v)] else []
  | None => []
  end.

(* processValues + the newVal callback of searchValueQuorum *)
Record pv := {
  pv_best : option val;
  pv_with_best : list peer;     (* peersWithBest *)
  pv_n : nat;                   (* numResponses *)
  pv_out : list val;            (* values sent on the out channel, newest first *)
  pv_aborted : bool }.

Definition pv_init : pv :=
  {| pv_best := None; pv_with_best := []; pv_n := 0; pv_out := []; pv_aborted := false |}.

(* newVal(ctx, v, better) *)
Definition new_val (nvals : nat) (st : pv) (best : option val) (wb : list peer) (v : val) (better : bool) : pv :=
  let n := S (pv_n st) in
  {| pv_best := best; pv_with_best := wb; pv_n := n;
     pv_out := if better then v :: pv_out st else pv_out st;
     pv_aborted := Nat.ltb 0 nvals && Nat.ltb nvals n |}.

(* routing.go:225-265 processValues, fullrt/dht.go:788-829 (the same text).
   Ties: the comparison is Select(key, [best; v]) and only index 1 makes v the
   new best.  A validator that ranks two byte-different values equally returns
   the index of the FIRST of the best-ranked entries (go-libp2p-record: ipns,
   pk, the namespaced validator), i.e. 0 = the current best.  So a value that
   merely ties with the best takes the `sel != 1` branch: it is counted
   (newVal(ctx, v, false): numResponses++ and the quorum test), it is NOT sent
   on the out channel, best and peersWithBest are left as they are -- the
   sender of the tied value is NOT added to peersWithBest (only a
   byte-identical copy is), so it is among the peers that receive the
   corrective put of the best value at the end ([fixup_targets]). *)
Definition pv_step (nvals : nat) (st : pv) (a : peer * val) : pv :=
  if pv_aborted st then st
  else
    let (p, v) := a in
    match pv_best st with
    | Some b =>
        if N.eqb b v then new_val nvals st (Some b) (p :: pv_with_best st) v false
        else match sel k b v with
             | None => st                                   (* `continue`: not even counted *)
             | Some i => if Nat.eqb i 1
                         then new_val nvals st (Some v) [p] v true
                         else new_val nvals st (Some b) (pv_with_best st) v false
             end
    | None => new_val nvals st (Some v) [p] v true
    end.

Definition process_values (nvals : nat) (arrivals : list (peer * val)) : pv :=
  fold_left (pv_step nvals) arrivals pv_init.

(* routing.go:171-191, fullrt/dht.go:737-760: after the search, unless it found
   nothing or was stopped by the quorum, the best value is put to every peer
   of the lookup result ([closest]: the K closest peers the lookup ended with)
   that is not in peersWithBest *)
Definition fixup_targets (closest : list peer) (st : pv) : list peer :=
  match pv_best st with
  | None => []
  | Some _ =>
      if pv_aborted st then []
      else filter (fun p => negb (existsb (N.eqb p) (pv_with_best st))) closest
  end.

(* SearchValue: the values on the returned channel, oldest first *)
Definition search_std (self : peer) (local : option val) (resps : list (peer * resp)) (nvals : nat) : list val :=
  rev (pv_out (process_values nvals (local_std self local ++ remote_arrivals resps))).
Definition search_fullrt (self : peer) (local : option val) (resps : list (peer * resp)) (nvals : nat) : list val :=
  rev (pv_out (process_values nvals (local_fullrt self local ++ remote_arrivals resps))).

(* GetValue: the last value of the stream, or routing.ErrNotFound *)
Definition get_value (stream : list val) : option val := last (map Some stream) None.

(* routing-helpers Parallel.SearchValue: the merge of the sub-routers' streams *)
Definition merge_step (st : option val * list val) (v : val) : option val * list val :=
  let (best, out) := st in
  match best with
  | Some b =>
      match sel k b v with
      | None => st
      | Some i => if Nat.eqb i 1
                  then (if N.eqb b v then st else (Some v, v :: out))
                  else st
      end
  | None => (Some v, v :: out)
  end.
Definition merge (l : list val) : list val := rev (snd (fold_left merge_step l (None, []))).

(* dual.GetValue: the WAN result unless the WAN search failed (the priority that
   property C15 specifies; best-of-both is not claimed for dual.GetValue) *)
Definition dual_get_value (wan lan : option val) : option val :=
  match wan with
  | Some v => Some v
  | None => lan
  end.

End Search.

(* ---- a Select induced by a rank --------------------------------------------------
   The convention of the go-libp2p-record validators: Select returns the index
   of the FIRST entry among those of the highest rank.  On two entries: 1 iff
   the second is ranked strictly higher, 0 otherwise (in particular on a tie). *)
Definition rank_sel (rank : vkey -> val -> N) (kk : vkey) (a b : val) : option nat :=
  Some (if N.ltb (rank kk a) (rank kk b) then 1%nat else 0%nat).

(* ---- GetPublicKey ------------------------------------------------------------- *)
Section PubKey.
Variable H : val -> option peer.       (* peer.IDFromPublicKey (UnmarshalPublicKey v); None: does not unmarshal *)
Variable pk_key : peer -> vkey.        (* routing.KeyForPublicKey *)

(* record.PublicKeyValidator *)
Definition pk_valid (kk : vkey) (v : val) : bool :=
  match H v with
  | Some p => N.eqb kk (pk_key p)
  | None => false
  end.

(* getPublicKeyFromNode: ask the peer itself, check the key against its ID *)
Definition pk_from_node (p : peer) (r : resp) : option val :=
  match r with
  | RespRec rk (Some v) =>
      if N.eqb rk (pk_key p)
      then match H v with
           | Some q => if N.eqb q p then Some v else None
           | None => None
           end
      else None
  | _ => None
  end.

(* getPublicKeyFromDHT: GetValue(pk_key p, Quorum(1)), then unmarshal *)
Definition pk_from_dht (sel : vkey -> val -> val -> option nat) (p self : peer) (local : option val)
    (resps : list (peer * resp)) : option val :=
  match get_value (search_std pk_valid sel (pk_key p) self local resps 1) with
  | Some v => match H v with Some _ => Some v | None => None end
  | None => None
  end.

(* GetPublicKey: whichever of the two finishes first with a key *)
Definition get_public_key (node_first : bool) (a b : option val) : option val :=
  if node_first then match a with Some v => Some v | None => b end
  else match b with Some v => Some v | None => a end.

End PubKey.

(* ---- the validator of the correspondence check -------------------------------------
   value = seq + 2^8 flags + 2^16 expiry; valid while now < expiry and flag bit 0
   is clear; Select fails when flag bit 1 is set on either value; the higher
   sequence number wins, the first argument wins ties.  Flag bits 2-7 (the
   "tag") and the expiry are looked at by neither: values with the same
   sequence number and different tags are byte-different, equally valid and
   ranked equally ([c_rank]). *)
Definition c_rank (kk : vkey) (v : val) : N := v mod 256.
Definition c_seq (v : val) : N := v mod 256.
Definition c_flags (v : val) : N := (v / 256) mod 256.
Definition c_expiry (v : val) : N := v / 65536.
Definition c_valid (now : N) (kk : vkey) (v : val) : bool :=
  negb (N.testbit (c_flags v) 0) && N.ltb now (c_expiry v).
Definition c_sel (kk : vkey) (a b : val) : option nat :=
  if N.testbit (c_flags a) 1 || N.testbit (c_flags b) 1 then None
  else Some (if N.ltb (c_seq a) (c_seq b) then 1%nat else 0%nat).
