(* Model of provider/keystore/keystore.go (type keystore).  Definitions only.

   What is transcribed
     dsKey            keystore.go:144-155   [dkey], [qpath]
     loadSize         keystore.go:261-277   [load]
     persistSize+Close keystore.go:283-287, 613-629  [close_entries]
     put              keystore.go:291-325   [put_scan], [ks_put]
     get              keystore.go:329-353   [ks_get]
     countUpTo        keystore.go:362-393   [ks_count]
     containsPrefix   keystore.go:398-422   [ks_contains]
     empty            keystore.go:425-464   [chunk], [ks_empty]
     delete           keystore.go:467-500   [del_scan], [ks_delete]
     refreshSize      keystore.go:504-513   [refresh_size]
     worker's error handling (size refreshed after a failed put/delete/empty)
                      keystore.go:198-239

   What is abstracted
     * A multihash is [mhk]: an identity [mid] and the bits of its Kademlia
       identifier [mbits] (sha256 of the multihash; modelled, not verified).
       The harness supplies the leading bits only, enough to decide every
       prefix test it provokes.
     * The datastore key "/b0/b1/.../b(pb-1)/<base64 of the remaining bytes>" is
       the pair [KData (first pb bits) id]: the bit path decides which prefix
       queries see the row, the suffix makes the key injective.  decodeKey of
       such a key gives the identifier back, i.e. the [mbits] of the stored
       value.  The size key "/size" is [KSize].
     * The datastore is an association list in insertion order (the harness'
       datastore iterates in insertion order, so even the split of [empty] into
       batches is reproduced); go-datastore's prefix query matches a key iff
       the query path is a component-wise proper prefix ("/" matches all).
     * Durability: the journal [k_j] holds every committed batch / direct write
       in order; [k_synced] is the length of the journal at the last successful
       Sync.  A crash keeps a prefix of the journal not shorter than
       [k_synced] (pebble-like write-ahead semantics; MNV).
     * The worker goroutine and its channel protocol are not modelled: one
       operation at a time, which is what the single worker enforces.
     * Error injection: at most one failing datastore call per operation,
       [fault].  A failing Commit applies nothing (MapDatastore/pebble batches
       are atomic). *)
From Verif.Lib Require Import GoSem Bits.

Record mhk := { mbits : bits; mid : N }.

Inductive skey := KSize | KData (path : bits) (id : N).
Inductive sval := VSize (n : Z) | VKey (k : mhk).
Notation row := (skey * sval)%type (only parsing).
Definition sstore := list row.

Definition skey_eqb (a b : skey) : bool :=
  match a, b with
  | KSize, KSize => true
  | KData p i, KData q j => N.eqb i j && bits_eqb p q
  | _, _ => false
  end.

Inductive wop := WPut (k : skey) (v : sval) | WDel (k : skey).
Definition batch := list wop.

Definition st_get (k : skey) (st : sstore) : option sval :=
  match find (fun r => skey_eqb (fst r) k) st with
  | Some r => Some (snd r)
  | None => None
  end.
Definition st_has (k : skey) (st : sstore) : bool :=
  match st_get k st with Some _ => true | None => false end.
Definition st_del (k : skey) (st : sstore) : sstore :=
  filter (fun r => negb (skey_eqb (fst r) k)) st.
(* map assignment: an existing key keeps its place, a new key goes last *)
Definition st_put (k : skey) (v : sval) (st : sstore) : sstore :=
  if st_has k st
  then map (fun r => if skey_eqb (fst r) k then (k, v) else r) st
  else st ++ [(k, v)].
Definition apply_op (st : sstore) (o : wop) : sstore :=
  match o with WPut k v => st_put k v st | WDel k => st_del k st end.
Definition apply_batch (st : sstore) (b : batch) : sstore := fold_left apply_op b st.
Definition replay (j : list batch) : sstore := fold_left apply_batch j [].

(* dsKey of a full (256-bit) key *)
Definition dkey (pb : nat) (k : mhk) : skey := KData (firstn pb (mbits k)) (mid k).
(* dsKey of a query prefix: only the first min(pb, len) bits, no suffix *)
Definition qpath (pb : nat) (p : bits) : bits := firstn pb p.
Definition long_prefix (pb : nat) (p : bits) : bool := Nat.ltb pb (length p).

(* query.Query{Prefix: dsk}: rows whose key lies under the path *)
Definition row_under (q : bits) (r : row) : bool :=
  match fst r with
  | KSize => match q with [] => true | _ => false end
  | KData path _ => is_prefix q path
  end.
Definition query (q : bits) (st : sstore) : sstore := filter (row_under q) st.

Definition refresh_size (st : sstore) : Z := Z.of_nat (length st).

(* ---- keystore state ---------------------------------------------------- *)
Record kst := { k_j : list batch; k_synced : nat; k_size : Z }.
Definition cur (s : kst) : sstore := replay (k_j s).

Inductive fault := NoFault | FailHas (i : nat) | FailCommit (i : nat) | FailSync.
Definition fails_has (f : fault) (i : nat) : bool :=
  match f with FailHas j => Nat.eqb i j | _ => false end.
Definition fails_commit (f : fault) (i : nat) : bool :=
  match f with FailCommit j => Nat.eqb i j | _ => false end.
Definition fails_sync (f : fault) : bool := match f with FailSync => true | _ => false end.

(* journal policy shared with the harness: a Commit of an empty batch is not
   recorded *)
Definition jappend (j : list batch) (b : batch) : list batch :=
  match b with [] => j | _ => j ++ [b] end.

Definition sync_if (ok : bool) (j : list batch) (old : nat) : nat :=
  if ok then length j else old.

(* loadSize on a store whose journal is [j] (everything in [j] is durable or
   not as [synced] says): the stored size is trusted when present and 8 bytes
   long; the size key is deleted in both branches, without a Sync. *)
Definition load (j : list batch) (synced : nat) : kst :=
  let st := replay j in
  match st_get KSize st with
  | Some (VSize n) =>
      {| k_j := j ++ [[WDel KSize]]; k_synced := synced; k_size := n |}
  | _ =>
      let j' := j ++ [[WDel KSize]] in
      {| k_j := j'; k_synced := synced; k_size := refresh_size (replay j') |}
  end.

Definition ks_new : kst := load [] 0.

(* Close: persistSize then Sync(sizeKey); followed by NewKeystore on the same
   datastore *)
Definition ks_restart (s : kst) : kst :=
  let j := k_j s ++ [[WPut KSize (VSize (k_size s))]] in
  load j (length j).

(* crash: the last [back] journal entries are lost (the caller only asks for
   entries that were not yet synced when the crash happened), what survives is
   on disk; then NewKeystore *)
Definition ks_crash (s : kst) (back : nat) : kst :=
  let j := firstn (length (k_j s) - back) (k_j s) in
  load j (length j).

Definition mem_N (x : N) (l : list N) : bool := existsb (N.eqb x) l.

(* the loop of put: dedup on the multihash bytes (`seen`, keyed by string(h)), Has on the datastore (not on the
   batch), batch.Put of the absent ones.  None = a Has call failed. *)
Fixpoint put_scan (pb : nat) (st : sstore) (f : fault) (keys : list mhk) (seen : list N) (nhas : nat)
  : option (batch * list mhk) :=
  match keys with
  | [] => Some ([], [])
  | k :: rest =>
      if mem_N (mid k) seen then put_scan pb st f rest seen nhas
      else if fails_has f nhas then None
      else match put_scan pb st f rest (mid k :: seen) (S nhas) with
           | None => None
           | Some (b, nw) =>
               if st_has (dkey pb k) st then Some (b, nw)
               else Some (WPut (dkey pb k) (VKey k) :: b, k :: nw)
           end
  end.

(* the loop of delete: removedCount is the length of the batch *)
Fixpoint del_scan (pb : nat) (st : sstore) (f : fault) (keys : list mhk) (seen : list N) (nhas : nat)
  : option batch :=
  match keys with
  | [] => Some []
  | k :: rest =>
      if mem_N (mid k) seen then del_scan pb st f rest seen nhas
      else if fails_has f nhas then None
      else match del_scan pb st f rest (mid k :: seen) (S nhas) with
           | None => None
           | Some b => if st_has (dkey pb k) st then Some (WDel (dkey pb k) :: b) else Some b
           end
  end.

(* results of the mutating operations: None = the operation returned an error *)
Definition with_size (s : kst) (z : Z) : kst :=
  {| k_j := k_j s; k_synced := k_synced s; k_size := z |}.

(* Keystore.Put (len(keys) = 0 returns before reaching the worker) *)
Definition ks_put (pb : nat) (s : kst) (keys : list mhk) (f : fault) : kst * option (list mhk) :=
  match keys with
  | [] => (s, Some [])
  | _ =>
      match put_scan pb (cur s) f keys [] 0 with
      | None => (with_size s (refresh_size (cur s)), None)
      | Some (b, nw) =>
          if fails_commit f 0 then (with_size s (refresh_size (cur s)), None)
          else
            let j := jappend (k_j s) b in
            ({| k_j := j; k_synced := sync_if (negb (fails_sync f)) j (k_synced s);
                k_size := k_size s + Z.of_nat (length nw) |}, Some nw)
      end
  end.

Definition ks_delete (pb : nat) (s : kst) (keys : list mhk) (f : fault) : kst * bool :=
  match keys with
  | [] => (s, true)
  | _ =>
      match del_scan pb (cur s) f keys [] 0 with
      | None => (with_size s (refresh_size (cur s)), false)
      | Some b =>
          if fails_commit f 0 then (with_size s (refresh_size (cur s)), false)
          else
            let j := jappend (k_j s) b in
            ({| k_j := j; k_synced := sync_if (negb (fails_sync f)) j (k_synced s);
                k_size := k_size s - Z.of_nat (length b) |}, true)
      end
  end.

(* empty: the keys of a snapshot query are deleted in batches of batchSize *)
Fixpoint chunk_aux {A} (bs : nat) (l : list A) (fuel : nat) : list (list A) :=
  match fuel with
  | O => []
  | S fuel' =>
      match l with
      | [] => []
      | _ => firstn bs l :: chunk_aux bs (skipn bs l) fuel'
      end
  end.
Definition chunk {A} (bs : nat) (l : list A) : list (list A) := chunk_aux (Nat.max 1 bs) l (length l).

(* commits the chunks in turn; commit number [i] (from [i0]) may fail *)
Fixpoint commit_chunks (j : list batch) (cs : list batch) (f : fault) (i : nat) : list batch * bool :=
  match cs with
  | [] => (j, true)
  | c :: rest => if fails_commit f i then (j, false) else commit_chunks (j ++ [c]) rest f (S i)
  end.

Definition ks_empty (bs : nat) (s : kst) (f : fault) : kst * bool :=
  let dels := map (fun r : row => WDel (fst r)) (cur s) in
  match commit_chunks (k_j s) (chunk bs dels) f 0 with
  | (j, false) => ({| k_j := j; k_synced := k_synced s; k_size := refresh_size (replay j) |}, false)
  | (j, true) => ({| k_j := j; k_synced := sync_if (negb (fails_sync f)) j (k_synced s); k_size := 0 |}, true)
  end.

(* ---- histories of state-changing operations ---------------------------- *)
Inductive kop :=
| KPut (ks : list mhk) (f : fault)
| KDel (ks : list mhk) (f : fault)
| KEmpty (f : fault)
| KRestart
| KCrash (back : nat).

Definition kstep (pb bs : nat) (s : kst) (o : kop) : kst :=
  match o with
  | KPut ks f => fst (ks_put pb s ks f)
  | KDel ks f => fst (ks_delete pb s ks f)
  | KEmpty f => fst (ks_empty bs s f)
  | KRestart => ks_restart s
  | KCrash back => ks_crash s back
  end.
Definition krun (pb bs : nat) (s : kst) (ops : list kop) : kst := fold_left (kstep pb bs) ops s.

(* ---- queries ----------------------------------------------------------- *)
(* decodeKey + IsPrefix on one result row.  The size key cannot be decoded:
   with pb = 0 (the only configuration in which a long prefix query returns
   it) base64 decoding gives a wrong length: an error. *)
Definition row_match (p : bits) (r : row) : option bool :=
  match r with
  | (KData _ _, VKey k) => Some (is_prefix p (mbits k))
  | (KData _ _, VSize _) => None
  | (KSize, _) => None
  end.

(* get: values of the rows under the datastore prefix, post-filtered when the
   prefix is longer than pb.  None = error. *)
Fixpoint get_rows (long : bool) (p : bits) (rs : sstore) : option (list sval) :=
  match rs with
  | [] => Some []
  | r :: rest =>
      if long then
        match row_match p r with
        | None => None
        | Some false => get_rows long p rest
        | Some true => match get_rows long p rest with Some l => Some (snd r :: l) | None => None end
        end
      else match get_rows long p rest with Some l => Some (snd r :: l) | None => None end
  end.
Definition ks_get (pb : nat) (s : kst) (p : bits) : option (list sval) :=
  get_rows (long_prefix pb p) p (query (qpath pb p) (cur s)).

(* countUpTo: q.Limit for short prefixes, then the counting loop with its break *)
Fixpoint count_rows (long : bool) (p : bits) (limit : Z) (n : Z) (rs : sstore) : option Z :=
  match rs with
  | [] => Some n
  | r :: rest =>
      let cont n' := if (0 <? limit)%Z && (limit <=? n')%Z then Some n' else count_rows long p limit n' rest in
      if long then
        match row_match p r with
        | None => None
        | Some false => count_rows long p limit n rest
        | Some true => cont (n + 1)%Z
        end
      else cont (n + 1)%Z
  end.
Definition ks_count (pb : nat) (s : kst) (p : bits) (limit : Z) : option Z :=
  let long := long_prefix pb p in
  let rs := query (qpath pb p) (cur s) in
  let rs := if (0 <? limit)%Z && negb long then firstn (Z.to_nat limit) rs else rs in
  count_rows long p limit 0 rs.

Fixpoint contains_rows (long : bool) (p : bits) (rs : sstore) : option bool :=
  match rs with
  | [] => Some false
  | r :: rest =>
      if long then
        match row_match p r with
        | None => None
        | Some true => Some true
        | Some false => contains_rows long p rest
        end
      else Some true
  end.
Definition ks_contains (pb : nat) (s : kst) (p : bits) : option bool :=
  let long := long_prefix pb p in
  let rs := query (qpath pb p) (cur s) in
  contains_rows long p (if long then rs else firstn 1 rs).

(* ---- the set the keystore is supposed to be ----------------------------- *)
Fixpoint keys_of (st : sstore) : list mhk :=
  match st with
  | [] => []
  | (_, VKey k) :: rest => k :: keys_of rest
  | _ :: rest => keys_of rest
  end.
Definition stored (s : kst) : list mhk := keys_of (cur s).
Definition has_mid (i : N) (l : list mhk) : bool := existsb (fun k => N.eqb (mid k) i) l.
Definition under (p : bits) (k : mhk) : bool := is_prefix p (mbits k).
