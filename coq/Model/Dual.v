(* C15 — decision logic of dual/dual.go, as pure functions.  Definitions only.

   Transcribed (the code as it is):
     WANActive            dht.WAN.RoutingTable().Size() > 0
     Provide / PutValue   if WANActive then WAN else LAN
     GetValue             WAN result if wanErr == nil, else LAN result if lanErr == nil,
                          else combineErrors(wanErr, lanErr)
     FindPeer             address merge (either side empty: the other; else de-duplicated
                          union, in map order) and the error rule
     combineErrors        identical errors: one of them; kb.ErrLookupFailure yields to the other; else Join
     FindProvidersAsync   the merging goroutine: loop condition, `found` set, count
   and, at the end of the file, what an inner IpfsDHT stores / attaches at the three sites
   that handle provider records (handlers.go handleAddProvider, handleGetProviders;
   routing.go findProvidersAsyncRoutine), for the WAN / LAN address filter of AddrClass.v.
   Abstracted: the inner IpfsDHT operations are inputs (their results, errors and the
   order in which their provider streams deliver); contexts/cancellation and the
   query-event forwarding are not modelled; Go map iteration order is a set. *)
From Verif.Lib Require Import GoSem Bits.
From Verif.Model Require Import AddrClass.

(* ---- errors ----------------------------------------------------------------------- *)

(* an error value: sentinels are compared by identity (==), so an id is enough.
   id 0 is kb.ErrLookupFailure. *)
Inductive err :=
| ESentinel (id : nat)
| EJoin (a b : err).      (* errors.Join(a, b), both non-nil *)
Definition lookup_failure : err := ESentinel 0.

Definition err_eqb (a b : err) : bool :=
  match a, b with
  | ESentinel i, ESentinel j => Nat.eqb i j
  | _, _ => false          (* errors.Join allocates: a joined error is never == another value *)
  end.
Definition oerr_eqb (a b : option err) : bool :=
  match a, b with
  | None, None => true
  | Some x, Some y => err_eqb x y
  | _, _ => false
  end.

(* errors.Join drops nil arguments and returns nil when all are nil *)
Definition join (a b : option err) : option err :=
  match a, b with
  | None, None => None
  | Some x, None => Some x     (* a joinError wrapping one error: its sentinels are x's *)
  | None, Some y => Some y
  | Some x, Some y => Some (EJoin x y)
  end.

(* combineErrors(erra, errb) *)
Definition combine_errors (a b : option err) : option err :=
  if oerr_eqb a b then a
  else if oerr_eqb a (Some lookup_failure) then b
  else if oerr_eqb b (Some lookup_failure) then a
  else join a b.

(* the sentinels an error Is (errors.Is) *)
Fixpoint sentinels (e : err) : list nat :=
  match e with ESentinel i => [i] | EJoin a b => sentinels a ++ sentinels b end.

(* ---- write routing ---------------------------------------------------------------------- *)

Definition wan_active (wan_rt_size : nat) : bool := Nat.ltb 0 wan_rt_size.
Definition write_target (wan_rt_size : nat) : side := if wan_active wan_rt_size then WAN else LAN.

(* ---- GetValue ---------------------------------------------------------------------------- *)

(* result of an inner GetValue: (value identity, error); Go returns both *)
Definition get_value_merge {V} (wan lan : option V * option err) : option V * option err :=
  match snd wan with
  | None => (fst wan, None)
  | Some we =>
      match snd lan with
      | None => (fst lan, None)
      | Some le => (None, combine_errors (Some we) (Some le))
      end
  end.

(* ---- FindPeer ------------------------------------------------------------------------------ *)

Fixpoint dedup_ids (seen : list nat) (l : list maddr) : list maddr :=
  match l with
  | [] => []
  | a :: rest => if existsb (Nat.eqb (a_id a)) seen then dedup_ids seen rest
                 else a :: dedup_ids (a_id a :: seen) rest
  end.

(* the returned address list (as a set: Go builds it from a map) *)
Definition find_peer_addrs (wan lan : list maddr) : list maddr :=
  match wan, lan with
  | [], _ => lan
  | _, [] => wan
  | _, _ => dedup_ids [] (wan ++ lan)
  end.
Definition find_peer_err (wan_err lan_err : option err) : option err :=
  match wan_err, lan_err with
  | None, _ | _, None => None
  | _, _ => combine_errors wan_err lan_err
  end.

(* ---- FindProvidersAsync --------------------------------------------------------------------- *)

(* what the merging goroutine receives, in order: a provider from one of the two
   inner channels, or the closing of one of them *)
Inductive arrival :=
| AProv (s : side) (p : nat)
| AClosed (s : side).

Record pstate := {
  p_count : Z;             (* remaining count *)
  p_zero : bool;           (* zeroCount: the caller asked for count = 0 = no limit *)
  p_found : list nat;
  p_wan_open : bool;
  p_lan_open : bool;
  p_out : list nat         (* providers sent to the caller, oldest first *)
}.

Definition prov_init (count : Z) : pstate :=
  {| p_count := count; p_zero := Z.eqb count 0; p_found := []; p_wan_open := true; p_lan_open := true; p_out := [] |}.

(* for (zeroCount || count > 0) && (wanCh != nil || lanCh != nil) *)
Definition prov_running (s : pstate) : bool :=
  (p_zero s || Z.ltb 0 (p_count s)) && (p_wan_open s || p_lan_open s).

Definition prov_step (s : pstate) (a : arrival) : pstate :=
  if negb (prov_running s) then s     (* the loop has ended: nothing more is received *)
  else match a with
       | AClosed WAN => {| p_count := p_count s; p_zero := p_zero s; p_found := p_found s; p_wan_open := false;
                           p_lan_open := p_lan_open s; p_out := p_out s |}
       | AClosed LAN => {| p_count := p_count s; p_zero := p_zero s; p_found := p_found s; p_wan_open := p_wan_open s;
                           p_lan_open := false; p_out := p_out s |}
       | AProv sd p =>
           (* a nil channel is never selected *)
           if negb (match sd with WAN => p_wan_open s | LAN => p_lan_open s end) then s
           else if existsb (Nat.eqb p) (p_found s) then s
           else {| p_count := (p_count s - 1)%Z; p_zero := p_zero s; p_found := p :: p_found s;
                   p_wan_open := p_wan_open s; p_lan_open := p_lan_open s; p_out := p_out s ++ [p] |}
       end.

Definition prov_run (count : Z) (arrivals : list arrival) : pstate := fold_left prov_step arrivals (prov_init count).
Definition prov_merge (count : Z) (arrivals : list arrival) : list nat := p_out (prov_run count arrivals).

Definition arrived (arrivals : list arrival) : list nat :=
  flat_map (fun a => match a with AProv _ p => [p] | AClosed _ => [] end) arrivals.

(* ---- provider records: the three sites where a DHT stores or forwards addresses ------------------
   that it learned from a provider message.

   Transcribed (the code as it is):
     handlers.go handleAddProvider (:232-279)
        key of length 0 or > 80: error, nothing is stored;
        for every entry of pmes.ProviderPeers, in order:
          pi.ID != p (the sender)     -> skipped
          len(pi.Addrs) < 1           -> skipped       (tested BEFORE the filter)
          addrs := dht.filterAddrs(pi.Addrs)
          providerStore.AddProvider(key, {pi.ID, addrs})   (also when addrs is now empty)
        no entry accepted: error "no valid provider"
     records/providers_manager.go AddProvider (:189-207)
        provInfo.ID != pm.self -> pstore.AddAddrs(provInfo.ID, provInfo.Addrs, ttl); the
        (key, provider) pair is recorded in every case
     handlers.go handleGetProviders (:176-215)
        same key test; every provider of the store is attached with
        dht.filterAddrs(<its peerstore addresses>) (a provider left without an address is
        still attached), until the message would exceed network.MessageSizeMax
     routing.go findProvidersAsyncRoutine (:587-589) + dht.go maybeAddAddrs (:958-964)
        for every provider entry of a GET_PROVIDERS response that is processed (the loop
        stops once count providers are known):
          prov.ID == self or connected -> nothing
          else peerstore.AddAddrs(prov.ID, dht.filterAddrs(prov.Addrs), TempAddrTTL)
        (no query-filter admission here, unlike closer peers)
   Abstracted: peers are numbers; boundPeerRecordAddrs (a record above MaxPeerRecordSize
   keeps a prefix of its addresses) and undecodable addresses are not modelled: [pe_addrs]
   is the address list after decoding; the provider store never fails; the size cap of a
   GET_PROVIDERS response and the count cut-off of the provider search are the
   parameters [fit] / the list [processed] (the theorems hold for every value). *)

Record pentry := PE_ { pe_id : nat; pe_addrs : list maddr }.

Definition filter_entry (s : side) (e : pentry) : pentry := PE_ (pe_id e) (addr_filter s (pe_addrs e)).

(* handleAddProvider: the entries that reach providerStore.AddProvider *)
Definition add_provider_accepts (sender : nat) (e : pentry) : bool :=
  Nat.eqb (pe_id e) sender && match pe_addrs e with [] => false | _ => true end.
Definition add_provider_calls (s : side) (key_ok : bool) (sender : nat) (msg : list pentry) : list pentry :=
  if key_ok then map (filter_entry s) (filter (add_provider_accepts sender) msg) else [].
(* ProviderManager.AddProvider: the (peer, address) pairs written to the peerstore *)
Definition pm_writes (self : nat) (c : pentry) : list (nat * maddr) :=
  if Nat.eqb (pe_id c) self then [] else map (pair (pe_id c)) (pe_addrs c).
Definition add_provider_writes (s : side) (key_ok : bool) (self sender : nat) (msg : list pentry) : list (nat * maddr) :=
  flat_map (pm_writes self) (add_provider_calls s key_ok sender msg).
(* the providers recorded for the key, and whether the handler returns an error *)
Definition add_provider_recorded (s : side) (key_ok : bool) (sender : nat) (msg : list pentry) : list nat :=
  map pe_id (add_provider_calls s key_ok sender msg).
Definition add_provider_err (s : side) (key_ok : bool) (sender : nat) (msg : list pentry) : bool :=
  match add_provider_calls s key_ok sender msg with [] => true | _ => false end.

(* handleGetProviders: the provider records attached to the response; [provs] = the
   providers of the store with their peerstore addresses, [fit] = how many fit *)
Definition get_providers_attached (s : side) (key_ok : bool) (fit : nat) (provs : list pentry) : list pentry :=
  if key_ok then firstn fit (map (filter_entry s) provs) else [].

(* findProvidersAsyncRoutine: peerstore writes for the processed provider entries *)
Definition find_providers_writes (s : side) (self : nat) (connected : nat -> bool) (processed : list pentry)
    : list (nat * maddr) :=
  flat_map (fun e => if Nat.eqb (pe_id e) self || connected (pe_id e) then []
                     else map (pair (pe_id e)) (addr_filter s (pe_addrs e))) processed.
