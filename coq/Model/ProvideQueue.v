(* Model of provider/internal/queue/provide.go (ProvideQueue).  Definitions only.
   A queued key is its Kademlia identifier (the leading bits of the 256-bit
   sha256 key, enough to decide every prefix test the harness can provoke)
   plus an identity [kid]; two multihashes are the same key iff same [kid]. *)
From Verif.Lib Require Import GoSem Bits.
From Verif.Model Require Import PrefixQueue.

Record qkey := { kbits : bits; kid : N }.

Record pvq := { pfx : pq; keys : list qkey }.
Definition pvq_empty : pvq := {| pfx := pq_empty; keys := [] |}.

Definition under (p : bits) (k : qkey) : bool := is_prefix p (kbits k).
Definition has_id (i : N) (l : list qkey) : bool := existsb (fun k => N.eqb (kid k) i) l.

(* trie.AddMany: a key already present is left alone *)
Definition add_keys (l : list qkey) (ks : list qkey) : list qkey :=
  fold_left (fun acc k => if has_id (kid k) acc then acc else acc ++ [k]) ks l.

Definition remove_id (l : list qkey) (i : N) : list qkey :=
  filter (fun k => negb (N.eqb (kid k) i)) l.

(* enqueueNoLock *)
Definition enqueue_nolock (q : pvq) (p : bits) (ks : list qkey) : res pvq :=
  f <- push1 (pfx q) p ;;
  Ok {| pfx := f; keys := add_keys (keys q) ks |}.

Definition enqueue (q : pvq) (p : bits) (ks : list qkey) : res pvq :=
  match ks with
  | [] => Ok q
  | _ => enqueue_nolock q p ks
  end.

(* Dequeue: (prefix, keys, ok) *)
Definition dequeue (q : pvq) : pvq * option (bits * list qkey) :=
  match pop (pfx q) with
  | (_, None) => (q, None)
  | (f, Some p) =>
      ({| pfx := f; keys := filter (fun k => negb (under p k)) (keys q) |},
       Some (p, filter (under p) (keys q)))
  end.

Definition dequeue_matching (q : pvq) (p : bits) : res (pvq * list qkey) :=
  match filter (under p) (keys q) with
  | [] => Ok (q, [])
  | sub =>
      let ks' := filter (fun k => negb (under p k)) (keys q) in
      r <- pq_remove (pfx q) p ;;
      let (f, removed) := r in
      if removed then Ok ({| pfx := f; keys := ks' |}, sub)
      else
        match find_prefix_of (tr f) p with
        | Some sp =>
            match filter (under sp) ks' with
            | [] => r2 <- pq_remove f sp ;; Ok ({| pfx := fst r2; keys := ks' |}, sub)
            | _ => Ok ({| pfx := f; keys := ks' |}, sub)
            end
        | None => Ok ({| pfx := f; keys := ks' |}, sub)
        end
  end.

Definition add_set (p : bits) (l : list bits) : list bits := if mem p l then l else l ++ [p].

(* Remove(keys...) *)
Definition remove_keys (q : pvq) (ks : list qkey) : res pvq :=
  let '(ks', matching) :=
    fold_left (fun (acc : list qkey * list bits) k =>
                 let (cur, m) := acc in
                 (remove_id cur (kid k),
                  match find_prefix_of (tr (pfx q)) (kbits k) with
                  | Some p => add_set p m
                  | None => m
                  end))
              ks (keys q, []) in
  let to_remove := filter (fun p => match filter (under p) ks' with [] => true | _ => false end) matching in
  match to_remove with
  | [] => Ok {| pfx := pfx q; keys := ks' |}
  | _ => r <- remove_prefixes_from_queue (pfx q) to_remove ;;
         Ok {| pfx := fst r; keys := ks' |}
  end.

Definition pvq_is_empty (q : pvq) : bool := match keys q with [] => true | _ => false end.
Definition pvq_size (q : pvq) : nat := length (keys q).
Definition pvq_regions (q : pvq) : nat := pq_size (pfx q).
Definition pvq_clear (q : pvq) : pvq * nat := (pvq_empty, pvq_size q).

(* ---- persistence ------------------------------------------------------- *)
(* One datastore row.  The key is fmt.Sprintf("%012x/%s", pos, prefix) passed
   through ds.NewKey, whose path cleaning drops a trailing "/": the empty
   prefix is stored under the one-component key "/<pos>".  [row_prefix] is what
   strings.Split(strings.TrimPrefix(key, "/"), "/") gives back: [None] for a
   one-component key. *)
Record row := { row_pos : nat; row_prefix : option bits; row_val : list qkey }.

Definition ds_key_parts (p : bits) : option bits :=
  match p with [] => None | _ => Some p end.

(* Persist: one row per queued prefix that has keys; the position advances for
   every prefix.  (Rows already in the datastore are deleted first.) *)
Fixpoint persist_rows (i : nat) (d : list bits) (ks : list qkey) : list row :=
  match d with
  | [] => []
  | p :: d' =>
      match filter (under p) ks with
      | [] => persist_rows (S i) d' ks
      | sub => {| row_pos := i; row_prefix := ds_key_parts p; row_val := sub |}
               :: persist_rows (S i) d' ks
      end
  end.
Definition persist (q : pvq) : list row := persist_rows 0 (dq (pfx q)) (keys q).

(* DrainDatastore: rows in key order (= position order, positions are
   zero-padded); a one-component key is the empty prefix; rows without keys are
   skipped and left in the datastore; every other row is enqueued and deleted. *)
Definition parse_row_prefix (r : row) : bits :=
  match row_prefix r with Some p => p | None => [] end.

Fixpoint drain (q : pvq) (rows : list row) : res (pvq * list row) :=
  match rows with
  | [] => Ok (q, [])
  | r :: rest =>
      match row_val r with
      | [] => x <- drain q rest ;; Ok (fst x, r :: snd x)
      | ks => q' <- enqueue_nolock q (parse_row_prefix r) ks ;; drain q' rest
      end
  end.
