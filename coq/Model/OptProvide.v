(* Model of the completion counting of optimistic provide (lookup_optim.go:
   putProviderRecord / waitForRPCs / consumeDoneChan).  Definitions only.

   n ADD_PROVIDER RPCs have been started; each one, when it completes, sends
   one token on doneChan.  waitForRPCs first receives until `returnThreshold`
   tokens have been counted (phase 1), then for each remaining RPC either
   takes a lease on the jobs pool and hands the receive to a consumeDoneChan
   goroutine, or receives itself (phase 2).  Whoever counts the n-th token
   closes doneChan.  The jobs pool is assumed to have room (its size, 60 by
   default, exceeds the number of RPCs of one provide). *)
From Verif.Lib Require Import GoSem.
From Verif.Gen Require Import Consts.

(* returnThreshold := int(math.Ceil(float64(bucketSize) * optProvReturnRatio)) *)
Definition return_threshold (K : nat) : nat :=
  Z.to_nat ((Z.of_nat K * optProvReturnRatio_num + optProvReturnRatio_den - 1) / optProvReturnRatio_den).

Inductive phase := P1 | P2 (k : nat) | Ret.

Record ost := {
  o_n : nat;          (* rpcCount *)
  o_th : nat;         (* returnThreshold after `if returnThreshold > rpcCount` *)
  completed : nat;    (* RPCs that finished and sent their token *)
  queue : nat;        (* tokens sent and not yet received *)
  done : nat;         (* putProvDone *)
  ph : phase;
  consumers : nat;    (* consumeDoneChan goroutines waiting for a token *)
  closed : nat }.     (* how many times doneChan was closed *)

Inductive oev := RpcDone | MainRecv | MainLease | ConsRecv.

(* waitForRPCs starts: `if rpcCount == 0 { return }` *)
Definition init (K n : nat) : ost :=
  {| o_n := n; o_th := Nat.min (return_threshold K) n; completed := 0; queue := 0; done := 0;
     ph := match n with O => Ret | _ => P1 end; consumers := 0; closed := 0 |}.

Definition p2 (k : nat) : phase := match k with O => Ret | _ => P2 k end.

Definition ostep (s : ost) (e : oev) : option ost :=
  match e with
  | RpcDone =>
      if Nat.ltb (completed s) (o_n s)
      then Some {| o_n := o_n s; o_th := o_th s; completed := S (completed s); queue := S (queue s); done := done s;
                   ph := ph s; consumers := consumers s; closed := closed s |}
      else None
  | MainRecv =>
      match queue s, ph s with
      | S q, P1 =>
          (* for range doneChan { if putProvDone.Add(1) == returnThreshold { break } } *)
          let d := S (done s) in
          Some {| o_n := o_n s; o_th := o_th s; completed := completed s; queue := q; done := d;
                  ph := if Nat.eqb d (o_th s) then p2 (o_n s - d) else P1;
                  consumers := consumers s; closed := closed s |}
      | S q, P2 (S k) =>
          (* case <-doneChan: if putProvDone.Add(1) == rpcCount { close(doneChan) } *)
          let d := S (done s) in
          Some {| o_n := o_n s; o_th := o_th s; completed := completed s; queue := q; done := d;
                  ph := p2 k; consumers := consumers s;
                  closed := if Nat.eqb d (o_n s) then S (closed s) else closed s |}
      | _, _ => None
      end
  | MainLease =>
      match ph s with
      | P2 (S k) =>
          Some {| o_n := o_n s; o_th := o_th s; completed := completed s; queue := queue s; done := done s;
                  ph := p2 k; consumers := S (consumers s); closed := closed s |}
      | _ => None
      end
  | ConsRecv =>
      match queue s, consumers s with
      | S q, S cn =>
          let d := S (done s) in
          Some {| o_n := o_n s; o_th := o_th s; completed := completed s; queue := q; done := d;
                  ph := ph s; consumers := cn;
                  closed := if Nat.eqb d (o_n s) then S (closed s) else closed s |}
      | _, _ => None
      end
  end.

Fixpoint orun (s : ost) (evs : list oev) : option ost :=
  match evs with
  | [] => Some s
  | e :: r => match ostep s e with Some s' => orun s' r | None => None end
  end.

(* With room in the jobs pool, waitForRPCs returns once `o_th` completions have
   been received (none when no RPC was issued); with RPCs issued but a zero
   threshold (bucket size 0) the first loop never leaves: `for range` on a
   channel that is never closed. *)
Definition returns_after (K n : nat) : res nat :=
  match n with
  | O => Ok 0
  | _ => match Nat.min (return_threshold K) n with
         | O => Blocked "for range os.doneChan with returnThreshold = 0"
         | th => Ok th
         end
  end.
