(* Model of provider/keystore/resettable_keystore.go (shared-datastore mode).
   Definitions only.

   The datastore [d] handed to NewResettableKeystore holds three things: the
   active-namespace marker "/active" and the two slots "/k0/..." and "/k1/...".
   [gstore] keeps them apart; go-datastore's namespace.Wrap / key transform is
   modelled, not verified (a slot is a [sstore] exactly as in Model/Keystore.v).
   Every write reaching [d] is one [gentry] of the journal, in order; a Sync
   (whatever its prefix) makes the whole journal durable; a crash keeps a prefix
   of the journal not shorter than the synced part.

   The component is a state machine: one event = one atomic action of the
   worker goroutine or of the ResetCids goroutine (at most one journal action
   each).  [rstep] is deterministic; [None] = not enabled.  Theorems quantify
   over all event lists, i.e. over all interleavings.

   worker goroutine (resettable_keystore.go:286-350, 356-363, 375-403)
     EPutBegin ks  the worker takes a Put: bufferKeys (only while resetInProgress)
     EPutCommit    keystore.put on the primary: Has-scan, batch, Commit, size +=
     EPutSync      Sync, the response is sent: the Put is acknowledged
     EClose / ECloseSync   Close: persistSize on the primary, Sync (843-883)
   reset operations executed BY the worker (handleResetOp, 613-679)
     EStart new    opStart: altSize = 0, buf = nil, then emptySharedAltDs ...
     EDel c        ... one committed batch of raw deletes in the alternate slot
                   (emptySharedAltDs 550-586; used by opStart and by the teardown)
     EStartDone    ... its Sync; resetInProgress = true
     EStartFail    prepareAltDs returned an error: no reset in progress
     ECleanup      opCleanup(success=true) is received: final drainBuf (EAltWrite),
     ECleanSync    altDs.Sync (durability boundary, 646),
     EFlip         the marker Put (654) succeeds; the swap of s.ds/s.altDs and size = altSize
                   (668-676) are performed with it (see [flip]),
     EFlipFail     the marker Put fails: the reset has failed, no swap (655-657),
     EMarkSync     marker Sync (663),
     EAbort        opCleanup(success=false): cancellation, Close of the caller's ctx or a
                   failed altDs call in phases A-C (a cancellation that arrives while the
                   worker still runs opStart is noticed by the loop of phase A right after the
                   answer to opStart has been collected, 745-751); EAbortClean: the final
                   drain or the altDs.Sync of opCleanup failed (638-650),
     ETearSync     the Sync that ends emptySharedAltDs in the teardown,
     EFinish       resetInProgress=false, buf=nil, the teardown has returned (its
                   deletes are EDel events), the response is sent.
   ResetCids goroutine (701-836), phases A, B, C
     EKey          one cid received from keysChan (appended to the local batch)
     EAltWrite b c one committed batch in altDs: altPutBlind before phase B,
                   altPutChecked (Has, altSize += added) after it.  [c] is the
                   chunk handed to altPut*: the local batch [r_loc], or the next
                   keys of those taken from the buffer [r_drn] (after a takeBuf if
                   they are not there yet).
     EAltSync      altDs.Sync at the end of phase A (815)
     ECount        phase B: altSize = refreshSize(altDs)
   Abstractions: batching thresholds, the ticker and the order of drains are
   not fixed by the model (any chunking is allowed: the real schedule is one of
   them); bufferKeys' back-pressure (resetBufCap) and the altDsBusy semaphore
   are not modelled (they only delay events).  Factory mode is not modelled.

   Ghost fields (never read by a transition): [r_a0] active slot, [r_old] keys
   stored and [r_new] keys supplied at the last EStart / reopen, [r_acked] keys of
   the Puts acknowledged since, [r_flipped] whether the swap of this reset
   happened. *)
From Verif.Lib Require Import GoSem Bits.
From Verif.Model Require Import Keystore.

Record gstore := { g_mark : option N; g_s0 : sstore; g_s1 : sstore }.
Definition gempty : gstore := {| g_mark := None; g_s0 := []; g_s1 := [] |}.
Definition slot (g : gstore) (i : bool) : sstore := if i then g_s1 g else g_s0 g.
Definition set_slot (g : gstore) (i : bool) (st : sstore) : gstore :=
  if i then {| g_mark := g_mark g; g_s0 := g_s0 g; g_s1 := st |}
  else {| g_mark := g_mark g; g_s0 := st; g_s1 := g_s1 g |}.

Inductive gentry := GMark (v : N) | GSlot (i : bool) (b : batch).
Definition gapply (g : gstore) (e : gentry) : gstore :=
  match e with
  | GMark v => {| g_mark := Some v; g_s0 := g_s0 g; g_s1 := g_s1 g |}
  | GSlot i b => set_slot g i (apply_batch (slot g i) b)
  end.
Definition greplay (j : list gentry) : gstore := fold_left gapply j gempty.

(* NewResettableKeystore 208-230: missing marker = slot 0; a marker that is not
   one byte 0/1 is "corrupted" *)
Definition act (g : gstore) : bool := match g_mark g with Some 1%N => true | _ => false end.
Definition mark_of (a : bool) : N := if a then 1%N else 0%N.

Inductive phase := PIdle | PStarting | PFilling | PClean0 | PClean1 | PClean2 | PTearing.

Record rst := {
  r_j : list gentry; r_synced : nat;
  r_active : bool; r_size : Z; r_alt : Z;
  r_rip : bool; r_buf : list mhk;
  r_wk : option (list mhk * option (list mhk));   (* Put in flight: keys, result once committed *)
  r_ph : phase; r_todo : list mhk; r_loc : list mhk; r_drn : list mhk; r_counted : bool;
  r_closed : bool;
  (* ghost *)
  r_a0 : bool; r_old : list mhk; r_new : list mhk; r_acked : list mhk; r_flipped : bool }.

Definition rcur (s : rst) : gstore := greplay (r_j s).
Definition primary (s : rst) : sstore := slot (rcur s) (r_active s).
Definition alternate (s : rst) : sstore := slot (rcur s) (negb (r_active s)).

(* ---- reopening ---------------------------------------------------------- *)
(* NewResettableKeystore + loadSize on a datastore whose (durable) journal is [j] *)
Definition ropen (j : list gentry) : rst :=
  let g := greplay j in
  let j1 := match g_mark g with
            | Some v => if (1 <? v)%N then j ++ [GMark 0] else j
            | None => j
            end in
  let a := act (greplay j1) in
  let st := slot g a in
  let j2 := j1 ++ [GSlot a [WDel KSize]] in
  let sz := match st_get KSize st with
            | Some (VSize n) => n
            | _ => refresh_size (st_del KSize st)
            end in
  {| r_j := j2; r_synced := length j; r_active := a; r_size := sz; r_alt := 0;
     r_rip := false; r_buf := []; r_wk := None;
     r_ph := PIdle; r_todo := []; r_loc := []; r_drn := []; r_counted := false; r_closed := false;
     r_a0 := a; r_old := keys_of st; r_new := []; r_acked := []; r_flipped := false |}.

(* what a reopened keystore holds and reports *)
Definition reopen_keys (j : list gentry) : list mhk := keys_of (primary (ropen j)).
Definition reopen_size (j : list gentry) : Z := r_size (ropen j).

(* ---- helpers ------------------------------------------------------------- *)
Definition mhk_eqb (a b : mhk) : bool := N.eqb (mid a) (mid b) && bits_eqb (mbits a) (mbits b).

Fixpoint strip_prefix (c l : list mhk) : option (list mhk) :=
  match c, l with
  | [], _ => Some l
  | x :: c', y :: l' => if mhk_eqb x y then strip_prefix c' l' else None
  | _ :: _, [] => None
  end.
Fixpoint list_mhk_eqb (a b : list mhk) : bool :=
  match a, b with
  | [], [] => true
  | x :: a', y :: b' => mhk_eqb x y && list_mhk_eqb a' b'
  | _, _ => false
  end.

Definition blind_ops (pb : nat) (c : list mhk) : batch := map (fun k => WPut (dkey pb k) (VKey k)) c.
Definition del_ops (c : list skey) : batch := map WDel c.

Definition gappend (j : list gentry) (i : bool) (b : batch) : list gentry :=
  match b with [] => j | _ => j ++ [GSlot i b] end.

Inductive revent :=
| EPutBegin (ks : list mhk) | EPutCommit | EPutSync
| EClose | ECloseSync
| EStart (new : list mhk) | EDel (c : list skey) | EStartDone | EStartFail
| EKey | EAltWrite (batch : bool) (c : list mhk) | EAltSync | ECount
| ECleanup | ECleanSync | EFlip | EFlipFail | EMarkSync
| EAbort | EAbortClean | ETearSync | EFinish.

Definition upd_j (s : rst) (j : list gentry) (synced : nat) : rst :=
  {| r_j := j; r_synced := synced; r_active := r_active s; r_size := r_size s; r_alt := r_alt s;
     r_rip := r_rip s; r_buf := r_buf s; r_wk := r_wk s; r_ph := r_ph s; r_todo := r_todo s;
     r_loc := r_loc s; r_drn := r_drn s; r_counted := r_counted s; r_closed := r_closed s;
     r_a0 := r_a0 s; r_old := r_old s; r_new := r_new s; r_acked := r_acked s; r_flipped := r_flipped s |}.
Definition upd_ph (s : rst) (p : phase) : rst :=
  {| r_j := r_j s; r_synced := r_synced s; r_active := r_active s; r_size := r_size s; r_alt := r_alt s;
     r_rip := r_rip s; r_buf := r_buf s; r_wk := r_wk s; r_ph := p; r_todo := r_todo s;
     r_loc := r_loc s; r_drn := r_drn s; r_counted := r_counted s; r_closed := r_closed s;
     r_a0 := r_a0 s; r_old := r_old s; r_new := r_new s; r_acked := r_acked s; r_flipped := r_flipped s |}.

Definition worker_free (s : rst) : bool :=
  match r_ph s with PIdle | PFilling => true | _ => false end.
Definition is_none {A} (o : option A) : bool := match o with None => true | Some _ => false end.
Definition is_nil {A} (l : list A) : bool := match l with [] => true | _ => false end.

(* the marker Put of opCleanup succeeded, and the swap of s.ds/s.altDs with it.  (In the
   code the swap follows the marker Sync, 663-676; the fields it changes are read by the
   worker goroutine only, which is inside handleResetOp until the response is sent, so
   performing it together with the marker write is not observable.) *)
Definition flip (s : rst) : rst :=
  let a := negb (r_active s) in
  {| r_j := r_j s ++ [GMark (mark_of a)]; r_synced := r_synced s;
     r_active := a; r_size := r_alt s; r_alt := r_alt s;
     r_rip := r_rip s; r_buf := r_buf s; r_wk := r_wk s; r_ph := PClean2; r_todo := r_todo s;
     r_loc := r_loc s; r_drn := r_drn s; r_counted := r_counted s; r_closed := r_closed s;
     r_a0 := r_a0 s; r_old := r_old s; r_new := r_new s; r_acked := r_acked s; r_flipped := true |}.

(* which keys an EAltWrite takes.  [fromb]: altPutBlind(batch) of the local
   batch (795/806); otherwise the next chunk of the keys taken from the buffer
   (drainBuf), after a takeBuf if they are not there yet.  Result: the new
   (local batch, drained keys, buffer). *)
Definition alt_sel (s : rst) (fromb : bool) (c : list mhk) : option (list mhk * list mhk * list mhk) :=
  if fromb then (if list_mhk_eqb c (r_loc s) then Some ([], r_drn s, r_buf s) else None)
  else match strip_prefix c (r_drn s) with
       | Some d => Some (r_loc s, d, r_buf s)
       | None => match strip_prefix c (r_drn s ++ r_buf s) with
                 | Some d => Some (r_loc s, d, [])
                 | None => None
                 end
       end.

(* EAltWrite: one committed batch of the reset in the alternate slot *)
Definition alt_write (pb : nat) (s : rst) (fromb : bool) (c : list mhk) : option rst :=
  let sel := alt_sel s fromb c in
  match c, sel with
  | _ :: _, Some (loc, drn, buf) =>
      if r_counted s then
        match put_scan pb (alternate s) NoFault c [] 0 with
        | Some (b, nw) =>
            Some {| r_j := gappend (r_j s) (negb (r_active s)) b; r_synced := r_synced s;
                    r_active := r_active s; r_size := r_size s;
                    r_alt := r_alt s + Z.of_nat (length nw);
                    r_rip := r_rip s; r_buf := buf; r_wk := r_wk s; r_ph := r_ph s;
                    r_todo := r_todo s; r_loc := loc; r_drn := drn; r_counted := true; r_closed := false;
                    r_a0 := r_a0 s; r_old := r_old s; r_new := r_new s; r_acked := r_acked s;
                    r_flipped := r_flipped s |}
        | None => None
        end
      else
        Some {| r_j := gappend (r_j s) (negb (r_active s)) (blind_ops pb c); r_synced := r_synced s;
                r_active := r_active s; r_size := r_size s; r_alt := r_alt s;
                r_rip := r_rip s; r_buf := buf; r_wk := r_wk s; r_ph := r_ph s;
                r_todo := r_todo s; r_loc := loc; r_drn := drn; r_counted := false; r_closed := false;
                r_a0 := r_a0 s; r_old := r_old s; r_new := r_new s; r_acked := r_acked s;
                r_flipped := r_flipped s |}
  | _, _ => None
  end.

Definition rstep (pb : nat) (s : rst) (e : revent) : option rst :=
  if r_closed s then
    match e with
    | ECloseSync => Some (upd_j s (r_j s) (length (r_j s)))
    | _ => None
    end
  else
  match e with
  | EPutBegin ks =>
      if is_none (r_wk s) && worker_free s && negb (is_nil ks) then
        Some {| r_j := r_j s; r_synced := r_synced s; r_active := r_active s; r_size := r_size s; r_alt := r_alt s;
                r_rip := r_rip s; r_buf := if r_rip s then r_buf s ++ ks else r_buf s;
                r_wk := Some (ks, None); r_ph := r_ph s; r_todo := r_todo s;
                r_loc := r_loc s; r_drn := r_drn s; r_counted := r_counted s; r_closed := false;
                r_a0 := r_a0 s; r_old := r_old s; r_new := r_new s; r_acked := r_acked s; r_flipped := r_flipped s |}
      else None
  | EPutCommit =>
      match r_wk s with
      | Some (ks, None) =>
          match put_scan pb (primary s) NoFault ks [] 0 with
          | Some (b, nw) =>
              Some {| r_j := gappend (r_j s) (r_active s) b; r_synced := r_synced s; r_active := r_active s;
                      r_size := r_size s + Z.of_nat (length nw); r_alt := r_alt s;
                      r_rip := r_rip s; r_buf := r_buf s; r_wk := Some (ks, Some nw); r_ph := r_ph s;
                      r_todo := r_todo s; r_loc := r_loc s; r_drn := r_drn s; r_counted := r_counted s; r_closed := false;
                      r_a0 := r_a0 s; r_old := r_old s; r_new := r_new s; r_acked := r_acked s;
                      r_flipped := r_flipped s |}
          | None => None
          end
      | _ => None
      end
  | EPutSync =>
      match r_wk s with
      | Some (ks, Some nw) =>
          Some {| r_j := r_j s; r_synced := length (r_j s); r_active := r_active s; r_size := r_size s;
                  r_alt := r_alt s; r_rip := r_rip s; r_buf := r_buf s; r_wk := None; r_ph := r_ph s;
                  r_todo := r_todo s; r_loc := r_loc s; r_drn := r_drn s; r_counted := r_counted s; r_closed := false;
                  r_a0 := r_a0 s; r_old := r_old s; r_new := r_new s; r_acked := r_acked s ++ ks;
                  r_flipped := r_flipped s |}
      | _ => None
      end
  | EClose =>
      if is_none (r_wk s) && worker_free s then
        Some {| r_j := r_j s ++ [GSlot (r_active s) [WPut KSize (VSize (r_size s))]]; r_synced := r_synced s;
                r_active := r_active s; r_size := r_size s; r_alt := r_alt s;
                r_rip := r_rip s; r_buf := r_buf s; r_wk := None; r_ph := r_ph s; r_todo := r_todo s;
                r_loc := r_loc s; r_drn := r_drn s; r_counted := r_counted s; r_closed := true;
                r_a0 := r_a0 s; r_old := r_old s; r_new := r_new s; r_acked := r_acked s; r_flipped := r_flipped s |}
      else None
  | ECloseSync => None
  | EStart new =>
      match r_ph s with
      | PIdle =>
          if is_none (r_wk s) then
            Some {| r_j := r_j s; r_synced := r_synced s; r_active := r_active s; r_size := r_size s; r_alt := 0;
                    r_rip := false; r_buf := []; r_wk := None; r_ph := PStarting; r_todo := new;
                    r_loc := []; r_drn := []; r_counted := false; r_closed := false;
                    r_a0 := r_active s; r_old := r_old s ++ r_acked s; r_new := new; r_acked := [];
                    r_flipped := false |}
          else None
      | _ => None
      end
  | EDel c =>
      match r_ph s with
      | PStarting | PTearing =>
          Some (upd_j s (gappend (r_j s) (negb (r_active s)) (del_ops c)) (r_synced s))
      | _ => None
      end
  | EStartDone =>
      match r_ph s with
      | PStarting =>
          if is_nil (alternate s) then
            Some {| r_j := r_j s; r_synced := length (r_j s); r_active := r_active s; r_size := r_size s;
                    r_alt := r_alt s; r_rip := true; r_buf := r_buf s; r_wk := r_wk s; r_ph := PFilling;
                    r_todo := r_todo s; r_loc := r_loc s; r_drn := r_drn s; r_counted := r_counted s; r_closed := false;
                    r_a0 := r_a0 s; r_old := r_old s; r_new := r_new s; r_acked := r_acked s;
                    r_flipped := r_flipped s |}
          else None
      | _ => None
      end
  | EStartFail =>
      match r_ph s with PStarting => Some (upd_ph s PIdle) | _ => None end
  | EKey =>
      match r_ph s, r_todo s with
      | PFilling, k :: t =>
          Some {| r_j := r_j s; r_synced := r_synced s; r_active := r_active s; r_size := r_size s;
                  r_alt := r_alt s; r_rip := r_rip s; r_buf := r_buf s; r_wk := r_wk s; r_ph := r_ph s;
                  r_todo := t; r_loc := r_loc s ++ [k]; r_drn := r_drn s; r_counted := r_counted s; r_closed := false;
                  r_a0 := r_a0 s; r_old := r_old s; r_new := r_new s; r_acked := r_acked s;
                  r_flipped := r_flipped s |}
      | _, _ => None
      end
  | EAltWrite fromb c =>
      match r_ph s with
      | PFilling | PClean0 => alt_write pb s fromb c
      | _ => None
      end
  | EAltSync =>
      match r_ph s with
      | PFilling => Some (upd_j s (r_j s) (length (r_j s)))
      | _ => None
      end
  | ECount =>
      match r_ph s with
      | PFilling =>
          if r_counted s then None else
          Some {| r_j := r_j s; r_synced := r_synced s; r_active := r_active s; r_size := r_size s;
                  r_alt := refresh_size (alternate s);
                  r_rip := r_rip s; r_buf := r_buf s; r_wk := r_wk s; r_ph := r_ph s;
                  r_todo := r_todo s; r_loc := r_loc s; r_drn := r_drn s; r_counted := true; r_closed := false;
                  r_a0 := r_a0 s; r_old := r_old s; r_new := r_new s; r_acked := r_acked s;
                  r_flipped := r_flipped s |}
      | _ => None
      end
  | ECleanup =>
      match r_ph s with
      | PFilling => if r_counted s && is_none (r_wk s) then Some (upd_ph s PClean0) else None
      | _ => None
      end
  | ECleanSync =>
      match r_ph s with
      | PClean0 =>
          if is_nil (r_loc s) && is_nil (r_drn s) && is_nil (r_buf s) && is_nil (r_todo s)
          then Some (upd_ph (upd_j s (r_j s) (length (r_j s))) PClean1) else None
      | _ => None
      end
  | EFlip => match r_ph s with PClean1 => Some (flip s) | _ => None end
  | EFlipFail => match r_ph s with PClean1 => Some (upd_ph s PTearing) | _ => None end
  | EMarkSync =>
      match r_ph s with
      | PClean2 => Some (upd_ph (upd_j s (r_j s) (length (r_j s))) PTearing)
      | _ => None
      end
  | EAbort =>
      match r_ph s with
      | PFilling => if is_none (r_wk s) then Some (upd_ph s PTearing) else None
      | _ => None
      end
  | EAbortClean =>
      match r_ph s with PClean0 => Some (upd_ph s PTearing) | _ => None end
  | ETearSync =>
      match r_ph s with
      | PTearing => Some (upd_j s (r_j s) (length (r_j s)))
      | _ => None
      end
  | EFinish =>
      match r_ph s with
      | PTearing =>
          Some {| r_j := r_j s; r_synced := r_synced s; r_active := r_active s; r_size := r_size s;
                  r_alt := r_alt s; r_rip := false; r_buf := []; r_wk := r_wk s; r_ph := PIdle;
                  r_todo := []; r_loc := []; r_drn := []; r_counted := false; r_closed := false;
                  r_a0 := r_active s;
                  r_old := (if r_flipped s then r_new s else r_old s) ++ r_acked s;
                  r_new := []; r_acked := []; r_flipped := false |}
      | _ => None
      end
  end.

Fixpoint rrun (pb : nat) (s : rst) (evs : list revent) : option rst :=
  match evs with
  | [] => Some s
  | e :: rest => match rstep pb s e with Some s' => rrun pb s' rest | None => None end
  end.

(* the datastores a crash can leave behind: every journal prefix not shorter
   than the synced part *)
Definition crash_points (s : rst) : list nat := seq (r_synced s) (S (length (r_j s) - r_synced s)).
