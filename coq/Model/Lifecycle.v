(* C14 — lifecycle of the components that have a Close: which goroutines an
   instance starts, how Close stops and awaits them, how registrations are
   guarded against Close, what the constructors start before each point at
   which they can fail.  Definitions only.

   Transcribed from (line numbers of the tree the model was written against;
   the regenerated inventory Gen/Goroutines.v carries the current ones):
     dht.go            New / makeDHT / Close (cancel; dht.wg.Wait; close of the three stores in parallel)
     subscriber_notifee.go   startNetworkSubscriber (dht.wg.Go, defer subs.Close)
     dual/dual.go      New (WAN then LAN; LAN failure closes WAN), Close
     fullrt/dht.go     NewFullRT (subscription, provider manager, wg.Add(2)), Close (cancel; wg.Wait; stores)
     records/providers_manager.go   NewProviderManager (go gcLoop), Close (cancel; <-closed; stopped := true)
     records/value_store.go         StartGC (gcMu, gcStarted), Close (cancel; <-closed)
     rtrefresh/rt_refresh_manager.go  Start / Refresh (refcountLk.RLock; if closed {..return}; refcount.Add(1); RUnlock; go ...),
                            Close (cancel; refcountLk.Lock; closed = true; Unlock; refcount.Wait)
     provider/provider.go   New, Close (closeOnce; wgLk.Lock; close(done); wgLk.Unlock; cancel; pool.Close; wg.Wait;
                            approxPrefixLenRunning.Lock; cleanup LIFO), the `wgLk.RLock; if closed() {..return}; wg.Add; RUnlock` sites
     provider/internal/connectivity/connectivity.go  Start / TriggerCheck (mutex held from before `go` until the goroutine ends), Close
     provider/buffered/provider.go   New (go worker), Close (closeOnce; close(closed); queue.Close; Provider.Close; <-done)
     provider/dual/provider.go       New (keystore, LAN provider, WAN provider), Close (both providers, then cleanup)
     provider/keystore/keystore.go, resettable_keystore.go   New* (go worker), Close (closeOnce.Do: close(s.close); <-s.done; ...)

   Abstracted: what the goroutines compute; the Go scheduler (every interleaving of
   the atomic steps below is an event list); memory model (each step is atomic). *)
From Verif.Lib Require Import GoSem.
From Verif.Gen Require Import Goroutines.
Local Open Scope string_scope.

(* ---- components and goroutine classes --------------------------------------------------------- *)
Inductive comp :=
| CDht | CDual | CFullRT | CProvMgr | CValueStore | CRtRefresh
| CProvider | CBuffered | CProvDual | CKeystore | CResettable.

Inductive gclass :=
| GDhtLoop          (* the four background loops registered with dht.wg: persistRTPeersInPeerStore, fixLowPeers, rtPeerLoop, network subscriber *)
| GDhtProbe         (* peerFound's admission probe: context.WithTimeout(dht.ctx, lookupCheckTimeout) *)
| GDhtCloseHelper   (* Close's own `go func(c) { errc <- c() }`: joined by the receive loop of Close *)
| GOp               (* goroutine of one public operation (query workers, value / provider searches, fan-out of dual
                       and fullrt operations, lookup-event channel closer): joined by the operation or ends with the
                       operation's context; the instance does not own it *)
| GRtLoop           (* RtRefreshManager.loop *)
| GRtRequest        (* the goroutine of one Refresh call (refcount.Go) *)
| GRtPing           (* pingAndEvictPeers worker: joined by the loop through a local WaitGroup *)
| GPmGc             (* ProviderManager.gcLoop *)
| GVsGc             (* ValueStore.gcLoop *)
| GFrtCrawler | GFrtSubscriber
| GCrawlWorker      (* crawler.Run's workers: joined by Run (defer wg.Wait), which runs on GFrtCrawler *)
| GMsgSender        (* message-sender internals (stream read, invalidation after disconnect): bounded by the request's context *)
| GProvRun          (* SweepingProvider.run *)
| GProvWorker       (* provide / reprovide workers registered with s.wg under wgLk *)
| GProvInner        (* helpers joined by their parent through a local WaitGroup: approxPrefixLen, sendProviderRecords, individualProvide *)
| GConnProbe        (* connectivity checker goroutine: holds c.mutex from before it is started until it ends *)
| GBufWorker        (* buffered provider worker *)
| GProvDualHelper   (* runOnBoth's goroutine: joined by the receive on errCh *)
| GKsWorker | GRksWorker
| GRksWatch.        (* ResetCids' context watcher: ends with ResetCids or with the keystore *)

(* how the owner makes sure a goroutine of the class is gone when Close returns *)
Inductive await :=
| AwWaitGroup            (* registered with a WaitGroup of the instance that Close waits for *)
| AwDoneChan             (* closes a channel on exit that Close receives from *)
| AwMutex                (* holds a mutex for its whole life that Close locks *)
| AwJoined               (* started and joined by one call (Close itself, or an operation) before that call returns *)
| AwParent (p : gclass)  (* joined by a goroutine of class p through a local WaitGroup / channel *)
| AwSelf.                (* not awaited: ends by itself once its context is cancelled, within its own timeout *)

Definition class_await (g : gclass) : await :=
  match g with
  | GDhtLoop => AwWaitGroup
  | GDhtProbe => AwSelf
  | GDhtCloseHelper => AwJoined
  | GOp => AwSelf
  | GRtLoop => AwWaitGroup
  | GRtRequest => AwWaitGroup
  | GRtPing => AwParent GRtLoop
  | GPmGc => AwDoneChan
  | GVsGc => AwDoneChan
  | GFrtCrawler => AwWaitGroup
  | GFrtSubscriber => AwWaitGroup
  | GCrawlWorker => AwParent GFrtCrawler
  | GMsgSender => AwSelf
  | GProvRun => AwWaitGroup
  | GProvWorker => AwWaitGroup
  | GProvInner => AwParent GProvWorker
  | GConnProbe => AwMutex
  | GBufWorker => AwDoneChan
  | GProvDualHelper => AwJoined
  | GKsWorker => AwDoneChan
  | GRksWorker => AwDoneChan
  | GRksWatch => AwSelf
  end.

Definition gclass_eqb (a b : gclass) : bool :=
  match a, b with
  | GDhtLoop, GDhtLoop | GDhtProbe, GDhtProbe | GDhtCloseHelper, GDhtCloseHelper | GOp, GOp
  | GRtLoop, GRtLoop | GRtRequest, GRtRequest | GRtPing, GRtPing | GPmGc, GPmGc | GVsGc, GVsGc
  | GFrtCrawler, GFrtCrawler | GFrtSubscriber, GFrtSubscriber | GCrawlWorker, GCrawlWorker | GMsgSender, GMsgSender
  | GProvRun, GProvRun | GProvWorker, GProvWorker | GProvInner, GProvInner | GConnProbe, GConnProbe
  | GBufWorker, GBufWorker | GProvDualHelper, GProvDualHelper | GKsWorker, GKsWorker | GRksWorker, GRksWorker
  | GRksWatch, GRksWatch => true
  | _, _ => false
  end.

(* ---- the table tying the regenerated inventory to the classes ------------------------------------ *)
(* One row per start site, keyed by (file, enclosing function, ordinal in that function), with the class
   of the goroutine and the tracking the model relies on (the WaitGroup expression, or "untracked"; and the
   lock under whose RLock the registration is made, for the classes registered under lock + flag). *)
Record row := { r_file : string; r_func : string; r_idx : nat; r_class : gclass; r_track : string;
                r_guard : string   (* the lock whose RLock() precedes the registration in the same function, or "" *) }.
Definition R f fn i c t : row := {| r_file := f; r_func := fn; r_idx := i; r_class := c; r_track := t; r_guard := "" |}.
Definition Rg f fn i c t g : row := {| r_file := f; r_func := fn; r_idx := i; r_class := c; r_track := t; r_guard := g |}.

Definition site_table : list row := [
  R "dht.go" "New" 0 GDhtLoop "dht.wg";
  R "dht.go" "IpfsDHT.runFixLowPeersLoop" 0 GDhtLoop "dht.wg";
  R "dht.go" "IpfsDHT.rtPeerLoop" 0 GDhtLoop "dht.wg";
  R "dht.go" "IpfsDHT.peerFound" 0 GDhtProbe "untracked";
  R "dht.go" "IpfsDHT.Close" 0 GDhtCloseHelper "untracked";
  R "subscriber_notifee.go" "IpfsDHT.startNetworkSubscriber" 0 GDhtLoop "dht.wg";
  R "events.go" "RegisterForLookupEvents" 0 GOp "untracked";
  R "lookup_optim.go" "IpfsDHT.optimisticProvide" 0 GOp "untracked";
  R "lookup_optim.go" "IpfsDHT.optimisticProvide" 1 GOp "untracked";
  R "lookup_optim.go" "optimisticState.stopFn" 0 GOp "untracked";
  R "lookup_optim.go" "optimisticState.waitForRPCs" 0 GOp "untracked";
  R "query.go" "IpfsDHT.runLookupWithFollowup" 0 GOp "untracked";
  R "query.go" "query.spawnQuery" 0 GOp "q.waitGroup";
  R "records.go" "IpfsDHT.GetPublicKey" 0 GOp "untracked";
  R "records.go" "IpfsDHT.GetPublicKey" 1 GOp "untracked";
  R "routing.go" "IpfsDHT.PutValue" 0 GOp "wg";
  R "routing.go" "IpfsDHT.SearchValue" 0 GOp "untracked";
  R "routing.go" "IpfsDHT.updatePeerValues" 0 GOp "untracked";
  R "routing.go" "IpfsDHT.getValues" 0 GOp "untracked";
  R "routing.go" "IpfsDHT.classicProvide" 0 GOp "wg";
  R "routing.go" "IpfsDHT.FindProvidersAsync" 0 GOp "untracked";
  R "dual/dual.go" "DHT.FindProvidersAsync" 0 GOp "untracked";
  R "dual/dual.go" "DHT.FindPeer" 0 GOp "wg";
  R "dual/dual.go" "DHT.FindPeer" 1 GOp "wg";
  R "dual/dual.go" "DHT.GetValue" 0 GOp "lanWaiter";
  R "fullrt/dht.go" "NewFullRT" 0 GFrtCrawler "rt.wg";
  R "fullrt/dht.go" "NewFullRT" 1 GFrtSubscriber "rt.wg";
  R "fullrt/dht.go" "workers" 0 GOp "untracked";
  R "fullrt/dht.go" "FullRT.SearchValue" 0 GOp "untracked";
  R "fullrt/dht.go" "FullRT.updatePeerValues" 0 GOp "untracked";
  R "fullrt/dht.go" "FullRT.getValues" 0 GOp "untracked";
  R "fullrt/dht.go" "FullRT.execOnMany" 0 GOp "untracked";
  Rg "fullrt/dht.go" "FullRT.bulkMessageSend" 0 GOp "wg" "dht.kMapLk";
  R "fullrt/dht.go" "FullRT.FindProvidersAsync" 0 GOp "untracked";
  R "fullrt/dht.go" "FullRT.FindPeer" 0 GOp "wg";
  R "records/providers_manager.go" "NewProviderManager" 0 GPmGc "untracked";
  R "records/value_store.go" "ValueStore.StartGC" 0 GVsGc "untracked";
  Rg "rtrefresh/rt_refresh_manager.go" "RtRefreshManager.Start" 0 GRtLoop "r.refcount" "r.refcountLk";
  Rg "rtrefresh/rt_refresh_manager.go" "RtRefreshManager.Refresh" 0 GRtRequest "r.refcount" "r.refcountLk";
  R "rtrefresh/rt_refresh_manager.go" "RtRefreshManager.pingAndEvictPeers" 0 GRtPing "wg";
  R "crawler/crawler.go" "ctxReadMsg" 0 GMsgSender "untracked";
  R "crawler/crawler.go" "DefaultCrawler.Run" 0 GCrawlWorker "wg";
  R "internal/net/message_manager.go" "messageSenderImpl.OnDisconnect" 0 GMsgSender "untracked";
  R "internal/net/message_manager.go" "peerMessageSender.ctxReadMsg" 0 GMsgSender "untracked";
  R "provider/provider.go" "New" 0 GProvRun "prov.wg";
  R "provider/provider.go" "SweepingProvider.approxPrefixLen" 0 GProvInner "wg";
  R "provider/provider.go" "SweepingProvider.sendProviderRecords" 0 GProvInner "wg";
  Rg "provider/provider.go" "SweepingProvider.handleReprovide" 0 GProvWorker "s.wg" "s.wgLk";
  Rg "provider/provider.go" "SweepingProvider.handleProvide" 0 GProvWorker "s.wg" "s.wgLk";
  Rg "provider/provider.go" "SweepingProvider.catchupPendingWork" 0 GProvWorker "s.wg" "s.wgLk";
  Rg "provider/provider.go" "SweepingProvider.provideLoop" 0 GProvWorker "s.wg" "s.wgLk";
  Rg "provider/provider.go" "SweepingProvider.reprovideLateRegions" 0 GProvWorker "s.wg" "s.wgLk";
  R "provider/provider.go" "SweepingProvider.individualProvide" 0 GProvInner "wg";
  R "provider/buffered/provider.go" "New" 0 GBufWorker "untracked";
  R "provider/dual/provider.go" "SweepingProvider.runOnBoth" 0 GProvDualHelper "untracked";
  R "provider/keystore/keystore.go" "NewKeystore" 0 GKsWorker "untracked";
  R "provider/keystore/resettable_keystore.go" "NewResettableKeystore" 0 GRksWorker "untracked";
  R "provider/keystore/resettable_keystore.go" "ResettableKeystore.ResetCids" 0 GRksWatch "untracked";
  R "provider/internal/connectivity/connectivity.go" "ConnectivityChecker.Start" 0 GConnProbe "untracked";
  R "provider/internal/connectivity/connectivity.go" "ConnectivityChecker.TriggerCheck" 0 GConnProbe "untracked"
].

Definition row_matches (s : gsite) (r : row) : bool :=
  String.eqb (gs_file s) (r_file r) && String.eqb (gs_func s) (r_func r) && Nat.eqb (gs_idx s) (r_idx r).
Definition site_row (s : gsite) : option row := find (row_matches s) site_table.
Definition site_class (s : gsite) : option gclass :=
  match site_row s with Some r => Some (r_class r) | None => None end.

(* the tracking found in the source is the one the model relies on; a class awaited
   through a WaitGroup must be registered with one *)
Definition done_ok (d : gdone) : bool := match d with DoneSome => false | _ => true end.
(* classes whose registration the model takes to be guarded by lock + closing flag (GuardLockFlag) *)
Definition class_guarded (g : gclass) : bool :=
  match g with GProvWorker | GRtLoop | GRtRequest => true | _ => false end.
Definition track_ok (s : gsite) (r : row) : bool :=
  String.eqb (gs_track s) (r_track r) && String.eqb (gs_guard s) (r_guard r) &&
  match class_await (r_class r) with
  | AwWaitGroup => negb (String.eqb (gs_track s) "untracked")
  | _ => true
  end &&
  (if class_guarded (r_class r) then negb (String.eqb (gs_guard s) "") else true) &&
  (* a goroutine registered by an explicit Add reaches the Done calls it owes on every path *)
  done_ok (gs_done s).
Definition site_covered (s : gsite) : bool :=
  match site_row s with Some r => track_ok s r | None => false end.

(* ---- which classes must be gone when Close of a component returns --------------------------------- *)
(* own_ks: the provider created its keystore itself (no WithKeystore option) *)
Definition dht_awaited : list gclass := [GDhtLoop; GDhtCloseHelper; GRtLoop; GRtRequest; GRtPing; GPmGc; GVsGc].
Definition prov_awaited (own_ks : bool) : list gclass :=
  [GProvRun; GProvWorker; GProvInner; GConnProbe] ++ (if own_ks then [GKsWorker] else []).
Definition awaited (c : comp) (own_ks : bool) : list gclass :=
  match c with
  | CDht | CDual => dht_awaited
  | CFullRT => [GFrtCrawler; GFrtSubscriber; GCrawlWorker; GPmGc; GVsGc]
  | CProvMgr => [GPmGc]
  | CValueStore => [GVsGc]
  | CRtRefresh => [GRtLoop; GRtRequest; GRtPing]
  | CProvider => prov_awaited own_ks
  | CBuffered => [GBufWorker]
  | CProvDual => GProvDualHelper :: prov_awaited own_ks
  | CKeystore => [GKsWorker]
  | CResettable => [GRksWorker]
  end.

(* Done on every path: no start site of a class Close of the component has to await (directly, or through a
   parent that joins it with a local WaitGroup) may lose its Done on some path — the regenerated inventory's
   gs_done, computed by go2coq from the body the goroutine runs. *)
Definition comp_done_all (c : comp) : bool :=
  forallb (fun s => match site_class s with
                    | Some g => if existsb (gclass_eqb g) (awaited c true) then done_ok (gs_done s) else true
                    | None => true
                    end) sites.

(* ---- the Close protocol as a machine ------------------------------------------------------------------ *)
Inductive once_kind :=
| OnceSync         (* sync.Once around the body: later callers block until the first has finished *)
| OnceChanSelect   (* select { case <-s.close: (already closed) default: close(s.close); ... }: check and close are two steps *)
| OnceNone.        (* no guard: every caller runs the (idempotent) body: cancel(); wait *)
Inductive guard_kind :=
| GuardLockFlag    (* wgLk.RLock(); if closed() { RUnlock; return }; wg.Add(1); RUnlock()  against  wgLk.Lock(); close(done); Unlock() *)
| GuardNone        (* registrations are not ordered with Close *)
| GuardCtor.       (* goroutines are only registered by the constructor (before the instance is handed out) *)
Inductive wait_kind :=
| WaitWG           (* sync.WaitGroup.Wait: a waiter that slept panics if the counter is non-zero again when it resumes *)
| WaitChan.        (* receive from a channel that is closed when the last goroutine ends *)
Record desc := { d_once : once_kind; d_guard : guard_kind; d_wait : wait_kind;
                 (* every goroutine registered with the WaitGroup reaches its Done on every path (the regenerated
                    inventory's gs_done); when false a registered goroutine may end without decrementing *)
                 d_done_all : bool }.

Definition desc_of (c : comp) : desc :=
  match c with
  | CDht | CDual | CFullRT => {| d_once := OnceNone; d_guard := GuardCtor; d_wait := WaitWG; d_done_all := comp_done_all c |}
  | CProvMgr => {| d_once := OnceNone; d_guard := GuardCtor; d_wait := WaitChan; d_done_all := comp_done_all c |}
  | CValueStore => {| d_once := OnceNone; d_guard := GuardNone; d_wait := WaitChan; d_done_all := comp_done_all c |}     (* StartGC may be called at any time *)
  | CRtRefresh => {| d_once := OnceNone; d_guard := GuardLockFlag; d_wait := WaitWG; d_done_all := comp_done_all c |}    (* Start / Refresh register under refcountLk while !closed *)
  | CProvider => {| d_once := OnceSync; d_guard := GuardLockFlag; d_wait := WaitWG; d_done_all := comp_done_all c |}
  | CBuffered => {| d_once := OnceSync; d_guard := GuardCtor; d_wait := WaitChan; d_done_all := comp_done_all c |}
  | CProvDual => {| d_once := OnceNone; d_guard := GuardCtor; d_wait := WaitChan; d_done_all := comp_done_all c |}       (* closes both providers (each OnceSync), then the keystore *)
  | CKeystore | CResettable => {| d_once := OnceSync; d_guard := GuardCtor; d_wait := WaitChan; d_done_all := comp_done_all c |}   (* closeOnce.Do *)
  end.

(* the protocols the keystores and the refresh manager used before they were repaired (the witnesses of
   what was wrong with them are kept in Proofs/LifecycleProofs.v) *)
Definition desc_keystore_select : desc := {| d_once := OnceChanSelect; d_guard := GuardCtor; d_wait := WaitChan; d_done_all := true |}.
(* the sweeping provider's protocol if one of its registered goroutines could end without Done (what the
   inventory's gs_done = DoneSome would mean) *)
Definition desc_provider_lost_done : desc := {| d_once := OnceSync; d_guard := GuardLockFlag; d_wait := WaitWG; d_done_all := false |}.
Definition desc_rtrefresh_unguarded : desc := {| d_once := OnceNone; d_guard := GuardNone; d_wait := WaitWG; d_done_all := true |}.

(* state of one thread with respect to Close *)
Inductive cst :=
| CIdle
| CEntered        (* passed the once / select check: will run the body *)
| CWaiting        (* has set the closing flag; about to wait *)
| CSleeping       (* found goroutines still registered and went to sleep *)
| CWoken          (* was woken because the count reached zero; has not resumed yet *)
| CDone           (* the wait is over; rest of the body (cleanup) *)
| COnceBlocked    (* sync.Once: another caller is running the body *)
| CEarly          (* OnceChanSelect: saw the close channel closed: returns at once *)
| CReturned
| CPanicked.

Record st := {
  flag : bool;          (* closing flag: done / close channel closed, context cancelled *)
  ctor_done : bool;     (* the constructor has returned the instance *)
  pre : nat;            (* live registered goroutines that were registered before the flag was set *)
  post : nat;           (* live registered goroutines that were registered after the flag was set *)
  leaked : nat;         (* of the [pre] registrations: goroutines that have ended WITHOUT calling Done (the count stays) *)
  closers : nat -> cst;
  once_taken : bool; once_done : bool;
  panicked : bool }.

Definition init : st :=
  {| flag := false; ctor_done := false; pre := 0; post := 0; leaked := 0; closers := fun _ => CIdle;
     once_taken := false; once_done := false; panicked := false |}.

Definition upd (f : nat -> cst) (t : nat) (v : cst) : nat -> cst := fun x => if Nat.eqb x t then v else f x.

Inductive ev :=
| ECtorDone
| ESpawn            (* some path of the instance tries to register and start a goroutine *)
| EExitPre | EExitPost
| EExitLeak         (* a goroutine registered before the flag ends without calling Done *)
| ECloseEnter (t : nat)
| ECloseSet (t : nat)
| EWaitFast (t : nat)   (* nothing registered: the wait returns without sleeping *)
| ESleep (t : nat)
| EWake (t : nat)
| EResume (t : nat)
| ECloseRet (t : nat).

Definition set_closer (s : st) (t : nat) (v : cst) : st :=
  {| flag := flag s; ctor_done := ctor_done s; pre := pre s; post := post s; leaked := leaked s; closers := upd (closers s) t v;
     once_taken := once_taken s; once_done := once_done s; panicked := panicked s |}.

Definition step (d : desc) (s : st) (e : ev) : option st :=
  match e with
  | ECtorDone =>
      Some {| flag := flag s; ctor_done := true; pre := pre s; post := post s; leaked := leaked s; closers := closers s;
              once_taken := once_taken s; once_done := once_done s; panicked := panicked s |}
  | ESpawn =>
      let add_pre := {| flag := flag s; ctor_done := ctor_done s; pre := S (pre s); post := post s; leaked := leaked s; closers := closers s;
                        once_taken := once_taken s; once_done := once_done s; panicked := panicked s |} in
      let add_post := {| flag := flag s; ctor_done := ctor_done s; pre := pre s; post := S (post s); leaked := leaked s; closers := closers s;
                         once_taken := once_taken s; once_done := once_done s; panicked := panicked s |} in
      match d_guard d with
      | GuardLockFlag => if flag s then Some s (* `if s.closed() { return }`: nothing is registered *) else Some add_pre
      | GuardNone => if flag s then Some add_post else Some add_pre
      | GuardCtor => if ctor_done s then None (* no registration site outside the constructor *)
                     else if flag s then Some add_post else Some add_pre
      end
  | EExitPre =>
      (* only a goroutine that is still alive can end and call Done *)
      match pre s with
      | O => None
      | S n => if Nat.leb (pre s) (leaked s) then None else
               Some {| flag := flag s; ctor_done := ctor_done s; pre := n; post := post s; leaked := leaked s; closers := closers s;
                       once_taken := once_taken s; once_done := once_done s; panicked := panicked s |}
      end
  | EExitLeak =>
      if negb (d_done_all d) && Nat.ltb (leaked s) (pre s)
      then Some {| flag := flag s; ctor_done := ctor_done s; pre := pre s; post := post s; leaked := S (leaked s); closers := closers s;
                   once_taken := once_taken s; once_done := once_done s; panicked := panicked s |}
      else None
  | EExitPost =>
      match post s with
      | O => None
      | S n => Some {| flag := flag s; ctor_done := ctor_done s; pre := pre s; post := n; leaked := leaked s; closers := closers s;
                       once_taken := once_taken s; once_done := once_done s; panicked := panicked s |}
      end
  | ECloseEnter t =>
      (* the instance is only handed out (or closed by its failing constructor) once construction is over *)
      if negb (ctor_done s) then None else
      match closers s t with
      | CIdle | CReturned =>
          match d_once d with
          | OnceSync =>
              if once_taken s then Some (set_closer s t COnceBlocked)
              else Some {| flag := flag s; ctor_done := ctor_done s; pre := pre s; post := post s; leaked := leaked s; closers := upd (closers s) t CEntered;
                           once_taken := true; once_done := once_done s; panicked := panicked s |}
          | OnceChanSelect => if flag s then Some (set_closer s t CEarly) else Some (set_closer s t CEntered)
          | OnceNone => Some (set_closer s t CEntered)
          end
      | _ => None
      end
  | ECloseSet t =>
      match closers s t with
      | CEntered =>
          (* close(s.close) on a channel that is already closed panics *)
          let boom := match d_once d with OnceChanSelect => flag s | _ => false end in
          Some {| flag := true; ctor_done := ctor_done s; pre := pre s; post := post s; leaked := leaked s;
                  closers := upd (closers s) t (if boom then CPanicked else CWaiting);
                  once_taken := once_taken s; once_done := once_done s; panicked := panicked s || boom |}
      | _ => None
      end
  | EWaitFast t =>
      match closers s t with
      | CWaiting => if Nat.eqb (pre s + post s) 0 then Some (set_closer s t CDone) else None
      | _ => None
      end
  | ESleep t =>
      match closers s t with
      | CWaiting => if Nat.eqb (pre s + post s) 0 then None else Some (set_closer s t CSleeping)
      | _ => None
      end
  | EWake t =>
      match closers s t with
      | CSleeping => if Nat.eqb (pre s + post s) 0 then Some (set_closer s t CWoken) else None
      | _ => None
      end
  | EResume t =>
      match closers s t with
      | CWoken =>
          (* WaitGroup.Wait: "WaitGroup is reused before previous Wait has returned" *)
          let boom := match d_wait d with WaitWG => negb (Nat.eqb (pre s + post s) 0) | WaitChan => false end in
          Some {| flag := flag s; ctor_done := ctor_done s; pre := pre s; post := post s; leaked := leaked s;
                  closers := upd (closers s) t (if boom then CPanicked else CDone);
                  once_taken := once_taken s; once_done := once_done s; panicked := panicked s || boom |}
      | _ => None
      end
  | ECloseRet t =>
      match closers s t with
      | CDone =>
          Some {| flag := flag s; ctor_done := ctor_done s; pre := pre s; post := post s; leaked := leaked s; closers := upd (closers s) t CReturned;
                  once_taken := once_taken s; once_done := match d_once d with OnceSync => true | _ => once_done s end;
                  panicked := panicked s |}
      | COnceBlocked => if once_done s then Some (set_closer s t CReturned) else None
      | CEarly => Some (set_closer s t CReturned)
      | _ => None
      end
  end.

Fixpoint run (d : desc) (s : st) (evs : list ev) : option st :=
  match evs with
  | [] => Some s
  | e :: r => match step d s e with Some s' => run d s' r | None => None end
  end.

(* a thread is inside Close *)
Definition active (c : cst) : bool :=
  match c with CIdle | CReturned | CPanicked => false | _ => true end.

(* sequential use of Close: a thread only enters while no other thread is inside.  [others] bounds the
   thread identifiers in use. *)
Fixpoint none_active (f : nat -> cst) (n : nat) : bool :=
  match n with O => true | S k => negb (active (f k)) && none_active f k end.
Fixpoint run_seq (bound : nat) (d : desc) (s : st) (evs : list ev) : option st :=
  match evs with
  | [] => Some s
  | e :: r =>
      let ok := match e with ECloseEnter t => Nat.ltb t bound && none_active (closers s) bound | _ => true end in
      if ok then match step d s e with Some s' => run_seq bound d s' r | None => None end else None
  end.

(* ---- constructors: what is running at each point where they can fail --------------------------------- *)
Inductive res_item :=
| RG (g : gclass)        (* a goroutine of that class *)
| RSub (name : string).  (* an event-bus subscription *)
Definition res_eqb (a b : res_item) : bool :=
  match a, b with
  | RG x, RG y => gclass_eqb x y
  | RSub x, RSub y => String.eqb x y
  | _, _ => false
  end.
Inductive cstep :=
| CStart (r : res_item)
| CFailPt (name : string) (panics : bool) (stops : list res_item).   (* an error return (or a panic) and what the error path stops *)

(* everything a running standard DHT has: Close stops all of it (the subscription is closed by the subscriber goroutine's defer) *)
Definition dht_running : list res_item := [RG GPmGc; RG GVsGc; RSub "dht"; RG GDhtLoop; RG GRtLoop].
Definition prov_running : list res_item := [RG GConnProbe; RG GProvRun].

Definition ctor_script (c : comp) : list cstep :=
  match c with
  | CDht =>
      [ CFailPt "options / fallbacks / validate" false [];
        CFailPt "makeDHT: routing table" false [];
        CFailPt "makeDHT: provider manager" false [];
        CStart (RG GPmGc);
        (* from here on `defer func() { if err != nil { err = errors.Join(err, dht.Close()) } }()` *)
        CStart (RG GVsGc);
        CFailPt "protocol messenger" false dht_running;
        CFailPt "invalid mode" false dht_running;
        CFailPt "event bus subscription" false dht_running;
        CStart (RSub "dht"); CStart (RG GDhtLoop); CStart (RG GRtLoop) ]
  | CDual =>
      [ CFailPt "options" false [];
        CFailPt "WAN: dht.New" false [];
        CStart (RG GPmGc); CStart (RG GVsGc); CStart (RSub "dht"); CStart (RG GDhtLoop); CStart (RG GRtLoop);
        CFailPt "LAN: dht.New" false dht_running;       (* errors.Join(err, wan.Close()) *)
        CStart (RG GPmGc); CStart (RG GVsGc); CStart (RSub "dht"); CStart (RG GDhtLoop); CStart (RG GRtLoop) ]
  | CFullRT =>
      [ CFailPt "options / validate / bucket size / messenger / crawler" false [];
        CFailPt "event bus subscription" false [];
        CStart (RSub "fullrt");
        CFailPt "provider manager" false [RSub "fullrt"];    (* cancel(); sub.Close() *)
        CStart (RG GPmGc);
        (* `if dhtcfg.BootstrapPeers != nil`: a missing BootstrapPeers option is no failure point any more *)
        CStart (RG GFrtCrawler); CStart (RG GFrtSubscriber) ]
  | CProvMgr => [ CFailPt "lru" false []; CFailPt "options" false []; CStart (RG GPmGc) ]
  | CValueStore => [ CStart (RG GVsGc) ]
  | CRtRefresh => [ CStart (RG GRtLoop) ]
  | CProvider =>
      [ CFailPt "options" false [];
        CStart (RG GKsWorker);                                   (* only without WithKeystore *)
        CFailPt "meter" false [RG GKsWorker];                    (* cleanup(cleanupFuncs) *)
        CFailPt "connectivity checker" false [RG GKsWorker];     (* cancelCtx(); cleanup(cleanupFuncs) *)
        CStart (RG GConnProbe); CStart (RG GProvRun) ]
  | CBuffered => [ CStart (RG GBufWorker) ]
  | CProvDual =>
      [ CFailPt "nil DHT / options" false [];
        CStart (RG GKsWorker);                                   (* only without WithKeystore *)
        CFailPt "provider.New (LAN)" false [RG GKsWorker];       (* closes the providers started so far (none), then cleanupFuncs *)
        CStart (RG GConnProbe); CStart (RG GProvRun);
        CFailPt "provider.New (WAN)" false (RG GKsWorker :: prov_running);   (* LAN provider Close, then cleanupFuncs *)
        CStart (RG GConnProbe); CStart (RG GProvRun) ]
  | CKeystore => [ CFailPt "options" false []; CStart (RG GKsWorker) ]
  | CResettable =>
      [ CFailPt "options" false []; CFailPt "read marker" false []; CFailPt "correct marker" false [];
        CFailPt "datastore factory" false []; CStart (RG GRksWorker) ]
  end.

Definition remove_res (l : list res_item) (x : res_item) : list res_item :=
  filter (fun y => negb (res_eqb x y)) l.
(* what is still running after the error path of each failure point, with the name of the point *)
Fixpoint leftovers (started : list res_item) (script : list cstep) : list (string * bool * list res_item) :=
  match script with
  | [] => []
  | CStart r :: rest => leftovers (started ++ [r]) rest
  | CFailPt name p stops :: rest => (name, p, fold_left remove_res stops started) :: leftovers started rest
  end.
Definition point_clean (x : string * bool * list res_item) : bool :=
  match x with (_, p, l) => negb p && match l with [] => true | _ => false end end.
Definition ctor_clean (c : comp) : bool := forallb point_clean (leftovers [] (ctor_script c)).

(* ---- ResetCids start handshake (resettable_keystore.go ResetCids / worker / handleResetOp) -------------- *)
(* The caller sends opStart to the worker and then waits for the answer, which the worker sends on an
   UNBUFFERED channel; the caller looks at its context only after it has the answer (`if err := <-opsChan`,
   since the fix "ResetCids always collects the worker's answer to the start request"; before it the caller
   could leave on ctx.Done() while the worker was handling opStart, which wedged the worker and Close).
   Close waits for the worker (<-s.done). *)
Inductive rk_caller := RkIdle | RkSent | RkGotAnswer | RkLeft.
Inductive rk_worker := RwLoop | RwHandling | RwAnswering | RwExited.
Record rk := { rk_c : rk_caller; rk_w : rk_worker; rk_close_req : bool; rk_close_ret : bool }.
Definition rk0 : rk := {| rk_c := RkIdle; rk_w := RwLoop; rk_close_req := false; rk_close_ret := false |}.
Inductive rkev :=
| RkSend          (* s.resetOps <- opStart accepted by the worker's select *)
| RkPrepared      (* the worker has run prepareAltDs and reaches `op.response <- ...` *)
| RkDeliver       (* the unbuffered send meets the caller's receive *)
| RkCancel        (* the caller, holding the answer, sees its context done in the Phase A loop and returns (deferred cleanup) *)
| RkCloseCall     (* Close: close(s.close) *)
| RkWorkerExit    (* the worker's select sees s.close *)
| RkCloseRet.     (* <-s.done returns *)
Definition rk_step (s : rk) (e : rkev) : option rk :=
  match e with
  | RkSend => match rk_c s, rk_w s with
              | RkIdle, RwLoop => Some {| rk_c := RkSent; rk_w := RwHandling; rk_close_req := rk_close_req s; rk_close_ret := rk_close_ret s |}
              | _, _ => None end
  | RkPrepared => match rk_w s with
                  | RwHandling => Some {| rk_c := rk_c s; rk_w := RwAnswering; rk_close_req := rk_close_req s; rk_close_ret := rk_close_ret s |}
                  | _ => None end
  | RkDeliver => match rk_c s, rk_w s with
                 | RkSent, RwAnswering => Some {| rk_c := RkGotAnswer; rk_w := RwLoop; rk_close_req := rk_close_req s; rk_close_ret := rk_close_ret s |}
                 | _, _ => None end
  | RkCancel => match rk_c s with
                | RkGotAnswer => Some {| rk_c := RkLeft; rk_w := rk_w s; rk_close_req := rk_close_req s; rk_close_ret := rk_close_ret s |}
                | _ => None end
  | RkCloseCall => Some {| rk_c := rk_c s; rk_w := rk_w s; rk_close_req := true; rk_close_ret := rk_close_ret s |}
  | RkWorkerExit => match rk_w s with
                    | RwLoop => if rk_close_req s then Some {| rk_c := rk_c s; rk_w := RwExited; rk_close_req := true; rk_close_ret := rk_close_ret s |} else None
                    | _ => None end
  | RkCloseRet => match rk_w s with
                  | RwExited => Some {| rk_c := rk_c s; rk_w := RwExited; rk_close_req := rk_close_req s; rk_close_ret := true |}
                  | _ => None end
  end.
Fixpoint rk_run (s : rk) (evs : list rkev) : option rk :=
  match evs with
  | [] => Some s
  | e :: r => match rk_step s e with Some s' => rk_run s' r | None => None end
  end.
