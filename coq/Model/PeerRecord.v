(* Model of the peer-record arithmetic of pb/message.go (shared by C09 and C10).
   Definitions only.

   Byte strings are abstracted to (identity tag, length): the harness maps every
   distinct byte string of a case to a distinct tag, the empty string has length
   0.  Multiaddrs are abstracted to (identity tag, encoded length, decodable?)
   where "decodable" is the verdict of ma.NewMultiaddrBytes (modelled, not
   verified).  Sizes are Z (Go int; nothing here approaches 2^63).

   Transcribed:
     protowire.SizeVarint / SizeTag / SizeBytes     (google.golang.org/protobuf/encoding/protowire)
     boundPeerRecordAddrs                           (pb/message.go:44-69)
     Message_Peer.Addresses, PBPeerToPeerInfo       (pb/message.go:112-118,176-193)
     PBPeersToPeerInfos                             (pb/message.go:162-173)
     peerInfoToPBPeer / PeerInfoToPBPeer            (pb/message.go:97-107,131-136)
     proto.Size of a Message_Peer built by this package (proto3: zero scalars and
     empty bytes are not emitted, every element of a repeated field is). *)
From Verif.Lib Require Import GoSem Bits.
From Verif.Gen Require Import Consts.
Local Open Scope Z_scope.

(* ---- protowire --------------------------------------------------------- *)
(* bits.Len64 *)
Definition len64 (v : Z) : Z := if v <=? 0 then 0 else Z.log2 v + 1.
(* func SizeVarint(v uint64) int { return int(9*uint32(bits.Len64(v))+64) / 64 } *)
Definition size_varint (v : Z) : Z := (9 * len64 v + 64) / 64.
(* SizeTag(num) = SizeVarint(EncodeTag(num, 0)) = SizeVarint(uint64(num)<<3) *)
Definition size_tag (num : Z) : Z := size_varint (num * 8).
(* SizeBytes(n) = SizeVarint(uint64(n)) + n *)
Definition size_bytes (n : Z) : Z := size_varint n + n.
(* uint64(int64(c)) for an int32 enum value c: negative values sign-extend *)
Definition u64_of_i32 (c : Z) : Z := if c <? 0 then c + 2 ^ 64 else c.

(* ---- abstract byte strings, addresses, peer records --------------------- *)
Record bstr := { b_tag : N; b_len : Z }.
Definition bempty : bstr := {| b_tag := 0%N; b_len := 0 |}.
(* bytes.Equal / string ==: nil and empty are equal *)
Definition bstr_eqb (a b : bstr) : bool :=
  (b_len a =? b_len b) && ((b_len a =? 0) || N.eqb (b_tag a) (b_tag b)).

Record addr := { a_tag : N; a_len : Z; a_ok : bool }.

(* *Message_Peer: id, addrs, connection (open enum: any int32) *)
Record apeer := { p_id : bstr; p_addrs : list addr; p_conn : Z }.

(* peer.AddrInfo: the addresses are decoded multiaddrs *)
Record ainfo := { ai_id : bstr; ai_addrs : list addr }.

(* ---- boundPeerRecordAddrs ---------------------------------------------- *)
(* connectionFieldSize := SizeTag(peerConnectionField) + SizeVarint(uint64(int64(pbp.Connection))) *)
Definition conn_field_size (c : Z) : Z := size_tag peerConnectionField + size_varint (u64_of_i32 c).
(* size := SizeTag(peerIDField) + SizeBytes(len(pbp.Id)) + connectionFieldSize *)
Definition base_size (id : bstr) (c : Z) : Z :=
  size_tag peerIDField + size_bytes (b_len id) + conn_field_size c.
(* peerAddrsTagSize + SizeBytes(len(addr)) *)
Definition addr_cost (a : addr) : Z := size_tag peerAddrsField + size_bytes (a_len a).

(* the loop: for i, addr := range Addrs { size += cost; if size > Max { Addrs = Addrs[:i]; return } } *)
Fixpoint take_fitting (size : Z) (l : list addr) : list addr :=
  match l with
  | [] => []
  | a :: l' =>
      let size' := size + addr_cost a in
      if size' >? MaxPeerRecordSize then [] else a :: take_fitting size' l'
  end.

Definition bound_addrs (p : apeer) : apeer :=
  {| p_id := p_id p; p_addrs := take_fitting (base_size (p_id p) (p_conn p)) (p_addrs p); p_conn := p_conn p |}.

(* what the loop has counted for a record *)
Definition addrs_cost (l : list addr) : Z := fold_right (fun a s => addr_cost a + s) 0 l.
Definition accounted_size (p : apeer) : Z := base_size (p_id p) (p_conn p) + addrs_cost (p_addrs p).

(* proto.Size of the record (no unknown fields) *)
Definition proto_size_peer (p : apeer) : Z :=
  (if b_len (p_id p) =? 0 then 0 else size_tag peerIDField + size_bytes (b_len (p_id p)))
  + addrs_cost (p_addrs p)
  + (if p_conn p =? 0 then 0 else conn_field_size (p_conn p)).

(* ---- ingress: PBPeersToPeerInfos ---------------------------------------- *)
Definition is_some {A} (o : option A) : bool := match o with Some _ => true | None => false end.
(* proto.Unmarshal allocates every element of a repeated message field *)
Definition all_some {A} (l : list (option A)) : bool := forallb is_some l.

(* Message_Peer.Addresses: undecodable addresses are skipped *)
Definition addresses (p : apeer) : list addr := filter a_ok (p_addrs p).

(* boundPeerRecordAddrs(pbp) is nil-safe; PBPeerToPeerInfo reads pbp.Id through
   the pointer: a nil entry panics.  (proto.Unmarshal never produces a nil entry.) *)
Definition pb_peer_to_info (e : option apeer) : res ainfo :=
  p <- deref (option_map bound_addrs e) "pbp.Id: nil *Message_Peer" ;;
  Ok {| ai_id := p_id p; ai_addrs := addresses p |}.

Fixpoint pb_peers_to_infos (l : list (option apeer)) : res (list ainfo) :=
  match l with
  | [] => Ok []
  | e :: l' =>
      i <- pb_peer_to_info e ;;
      r <- pb_peers_to_infos l' ;;
      Ok (i :: r)
  end.

(* ---- egress: peerInfoToPBPeer, PeerInfoToPBPeer ------------------------- *)
(* every address of a peer.AddrInfo is a multiaddr (decodable); Connection is
   still 0 when the record is bounded, and set afterwards to
   ConnectionType(Connectedness) which is 0 (NOT_CONNECTED) or 1 (CONNECTED). *)
Definition peer_info_to_pb (i : ainfo) : apeer :=
  bound_addrs {| p_id := ai_id i; p_addrs := ai_addrs i; p_conn := 0 |}.
Definition peer_info_to_pb_conn (connected : bool) (i : ainfo) : apeer :=
  let p := peer_info_to_pb i in
  {| p_id := p_id p; p_addrs := p_addrs p; p_conn := if connected then 1 else 0 |}.
