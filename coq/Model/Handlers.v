(* Model of the server side of the DHT RPCs (C09).  Definitions only.

   Transcribed from
     dht_net.go:36-158     handleNewMessage: mode gate, dispatch, reply or reset
     handlers.go           handlerForMsgType (generated: Gen/Dispatch.v), handleGetValue,
                           handlePutValue, handlePing, handleFindPeer, handleGetProviders,
                           appendFittingProviderPeers, handleAddProvider, stripPeerRecords
     dht.go:753-790        closestPeersToQuery
     dht.go:976-981        filterAddrs
     pb/message.go         NewMessage, Get/SetClusterLevel, PeerInfosToPBPeers (Model/PeerRecord.v)

   The node is abstracted to what the handlers read:
     - routing table: peers with their Kademlia identifier (sha256, supplied by the
       harness, which passes its leading 60 bits); RoutingTable.NearestPeers(k, n) is
       *specified* as the n members nearest to k in the XOR metric (go-libp2p-kbucket,
       modelled not verified)
     - peerstore: id -> addresses in the order the peerstore returns them
     - connectedness, address filter (a predicate per address)
     - value store / provider store: the outcome of the one call a handler makes for
       the request's key (internals: C05, C07)
   Byte strings and addresses as in Model/PeerRecord.v. *)
From Verif.Lib Require Import GoSem Bits.
From Verif.Gen Require Import Consts Dispatch.
From Verif.Model Require Import PeerRecord.
Local Open Scope Z_scope.

(* network.MessageSizeMax (go-libp2p core/network): 4 MiB.  Not a constant of
   /repo; the harness checks the value against the linked library. *)
Definition MessageSizeMax : Z := 4194304.

(* ---- requests and responses -------------------------------------------- *)
Record arecord := { r_key : bstr; r_value : bstr }.

(* a decoded request: every sub-message optional, open enums, any int32 *)
Record request := {
  q_type : Z;
  q_key : bstr;
  q_kad : N;                       (* kb.ConvertKey(key) *)
  q_cluster : Z;                   (* ClusterLevelRaw *)
  q_record : option arecord;
  q_closer : list (option apeer);
  q_provs : list (option apeer)
}.

Record response := {
  s_type : Z;
  s_key : bstr;
  s_cluster : Z;
  s_record : option arecord;
  s_closer : list apeer;
  s_provs : list apeer
}.

Inductive herr :=
| HNotServer        (* not in server mode: the stream is reset, nothing is read *)
| HNoHandler        (* handlerForMsgType returned nil *)
| HEmptyKey
| HKeyTooLong
| HNilRecord
| HKeyMismatch
| HStore            (* value store / provider store failure *)
| HNoValidProvider.

Inductive outcome :=
| Respond (r : response)
| NoReply                          (* handler returned (nil, nil): nothing written, keep reading *)
| ResetStream (e : herr).

(* ---- the node ----------------------------------------------------------- *)
Record rpeer := { rp_id : bstr; rp_kad : N }.

Record node := {
  n_self : bstr;
  n_server : bool;                 (* getMode() == modeServer *)
  n_values : bool;                 (* valueStore != nil *)
  n_providers : bool;              (* providerStore != nil *)
  n_K : nat;                       (* bucketSize *)
  n_rt : list rpeer;
  n_pstore : list (bstr * list addr);
  n_connected : list bstr;         (* Connectedness(p) == Connected *)
  n_filter : option (list N);      (* addrFilter: tags of the addresses it keeps; None = no filter *)
  n_value : option arecord;        (* valueStore.Get(key): the stored record, if any *)
  n_value_err : bool;              (* valueStore.Get fails *)
  n_put_ok : bool;                 (* valueStore.Put(key, rec) succeeds (validator, selection, datastore) *)
  n_provs : list ainfo;            (* providerStore.GetProviders(key), in the order returned *)
  n_provs_err : bool;              (* GetProviders fails *)
  n_add_fail : bool                (* providerStore.AddProvider fails *)
}.

(* ---- int32 cluster level (pb/message.go:198-214) ------------------------- *)
Definition i32 (x : Z) : Z := (x + 2 ^ 31) mod 2 ^ 32 - 2 ^ 31.
(* level := m.GetClusterLevelRaw() - 1; if level < 0 { return 0 }; return int(level) *)
Definition get_cluster_level (raw : Z) : Z :=
  let level := i32 (raw - 1) in if level <? 0 then 0 else level.
(* lvl := int32(level); m.ClusterLevelRaw = lvl + 1 *)
Definition set_cluster_level (level : Z) : Z := i32 (i32 level + 1).

(* ---- closestPeersToQuery ------------------------------------------------ *)
Definition dist (k : N) (p : rpeer) : N := N.lxor (rp_kad p) k.
Fixpoint insert_by (k : N) (p : rpeer) (l : list rpeer) : list rpeer :=
  match l with
  | [] => [p]
  | x :: l' => if N.leb (dist k p) (dist k x) then p :: l else x :: insert_by k p l'
  end.
Definition sort_by_dist (k : N) (l : list rpeer) : list rpeer := fold_right (insert_by k) [] l.
(* RoutingTable.NearestPeers(k, n) *)
Definition nearest_peers (k : N) (rt : list rpeer) (n : nat) : list rpeer :=
  firstn n (sort_by_dist k rt).

(* for _, p := range closestPeers { skip self; skip from; append;
                                    if len(filtered) >= count { break } } *)
Fixpoint cpq_loop (self from : bstr) (count : nat) (acc : list bstr) (l : list bstr) : list bstr :=
  match l with
  | [] => acc
  | p :: l' =>
      if bstr_eqb p self then cpq_loop self from count acc l'
      else if bstr_eqb p from then cpq_loop self from count acc l'
      else let acc' := acc ++ [p] in
           if (count <=? length acc')%nat then acc' else cpq_loop self from count acc' l'
  end.

Definition closest_peers_to_query (nd : node) (q : request) (from : bstr) (count : nat) : list bstr :=
  cpq_loop (n_self nd) from count []
           (map rp_id (nearest_peers (q_kad q) (n_rt nd) (count + 1))).

(* ---- peerstore, network, filter ----------------------------------------- *)
Fixpoint pstore_addrs (ps : list (bstr * list addr)) (id : bstr) : list addr :=
  match ps with
  | [] => []
  | (i, l) :: ps' => if bstr_eqb i id then l else pstore_addrs ps' id
  end.
(* peerstore.AddrInfos *)
Definition addr_infos (nd : node) (ids : list bstr) : list ainfo :=
  map (fun id => {| ai_id := id; ai_addrs := pstore_addrs (n_pstore nd) id |}) ids.
Definition is_connected (nd : node) (id : bstr) : bool := existsb (bstr_eqb id) (n_connected nd).
(* dht.filterAddrs *)
Definition filter_addrs (nd : node) (l : list addr) : list addr :=
  match n_filter nd with
  | None => l
  | Some keep => filter (fun a => existsb (N.eqb (a_tag a)) keep) l
  end.
(* pb.PeerInfosToPBPeers(dht.host.Network(), infos) *)
Definition infos_to_pb (nd : node) (infos : list ainfo) : list apeer :=
  map (fun i => peer_info_to_pb_conn (is_connected nd (ai_id i)) i) infos.

(* ---- responses ---------------------------------------------------------- *)
(* pb.NewMessage(typ, key, level) *)
Definition new_message (ty : Z) (key : bstr) (level : Z) : response :=
  {| s_type := ty; s_key := key; s_cluster := set_cluster_level level;
     s_record := None; s_closer := []; s_provs := [] |}.

(* the request echoed back with stripPeerRecords applied *)
Definition echo_stripped (q : request) : response :=
  {| s_type := q_type q; s_key := q_key q; s_cluster := q_cluster q;
     s_record := q_record q; s_closer := []; s_provs := [] |}.

(* handleGetValue (handlers.go:50-94) *)
Definition handle_get_value (nd : node) (from : bstr) (q : request) : outcome :=
  if b_len (q_key q) =? 0 then ResetStream HEmptyKey
  else if n_value_err nd then ResetStream HStore
  else
    let resp := new_message (q_type q) (q_key q) (get_cluster_level (q_cluster q)) in
    let closest := closest_peers_to_query nd q from (n_K nd) in
    Respond {| s_type := s_type resp; s_key := s_key resp; s_cluster := s_cluster resp;
               s_record := n_value nd;
               s_closer := infos_to_pb nd (addr_infos nd closest);
               s_provs := [] |}.

(* handlePutValue (handlers.go:108-131) *)
Definition handle_put_value (nd : node) (from : bstr) (q : request) : outcome :=
  if b_len (q_key q) =? 0 then ResetStream HEmptyKey
  else match q_record q with
       | None => ResetStream HNilRecord
       | Some rec =>
           if negb (bstr_eqb (q_key q) (r_key rec)) then ResetStream HKeyMismatch
           else if negb (n_put_ok nd) then ResetStream HStore
           else Respond (echo_stripped q)
       end.

(* handlePing (handlers.go:133-137) *)
Definition handle_ping (nd : node) (from : bstr) (q : request) : outcome :=
  Respond (echo_stripped q).

(* handleFindPeer (handlers.go:139-173) *)
Definition handle_find_peer (nd : node) (from : bstr) (q : request) : outcome :=
  let resp := new_message (q_type q) bempty (get_cluster_level (q_cluster q)) in
  if b_len (q_key q) =? 0 then ResetStream HEmptyKey
  else
    let target := q_key q in
    let closest := closest_peers_to_query nd q from (n_K nd) in
    let closest :=
      match closest with
      | [] => [target]
      | c :: _ => if bstr_eqb c target then closest else target :: closest
      end in
    let with_addresses :=
      filter (fun i => match ai_addrs i with [] => false | _ => true end) (addr_infos nd closest) in
    Respond {| s_type := s_type resp; s_key := s_key resp; s_cluster := s_cluster resp;
               s_record := None; s_closer := infos_to_pb nd with_addresses; s_provs := [] |}.

(* ---- serialized sizes (proto.Size) -------------------------------------- *)
Definition closerPeersField : Z := 8.   (* pb/dht.proto: repeated Peer closerPeers = 8 *)
Definition size_enum (field v : Z) : Z :=
  if v =? 0 then 0 else size_tag field + size_varint (u64_of_i32 v).
Definition size_bytes_field (field : Z) (b : bstr) : Z :=
  if b_len b =? 0 then 0 else size_tag field + size_bytes (b_len b).
(* recpb.Record{key = 1, value = 2}; the time_received string of a stored record
   is not modelled (sizes are only compared for record-less responses) *)
Definition proto_size_record (r : arecord) : Z :=
  size_bytes_field 1 (r_key r) + size_bytes_field 2 (r_value r).
Definition peers_size (field : Z) (l : list apeer) : Z :=
  fold_right (fun p s => size_tag field + size_bytes (proto_size_peer p) + s) 0 l.
(* Message: type = 1, key = 2, record = 3, closerPeers = 8, providerPeers = 9, clusterLevelRaw = 10 *)
Definition proto_size_response (r : response) : Z :=
  size_enum 1 (s_type r) + size_bytes_field 2 (s_key r)
  + match s_record r with None => 0 | Some rec => size_tag 3 + size_bytes (proto_size_record rec) end
  + peers_size closerPeersField (s_closer r) + peers_size providerPeersField (s_provs r)
  + size_enum 10 (s_cluster r).

(* appendFittingProviderPeers (handlers.go:226-237): stops at the first record
   that would push the message past MessageSizeMax *)
Fixpoint append_fitting (size : Z) (recs : list apeer) : list apeer :=
  match recs with
  | [] => []
  | rec :: rest =>
      let size' := size + size_tag providerPeersField + size_bytes (proto_size_peer rec) in
      if size' >? MessageSizeMax then [] else rec :: append_fitting size' rest
  end.

(* handleGetProviders (handlers.go:183-219) *)
Definition handle_get_providers (nd : node) (from : bstr) (q : request) : outcome :=
  if 80 <? b_len (q_key q) then ResetStream HKeyTooLong
  else if b_len (q_key q) =? 0 then ResetStream HEmptyKey
  else
    let resp := new_message (q_type q) (q_key q) (get_cluster_level (q_cluster q)) in
    let closest := closest_peers_to_query nd q from (n_K nd) in
    let resp := {| s_type := s_type resp; s_key := s_key resp; s_cluster := s_cluster resp;
                   s_record := None; s_closer := infos_to_pb nd (addr_infos nd closest);
                   s_provs := [] |} in
    if n_provs_err nd then ResetStream HStore
    else
      let recs := map (fun p => peer_info_to_pb_conn (is_connected nd (ai_id p))
                                  {| ai_id := ai_id p; ai_addrs := filter_addrs nd (ai_addrs p) |})
                      (n_provs nd) in
      Respond {| s_type := s_type resp; s_key := s_key resp; s_cluster := s_cluster resp;
                 s_record := None; s_closer := s_closer resp;
                 s_provs := append_fitting (proto_size_response resp) recs |}.

(* handleAddProvider (handlers.go:239-279): the outcome and the records handed to
   providerStore.AddProvider that were stored *)
Fixpoint add_provider_loop (nd : node) (from : bstr) (pinfos : list ainfo) : list ainfo :=
  match pinfos with
  | [] => []
  | pi :: rest =>
      if negb (bstr_eqb (ai_id pi) from) then add_provider_loop nd from rest
      else match ai_addrs pi with
           | [] => add_provider_loop nd from rest
           | _ =>
               if n_add_fail nd then add_provider_loop nd from rest
               else {| ai_id := ai_id pi; ai_addrs := filter_addrs nd (ai_addrs pi) |}
                      :: add_provider_loop nd from rest
           end
  end.

Definition handle_add_provider (nd : node) (from : bstr) (q : request) : res (outcome * list ainfo) :=
  if 80 <? b_len (q_key q) then Ok (ResetStream HKeyTooLong, [])
  else if b_len (q_key q) =? 0 then Ok (ResetStream HEmptyKey, [])
  else
    pinfos <- pb_peers_to_infos (q_provs q) ;;
    let stored := add_provider_loop nd from pinfos in
    match stored with
    | [] => Ok (ResetStream HNoValidProvider, [])
    | _ => Ok (NoReply, stored)
    end.

(* ---- handleNewMessage, for one decoded request --------------------------- *)
Definition run_handler (h : handler) (nd : node) (from : bstr) (q : request)
  : res (outcome * list ainfo) :=
  match h with
  | handleFindPeer => Ok (handle_find_peer nd from q, [])
  | handlePing => Ok (handle_ping nd from q, [])
  | handleGetValue => Ok (handle_get_value nd from q, [])
  | handlePutValue => Ok (handle_put_value nd from q, [])
  | handleAddProvider => handle_add_provider nd from q
  | handleGetProviders => Ok (handle_get_providers nd from q, [])
  end.

Definition serve (nd : node) (from : bstr) (q : request) : res (outcome * list ainfo) :=
  if negb (n_server nd) then Ok (ResetStream HNotServer, [])
  else match handler_for (q_type q) (n_values nd) (n_providers nd) with
       | None => Ok (ResetStream HNoHandler, [])
       | Some h => run_handler h nd from q
       end.

(* a request as proto.Unmarshal delivers it *)
Definition wire_request (q : request) : bool := all_some (q_closer q) && all_some (q_provs q).
