(* Model of provider/buffered/provider.go (the buffered SweepingProvider wrapper), as
   repaired by /repo commits 7d0480f and b36ad55.  Definitions only.

   The wrapper appends every StartProviding / ProvideOnce / StopProviding call, one
   item per key, to a persistent FIFO (go-dsqueue, TRUSTED to be a FIFO that survives
   Close + New on the same datastore).  A single worker goroutine repeatedly takes up
   to [batchSize] items (queue.GetN), groups them with [getOperations] and calls the
   wrapped provider:

       StartProviding(true,  ops[forceStartProvidingOp])     if non-empty
       StartProviding(false, ops[startProvidingOp])          if non-empty
       StopProviding(        earlyStopOps)                   if non-empty
       ProvideOnce(          ops[provideOnceOp])             if non-empty
       StopProviding(        stopOps)                        if non-empty

   PRIMARY MODEL: [get_op_step] / [get_operations] / [batch_calls] / [worker_calls]
   (second half of this file).  A StopProviding queued before a ProvideOnce of the same
   key, and not overridden by a later StartProviding, goes to the early stop group; an
   item that cannot be parsed ([BBad]: mh.Cast fails in fromBytes) is skipped.

   FORMER PROTOCOLS, kept as descriptions of the code before the two commits, with their
   refutation theorems: [old_get_op_step] / [old_get_operations] / [old_batch_calls] /
   [old_worker_calls] (first half).  There getOperations returned the error of an
   undecodable item and the worker dropped THE WHOLE BATCH, and there was one stop group,
   executed last, which cancelled a ProvideOnce queued after it.

   A key is an identity (N); two multihashes are the same key iff same identity.

   Abstracted: the dsqueue itself (persistence, idle write timer), logging, the
   goroutine structure (one worker; the harness fixes the batch boundaries by
   parking the worker inside a call of the wrapped provider while it enqueues).
   Clear() and RefreshSchedule() are passed straight to the wrapped provider and
   are not queued, so they do not occur here. *)
From Verif.Lib Require Import GoSem Bits.
Local Open Scope N_scope.

Inductive bop :=
| BOnce (k : N)       (* provideOnceOp *)
| BStart (k : N)      (* startProvidingOp *)
| BForce (k : N)      (* forceStartProvidingOp *)
| BStop (k : N)       (* stopProvidingOp *)
| BBad.               (* item whose multihash does not parse *)

Definition memN (x : N) (l : list N) : bool := existsb (N.eqb x) l.
Definition delN (x : N) (l : list N) : list N := filter (fun y => negb (N.eqb y x)) l.
(* map insert: the key set of a Go map[string]struct{} *)
Definition setN (x : N) (l : list N) : list N := if memN x l then l else l ++ [x].

(* the four groups getOperations returns; [g_stop] is the key set of the stopProv map
   (Go iterates it in map order: the harness compares it sorted) *)
Record groups := { g_once : list N; g_start : list N; g_force : list N; g_stop : list N }.
Definition groups0 : groups := {| g_once := []; g_start := []; g_force := []; g_stop := [] |}.

(* FORMER PROTOCOL: one iteration of the loop of getOperations before 7d0480f / b36ad55 *)
Definition old_get_op_step (g : groups) (o : bop) : option groups :=
  match o with
  | BOnce k => Some {| g_once := g_once g ++ [k]; g_start := g_start g; g_force := g_force g; g_stop := g_stop g |}
  | BStart k => Some {| g_once := g_once g; g_start := g_start g ++ [k]; g_force := g_force g;
                        g_stop := delN k (g_stop g) |}
  | BForce k => Some {| g_once := g_once g; g_start := g_start g; g_force := g_force g ++ [k];
                        g_stop := delN k (g_stop g) |}
  | BStop k => Some {| g_once := g_once g; g_start := g_start g; g_force := g_force g;
                       g_stop := setN k (g_stop g) |}
  | BBad => None
  end.

Fixpoint old_get_ops_from (g : groups) (l : list bop) : option groups :=
  match l with
  | [] => Some g
  | o :: l' => match old_get_op_step g o with
               | Some g' => old_get_ops_from g' l'
               | None => None
               end
  end.
(* former getOperations: None = the error return *)
Definition old_get_operations (l : list bop) : option groups := old_get_ops_from groups0 l.

(* the calls made on the wrapped provider *)
Inductive icall :=
| IStart (force : bool) (ks : list N)
| IOnce (ks : list N)
| IStop (ks : list N).

(* executeOperation skips an empty key list *)
Definition call_if (c : list N -> icall) (ks : list N) : list icall :=
  match ks with [] => [] | _ => [c ks] end.

(* FORMER PROTOCOL: one batch (an error drops it; one stop group, executed last) *)
Definition old_batch_calls (l : list bop) : list icall :=
  match old_get_operations l with
  | None => []
  | Some g => call_if (IStart true) (g_force g) ++ call_if (IStart false) (g_start g)
              ++ call_if IOnce (g_once g) ++ call_if IStop (g_stop g)
  end.

(* GetN(batchSize) on a queue nobody appends to: consecutive chunks *)
Fixpoint chunks_fuel (fuel n : nat) (l : list bop) : list (list bop) :=
  match fuel with
  | O => []
  | S f => match l with
           | [] => []
           | _ => firstn n l :: chunks_fuel f n (skipn n l)
           end
  end.
Definition chunks (n : nat) (l : list bop) : list (list bop) := chunks_fuel (length l) n l.

Definition old_worker_calls (batch_size : nat) (l : list bop) : list icall :=
  flat_map old_batch_calls (chunks batch_size l).

(* ---- the effect of calls on the wrapped provider ------------------------------------
   The wrapped SweepingProvider reduced to what the property speaks about, for a node
   that is online and whose workers make no progress while the calls of one batch are
   made (they are made back to back by one goroutine):
     ks   = keystore membership (keys that will be reprovided),
     pend = keys waiting in the provide queue (they will be advertised).
   StartProviding (provider.go:2139, handleProvide:1331): keystore.Put returns the new
   keys; all keys (force) or the new keys are queued.  ProvideOnce: keys are queued.
   StopProviding (2150): provideQueue.Remove + keystore.Delete. *)
Record inner := { ks : list N; pend : list N }.

Definition unionN (a b : list N) : list N := fold_left (fun acc x => setN x acc) b a.
Definition minusN (a b : list N) : list N := filter (fun x => negb (memN x b)) a.

Definition i_apply (s : inner) (c : icall) : inner :=
  match c with
  | IStart force l =>
      let fresh := filter (fun x => negb (memN x (ks s))) l in
      {| ks := unionN (ks s) l; pend := unionN (pend s) (if force then l else fresh) |}
  | IOnce l => {| ks := ks s; pend := unionN (pend s) l |}
  | IStop l => {| ks := minusN (ks s) l; pend := minusN (pend s) l |}
  end.
Definition i_run (s : inner) (cs : list icall) : inner := fold_left i_apply cs s.

(* the same operations applied one by one, directly on the wrapped provider *)
Definition seq_call (o : bop) : list icall :=
  match o with
  | BOnce k => [IOnce [k]]
  | BStart k => [IStart false [k]]
  | BForce k => [IStart true [k]]
  | BStop k => [IStop [k]]
  | BBad => []     (* not reachable through the typed API with a valid multihash *)
  end.
Definition seq_calls (l : list bop) : list icall := flat_map seq_call l.

Definition is_bad (o : bop) : bool := match o with BBad => true | _ => false end.
Definition valid_ops (l : list bop) : bool := forallb (fun o => negb (is_bad o)) l.

(* no key has a ProvideOnce queued after a StopProviding of the same key *)
Fixpoint no_once_after_stop_from (stopped : list N) (l : list bop) : bool :=
  match l with
  | [] => true
  | BStop k :: l' => no_once_after_stop_from (setN k stopped) l'
  | BOnce k :: l' => negb (memN k stopped) && no_once_after_stop_from stopped l'
  | BStart k :: l' | BForce k :: l' => no_once_after_stop_from (delN k stopped) l'
  | BBad :: l' => no_once_after_stop_from stopped l'
  end.
Definition no_once_after_stop (l : list bop) : bool := no_once_after_stop_from [] l.

(* ---- PRIMARY MODEL: getOperations and the worker loop as they are now ------------------------------
   (provider.go:106-141 getOperations, :185-211 worker).  Theorems: Proofs/BufferedProofs.v
   (lemmas fix_...): keystore equivalence for all operation lists including undecodable
   items and every batching, and both inclusions on the keys waiting to be advertised
   without side condition. *)
Record fgroups := { fg : groups; fg_early : list N }.
Definition fgroups0 : fgroups := {| fg := groups0; fg_early := [] |}.

Definition get_op_step (a : fgroups) (o : bop) : fgroups :=
  let g := fg a in
  match o with
  | BOnce k =>
      if memN k (g_stop g)
      then {| fg := {| g_once := g_once g ++ [k]; g_start := g_start g; g_force := g_force g;
                       g_stop := delN k (g_stop g) |};
              fg_early := setN k (fg_early a) |}
      else {| fg := {| g_once := g_once g ++ [k]; g_start := g_start g; g_force := g_force g;
                       g_stop := g_stop g |};
              fg_early := fg_early a |}
  | BStart k => {| fg := {| g_once := g_once g; g_start := g_start g ++ [k]; g_force := g_force g;
                            g_stop := delN k (g_stop g) |};
                   fg_early := delN k (fg_early a) |}
  | BForce k => {| fg := {| g_once := g_once g; g_start := g_start g; g_force := g_force g ++ [k];
                            g_stop := delN k (g_stop g) |};
                   fg_early := delN k (fg_early a) |}
  | BStop k => {| fg := {| g_once := g_once g; g_start := g_start g; g_force := g_force g;
                           g_stop := setN k (g_stop g) |};
                  fg_early := fg_early a |}
  | BBad => a
  end.
Definition get_operations (l : list bop) : fgroups := fold_left get_op_step l fgroups0.

Definition batch_calls (l : list bop) : list icall :=
  let a := get_operations l in
  call_if (IStart true) (g_force (fg a)) ++ call_if (IStart false) (g_start (fg a))
  ++ call_if IStop (fg_early a) ++ call_if IOnce (g_once (fg a)) ++ call_if IStop (g_stop (fg a)).

(* the worker on a queue nobody appends to: consecutive chunks of batchSize items *)
Definition worker_calls (batch_size : nat) (l : list bop) : list icall :=
  flat_map batch_calls (chunks batch_size l).
