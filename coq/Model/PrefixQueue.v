(* Model of provider/internal/queue/prefix.go (prefixQueue) and reprovide.go.
   Definitions only.  The deque and the prefixes trie are modelled separately
   (a list in queue order and a list used as a set) because the code keeps two
   structures in step; the theorems show they never drift apart.

   The go-libdht trie is modelled, for a set of pairwise non-comparable
   bitstrings, by its set semantics:
     FindSubtrie t p      = the members that have p as prefix   (ok iff non-empty)
     FindPrefixOfKey t k  = the member that is a prefix of k    (at most one)
   This is the behaviour transcribed and proved for the structural trie in
   Model/Keyspace.v (C18); here it is validated by the correspondence check. *)
From Verif.Lib Require Import GoSem Bits.

Record pq := { dq : list bits;   (* deque, front first *)
               tr : list bits }. (* prefixes trie, as a set *)

Definition pq_empty : pq := {| dq := []; tr := [] |}.

Definition mem (p : bits) (l : list bits) : bool := existsb (bits_eqb p) l.
Definition tr_remove (t : list bits) (p : bits) : list bits :=
  filter (fun e => negb (bits_eqb e p)) t.
Definition tr_add (t : list bits) (p : bits) : list bits :=
  if mem p t then t else p :: t.

(* keyspace.FindSubtrie + AllKeys *)
Definition superstrings (t : list bits) (p : bits) : list bits := filter (is_prefix p) t.
(* keyspace.FindPrefixOfKey *)
Definition find_prefix_of (t : list bits) (k : bits) : option bits :=
  find (fun e => is_prefix e k) t.

(* deque.Index *)
Fixpoint index_of (p : bits) (l : list bits) : option nat :=
  match l with
  | [] => None
  | x :: l' => if bits_eqb x p then Some 0
               else match index_of p l' with Some i => Some (S i) | None => None end
  end.

(* deque.Insert(i, x): appends when i >= len *)
Fixpoint insert_at (i : nat) (x : bits) (l : list bits) : list bits :=
  match i, l with
  | O, _ => x :: l
  | S i', [] => [x]
  | S i', y :: l' => y :: insert_at i' x l'
  end.

(* position of the first element satisfying f *)
Fixpoint first_index (f : bits -> bool) (l : list bits) : option nat :=
  match l with
  | [] => None
  | x :: l' => if f x then Some 0
               else match first_index f l' with Some i => Some (S i) | None => None end
  end.

(* removePrefixesFromQueue.  The Go code removes every given prefix from the
   trie, looks each one up in the (not yet modified) deque, sorts the positions
   found in descending order, deletes them one by one and returns the smallest
   (`indexes[len(indexes)-1]`, which indexes out of range -- a panic -- when no
   position was found).  Deleting a set of distinct valid positions from the
   back is the same as dropping those elements, which is how it is written
   here; the callers pass duplicate-free lists (AllKeys of a trie, keys of a
   map) and the theorems show the deque is duplicate-free. *)
Definition remove_prefixes_from_queue (q : pq) (ps : list bits) : res (pq * nat) :=
  let t' := fold_left tr_remove ps (tr q) in
  let hit := fun x => mem x ps in
  match first_index hit (dq q) with
  | None => Panic "index out of range [-1]"
  | Some first => Ok ({| dq := filter (fun x => negb (hit x)) (dq q); tr := t' |}, first)
  end.

(* removeSuperstrings: -1 is None *)
Definition remove_superstrings (q : pq) (p : bits) : res (pq * option nat) :=
  match superstrings (tr q) p with
  | [] => Ok (q, None)
  | ss => r <- remove_prefixes_from_queue q ss ;; Ok (fst r, Some (snd r))
  end.

Definition push1 (q : pq) (p : bits) : res pq :=
  r <- remove_superstrings q p ;;
  let (q1, idx) := r in
  match idx with
  | Some i => Ok {| dq := insert_at i p (dq q1); tr := tr_add (tr q1) p |}
  | None =>
      match find_prefix_of (tr q1) p with
      | Some _ => Ok q1
      | None => Ok {| dq := dq q1 ++ [p]; tr := tr_add (tr q1) p |}
      end
  end.

Fixpoint push (q : pq) (ps : list bits) : res pq :=
  match ps with
  | [] => Ok q
  | p :: ps' => q' <- push1 q p ;; push q' ps'
  end.

Definition pop (q : pq) : pq * option bits :=
  match dq q with
  | [] => (q, None)
  | p :: d' => ({| dq := d'; tr := tr_remove (tr q) p |}, Some p)
  end.

Definition pq_remove (q : pq) (p : bits) : res (pq * bool) :=
  r <- remove_superstrings q p ;;
  Ok (fst r, match snd r with Some _ => true | None => false end).

Definition pq_size (q : pq) : nat := length (dq q).
Definition pq_clear (q : pq) : pq * nat := (pq_empty, pq_size q).
