(* What PutValue, Provide (classic and optimistic) and the corrective puts of a
   value search do once the closest-peers lookup has returned: routing.go
   (PutValue, classicProvide, updatePeerValues), lookup_optim.go (optimisticProvide,
   stopFn scheduling), pb/protocol_messenger.go (PutProviderAddrs).  Definitions only. *)
From Verif.Lib Require Import GoSem.
From Verif.Model Require Import Lookup.
Local Open Scope N_scope.

(* ---- PutValue ---------------------------------------------------------------------- *)
Inductive put_err := EInvalid | ELocalRead | ENotBetter | ELocalWrite | ELookup.

Record put_in := {
  pi_valid : bool;                (* Validator.Validate(key, value) *)
  pi_local_read_ok : bool;        (* getLocal did not fail *)
  pi_old_differs : bool;          (* a different value is stored *)
  pi_select : option nat;         (* Validator.Select(key, [new, old]): index or error *)
  pi_local_write_ok : bool;       (* putLocal *)
  pi_lookup : option (list id) }. (* GetClosestPeers: peers, or an error *)

Record put_out := {
  po_err : option put_err;
  po_local_written : bool;
  po_sends : list id }.           (* PUT_VALUE recipients, each message carrying (key, value) *)

Definition put_value (i : put_in) : put_out :=
  let fail e w := {| po_err := Some e; po_local_written := w; po_sends := [] |} in
  if negb (pi_valid i) then fail EInvalid false else
  if negb (pi_local_read_ok i) then fail ELocalRead false else
  let refused :=
    if pi_old_differs i then
      match pi_select i with
      | None => true                   (* Select failed *)
      | Some O => false                (* the new value wins *)
      | Some _ => true
      end
    else false in
  if refused then fail ENotBetter false else
  if negb (pi_local_write_ok i) then fail ELocalWrite false else
  match pi_lookup i with
  | None => fail ELookup true
  | Some peers => {| po_err := None; po_local_written := true; po_sends := peers |}
  end.

(* ---- classic Provide ---------------------------------------------------------------- *)
(* the deadline budget of classicProvide, in nanoseconds: None = DeadlineExceeded *)
Definition provide_budget (timeout : Z) : option Z :=
  if (timeout <? 0)%Z then None
  else if (timeout <? 10 * 1000000000)%Z then Some (timeout - Z.quot timeout 10)%Z
  else Some (timeout - 1000000000)%Z.

Inductive lookup_outcome :=
| LkOk (peers : list id)
| LkInnerDeadline (peers : list id)     (* inner deadline exceeded, outer context alive: provide to what was found *)
| LkErr.

(* PutProviderAddrs refuses an empty address list: nothing is sent *)
Definition provide_sends (addrs_nonempty : bool) (peers : list id) : list id :=
  if addrs_nonempty then peers else [].

Definition classic_provide (addrs_nonempty : bool) (lk : lookup_outcome) : option (list id) (* None = error before sending *) :=
  match lk with
  | LkOk peers | LkInnerDeadline peers => Some (provide_sends addrs_nonempty peers)
  | LkErr => None
  end.

(* ---- optimistic Provide: scheduling ---------------------------------------------------- *)
(* peerStates as the list of peers already scheduled; stopFn schedules the very
   close ones among the current closest, the final loop schedules the rest of
   the result *)
Definition schedule_new (scheduled : list id) (cands : list id) : list id :=
  fold_left (fun acc p => if memN p acc then acc else acc ++ [p]) cands scheduled.

Definition opt_provide (early : list (list id)) (result : list id) : list id :=
  schedule_new (fold_left schedule_new early []) result.

(* ---- corrective puts after a value search ------------------------------------------------ *)
(* `if best == nil || aborted { return }`: without a best value (no peer
   returned one, so nobody is in peersWithBest) nothing is sent *)
Definition corrective_puts (result : list id) (peers_with_best : list id) : list id :=
  match peers_with_best with
  | [] => []
  | _ => filter (fun p => negb (memN p peers_with_best)) result
  end.
