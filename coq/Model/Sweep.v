(* C17: the sweeping provider (provider/provider.go).  Definitions only.

   PART A -- Level 0: WHAT the property says, on a trace of what the environment did and
   what the node sent, plus a boolean acceptor of traces ([accepts]).  The acceptor is
   proved sound in Proofs/SweepProofs.v ([accepts_sound]); the Go harness records the
   trace of the REAL SweepingProvider and Coq evaluates [accepts] on it.  This is a
   verified monitor on real traces, NOT a proof about the Go worker pool.

   PART B -- pure pieces of the pipeline transcribed from provider.go (schedule
   arithmetic, schedule trie maintenance, the exploration loop closestPeersToPrefix),
   with theorems in Proofs/SweepProofs.v and a differential check against the Go code.

   Identifiers.  A key / a peer is identified by the leading 32 bits of its 256-bit
   Kademlia identifier (sha256 of the multihash / of the peer id), as an N.  The harness
   makes sure the peers of one case (and the keys) are pairwise different in these 32
   bits, so the XOR order of peers around any key is the order of the full identifiers.
   Times are virtual microseconds since the start of the case. *)
From Verif.Lib Require Import GoSem Bits.
From Verif.Model Require Import Buffered.   (* memN, unionN, minusN *)
Local Open Scope N_scope.

(* ======================= PART A: traces and Level 0 ======================================= *)
Inductive ev :=
| EStart (t : N) (ks : list N)       (* StartProviding(_, ks) returned at t *)
| EOnce (t : N) (ks : list N)        (* ProvideOnce(ks) *)
| EStop (t : N) (ks : list N)        (* StopProviding(ks) *)
| ENet (t : N) (up : bool)           (* the network works / every lookup and send fails *)
| ESwarm (t : N) (peers : list N)    (* the DHT servers from now on *)
| ESent (t : N) (k : N) (qs : list N) (addr_ok : bool)
      (* ADD_PROVIDER for key k accepted by the peers qs at time t; addr_ok: the message
         named this node with exactly its addresses at that time *)
| ERestart (t : N).                  (* Close, then New on the same datastore *)
Definition trace := list ev.

Definition time (e : ev) : N :=
  match e with
  | EStart t _ | EOnce t _ | EStop t _ | ENet t _ | ESwarm t _ | ESent t _ _ _ | ERestart t => t
  end.

Record params := {
  p_r : nat;      (* replication factor *)
  p_K : nat;      (* number of peers the closest-peers router reports (>= r) *)
  p_D : N;        (* reprovide interval + allowed delay (+ the advertisement window) *)
  p_G : N;        (* grace: how long after a key is given / the network is back the
                     advertisement may take (connectivity probing back-off, retry ticker,
                     worker latency) *)
  p_W : N;        (* how long one advertisement of a key may take from first to last message *)
  p_end : N       (* the trace was observed until this time *)
}.

(* what the environment looks like after a list of events *)
Record wst := { w_up : bool; w_swarm : list N; w_kept : list N }.
Definition w0 : wst := {| w_up := false; w_swarm := []; w_kept := [] |}.
Definition apply_ev (s : wst) (e : ev) : wst :=
  match e with
  | EStart _ ks =>
      (* a key counts as given when StartProviding is called while the network is up (a call
         made during an outage returns nil, stores the key, and the key is then advertised
         at its slot of the schedule only: documented as "returns an error when Offline") *)
      if w_up s then {| w_up := w_up s; w_swarm := w_swarm s; w_kept := unionN (w_kept s) ks |} else s
  | EStop _ ks => {| w_up := w_up s; w_swarm := w_swarm s; w_kept := minusN (w_kept s) ks |}
  | ENet _ b => {| w_up := b; w_swarm := w_swarm s; w_kept := w_kept s |}
  | ESwarm _ l => {| w_up := w_up s; w_swarm := l; w_kept := w_kept s |}
  | _ => s
  end.
Definition st_of (pre : trace) : wst := fold_left apply_ev pre w0.
Definition upto (t : N) (e : ev) : bool := time e <=? t.
(* the state at time t: after every event stamped t or earlier *)
Definition st_at (tr : trace) (t : N) : wst := st_of (filter (upto t) tr).

(* XOR metric: x is strictly nearer to k than q *)
Definition closer (k x q : N) : bool := N.lxor x k <? N.lxor q k.
Definition rank (k : N) (S : list N) (q : N) : nat := length (filter (fun x => closer k x q) S).
(* q is one of the n members of S nearest to k: fewer than n members are strictly nearer *)
Definition nearestb (n : nat) (k : N) (S : list N) (q : N) : bool :=
  memN q S && Nat.ltb (rank k S q) n.

Definition sent_in (tr : trace) (k q a b : N) : Prop :=
  exists t qs, In (ESent t k qs true) tr /\ In q qs /\ a <= t /\ t <= b.
Definition swarm_const (tr : trace) (a b : N) : Prop :=
  forall t l, In (ESwarm t l) tr -> ~ (a < t /\ t <= b).
(* between a and b the key was sent to every one of its r nearest peers of the swarm of
   that moment *)
Definition complete_adv (p : params) (tr : trace) (k a b : N) : Prop :=
  a <= b /\ b <= a + p_W p /\ swarm_const tr a b /\
  forall q, nearestb (p_r p) k (w_swarm (st_at tr a)) q = true -> sent_in tr k q a b.
(* at time t the last complete advertisement of k is at most D old; a restart gives a key
   that was fresh when the node was restarted another D from the restart (after a
   restart the regions advertised within the last interval wait for their slot of the
   rebuilt schedule, whose prefixes -- hence offsets -- may differ from the old ones) *)
Definition fresh (p : params) (tr : trace) (k t : N) : Prop :=
  (exists a b, complete_adv p tr k a b /\ b <= t /\ t <= a + p_D p) \/
  (exists rho a b, In (ERestart rho) tr /\ rho <= t /\ t <= rho + p_D p /\
                   complete_adv p tr k a b /\ b <= rho /\ rho <= a + p_D p).

Definition okb (k : N) (s : wst) : bool := w_up s && memN k (w_kept s).
Definition requests (k : N) (e : ev) : bool :=
  match e with EStart _ ks | EOnce _ ks => memN k ks | _ => false end.

Record Level0 (p : params) (tr : trace) : Prop := {
  (* every provider record goes to one of the key's nearest peers of the swarm of that
     moment (the router's K nearest), and names this node with its current addresses *)
  l0_nearest : forall pre t k qs a post,
      tr = pre ++ ESent t k qs a :: post ->
      a = true /\ forall q, In q qs -> nearestb (p_K p) k (w_swarm (st_of pre)) q = true;
  (* a key that has been kept, with the network up, for the last G, was advertised to all
     its r then-nearest peers within the last D = interval + allowed delay: covers the
     first advertisement, the periodic ones, catching up after an outage and after a
     restart *)
  l0_fresh : forall k t,
      p_G p <= t -> t <= p_end p ->
      (forall t', t - p_G p <= t' -> t' <= t -> okb k (st_at tr t') = true) ->
      fresh p tr k t;
  (* after StopProviding(k), unless k is given again, nothing is sent for k any more
     (except what was in flight: W) *)
  l0_stop : forall pre t ks post1 t' k qs a post2,
      tr = pre ++ EStop t ks :: post1 ++ ESent t' k qs a :: post2 -> In k ks ->
      t' <= t + p_W p \/ exists e, In e post1 /\ requests k e = true;
  (* ProvideOnce(k) while the network is (and stays) up and k is not stopped: advertised
     within G *)
  l0_once : forall pre t ks post k,
      tr = pre ++ EOnce t ks :: post -> In k ks ->
      p_G p <= t -> t + p_G p <= p_end p ->
      (forall t', t - p_G p <= t' -> t' <= t + p_G p -> w_up (st_at tr t') = true) ->
      (forall t' ks', In (EStop t' ks') post -> In k ks' -> t + p_G p < t') ->
      exists a b, complete_adv p tr k a b /\ t <= a /\ b <= t + p_G p
}.

(* ---- the acceptor ------------------------------------------------------------------------ *)
Definition is_ctl (e : ev) : bool := match e with ESent _ _ _ _ => false | _ => true end.

(* clause 1 *)
Fixpoint chk_near (p : params) (s : wst) (tr : trace) : bool :=
  match tr with
  | [] => true
  | e :: tr' =>
      match e with
      | ESent _ k qs a => a && forallb (nearestb (p_K p) k (w_swarm s)) qs
      | _ => true
      end && chk_near p (apply_ev s e) tr'
  end.

(* [for every t' in [lo,hi], f (st_at ctl t')]: the state only changes at event times *)
Definition all_in_range (ctl : trace) (f : wst -> bool) (lo hi : N) : bool :=
  f (st_at ctl lo) &&
  forallb (fun e => if (lo <? time e) && (time e <=? hi) then f (st_at ctl (time e)) else true) ctl.

(* the accepted ADD_PROVIDER messages for key k: (time, peers) *)
Fixpoint sends_of (k : N) (tr : trace) : list (N * list N) :=
  match tr with
  | [] => []
  | ESent t k' qs true :: tr' => if N.eqb k k' then (t, qs) :: sends_of k tr' else sends_of k tr'
  | _ :: tr' => sends_of k tr'
  end.

Definition no_swarm_change (ctl : trace) (a b : N) : bool :=
  forallb (fun e => match e with ESwarm t _ => negb ((a <? t) && (t <=? b)) | _ => true end) ctl.

(* the peers k was sent to between a and b *)
Definition recipients (sends : list (N * list N)) (a b : N) : list N :=
  flat_map (fun s => if (a <=? fst s) && (fst s <=? b) then snd s else []) sends.
Fixpoint dedupN (l : list N) : list N :=
  match l with
  | [] => []
  | x :: l' => if memN x l' then dedupN l' else x :: dedupN l'
  end.

(* a sufficient test for "every r-nearest member of S is in R": a member of S outside R
   has at least r members of R (that are in S) nearer than itself *)
Definition covers (r : nat) (k : N) (S R : list N) : bool :=
  let R' := dedupN (filter (fun x => memN x S) R) in
  forallb (fun q => memN q R || Nat.leb r (length (filter (fun x => closer k x q) R'))) S.

(* the last message for k within W of a *)
Definition window_end (sends : list (N * list N)) (a w : N) : N :=
  fold_left (fun m s => if (a <=? fst s) && (fst s <=? a + w) then N.max m (fst s) else m) sends a.

Definition complete_b (p : params) (ctl : trace) (sends : list (N * list N)) (k a : N) : bool :=
  let b := window_end sends a (p_W p) in
  no_swarm_change ctl a b &&
  covers (p_r p) k (w_swarm (st_at ctl a)) (recipients sends a b).

(* candidate advertisements of k: windows [a, b] starting at a message, ending at the last
   message within W *)
Definition ads_of (p : params) (ctl : trace) (sends : list (N * list N)) (k : N) : list (N * N) :=
  map (fun a => (a, window_end sends a (p_W p)))
      (filter (complete_b p ctl sends k) (dedupN (map fst sends))).

Definition restarts_of (ctl : trace) : list N :=
  flat_map (fun e => match e with ERestart t => [t] | _ => [] end) ctl.

Definition freshb (p : params) (ads : list (N * N)) (rs : list N) (t : N) : bool :=
  existsb (fun ab => (snd ab <=? t) && (t <=? fst ab + p_D p)) ads ||
  existsb (fun rho => (rho <=? t) && (t <=? rho + p_D p) &&
                      existsb (fun ab => (snd ab <=? rho) && (rho <=? fst ab + p_D p)) ads) rs.

Definition hypb (p : params) (ctl : trace) (k t : N) : bool :=
  all_in_range ctl (okb k) (t - p_G p) t.

(* the only times at which "hypothesis holds and not fresh" can begin *)
Definition crit (p : params) (ctl : trace) (ads : list (N * N)) : list N :=
  p_G p :: map (fun a => a + p_D p + 1) (map fst ads ++ restarts_of ctl) ++ map (fun e => time e + p_G p) ctl.

Definition chk_fresh_key (p : params) (ctl tr : trace) (k : N) : bool :=
  let sends := sends_of k tr in
  let ads := ads_of p ctl sends k in
  forallb (fun c => implb ((p_G p <=? c) && (c <=? p_end p) && hypb p ctl k c) (freshb p ads (restarts_of ctl) c))
          (crit p ctl ads).

Definition started_keys (tr : trace) : list N :=
  dedupN (flat_map (fun e => match e with EStart _ ks => ks | _ => [] end) tr).

Definition chk_fresh (p : params) (ctl tr : trace) : bool :=
  forallb (chk_fresh_key p ctl tr) (started_keys tr).

(* clause 3: the earliest StopProviding(k) since k was last given *)
Fixpoint lookupN (k : N) (m : list (N * N)) : option N :=
  match m with
  | [] => None
  | (k', v) :: m' => if N.eqb k k' then Some v else lookupN k m'
  end.
Definition removeK (k : N) (m : list (N * N)) : list (N * N) :=
  filter (fun kv => negb (N.eqb (fst kv) k)) m.
Definition note_stop (t : N) (m : list (N * N)) (k : N) : list (N * N) :=
  match lookupN k m with
  | Some ts => (k, N.min ts t) :: removeK k m
  | None => (k, t) :: m
  end.
Definition stop_step_ev (m : list (N * N)) (e : ev) : list (N * N) :=
  match e with
  | EStop t ks => fold_left (note_stop t) ks m
  | EStart _ ks | EOnce _ ks => fold_left (fun m k => removeK k m) ks m
  | _ => m
  end.
Fixpoint chk_stop (p : params) (m : list (N * N)) (tr : trace) : bool :=
  match tr with
  | [] => true
  | e :: tr' =>
      match e with
      | ESent t' k _ _ => match lookupN k m with Some ts => t' <=? ts + p_W p | None => true end
      | _ => true
      end && chk_stop p (stop_step_ev m e) tr'
  end.

(* clause 4 *)
Definition stop_before (k lim : N) (post : trace) : bool :=
  existsb (fun e => match e with EStop t' ks' => memN k ks' && (t' <=? lim) | _ => false end) post.

Definition once_ok (p : params) (ctl full : trace) (t k : N) (post : trace) : bool :=
  implb ((p_G p <=? t) && (t + p_G p <=? p_end p)
         && all_in_range ctl w_up (t - p_G p) (t + p_G p)
         && negb (stop_before k (t + p_G p) post))
        (let sends := sends_of k full in
         existsb (fun a => (t <=? a) && (window_end sends a (p_W p) <=? t + p_G p) && complete_b p ctl sends k a)
                 (map fst sends)).

Fixpoint chk_once (p : params) (ctl full : trace) (tr : trace) : bool :=
  match tr with
  | [] => true
  | e :: tr' =>
      match e with
      | EOnce t ks => forallb (fun k => once_ok p ctl full t k tr') ks
      | _ => true
      end && chk_once p ctl full tr'
  end.

(* 0 = accepted; otherwise the first clause that fails *)
Definition accepts_code (p : params) (tr : trace) : nat :=
  let ctl := filter is_ctl tr in
  if negb (chk_near p w0 tr) then 1%nat
  else if negb (chk_stop p [] tr) then 3%nat
  else if negb (chk_once p ctl tr tr) then 4%nat
  else if negb (chk_fresh p ctl tr) then 2%nat
  else 0%nat.
Definition accepts (p : params) (tr : trace) : bool := Nat.eqb (accepts_code p tr) 0.

(* ======================= PART B: pure pieces of provider.go ================================ *)
From Verif.Model Require Import Trie Keyspace.

(* ---- schedule arithmetic (provider.go:630-689) ------------------------------------------------
   Durations are nanoseconds (N).  Go computes in int64: [reprovide_time] is exact while
   I * 2^(min (len prefix) 24) < 2^63 (stated as a hypothesis of the theorems; with the
   default 22 h interval the product overflows int64 for prefixes of 17 bits and more).
   All of timeOffset / timeBetween / timeUntil divide by the reprovide interval: they are
   only reached when it is positive (scheduleEnabled), the guard of every theorem. *)
Definition bits_val (k : bits) : N := fold_left (fun acc (b : bool) => 2 * acc + (if b then 1 else 0)) k 0.
Fixpoint xor_bits (a b : bits) : bits :=
  match a, b with
  | x :: a', y :: b' => xorb x y :: xor_bits a' b'
  | _, _ => []
  end.
Definition max_prefix_size : nat := 24.

(* reprovideTimeForPrefix: strconv.ParseInt(prefix XOR order[:len], 2) * interval / 2^len *)
Definition reprovide_time (I : N) (order prefix : bits) : N :=
  match prefix with
  | [] => 0
  | _ => let p := firstn max_prefix_size prefix in
         I * bits_val (xor_bits p (firstn (length p) order)) / 2 ^ N.of_nat (length p)
  end.
(* timeOffset *)
Definition time_offset (I cycle_start t : N) : N := (t - cycle_start) mod I.
(* timeBetween(from, to) = (to-from+I-1)%I + 1, for offsets from, to < I *)
Definition time_between (I from to : N) : N := (to + I - 1 - from) mod I + 1.
(* schedulePrefixNoLock, justReprovided: min(reprovideTimeForPrefix, now + I + maxDelay) *)
Definition next_time_just_reprovided (I max_delay now_off off : N) : N := N.min off (now_off + I + max_delay).

(* ---- the schedule trie (provider.go:573-591, trie part of schedulePrefixNoLock) -----------------
   "already scheduled" if a scheduled prefix is a prefix of the new one; otherwise the
   scheduled superstrings are pruned and the prefix is added. *)
Definition sched_add (t : trie N) (p : bits) (off : N) : res (trie N) :=
  r <- find_prefix_of_key t p ;;
  if snd r then Ok t
  else t1 <- prune_subtrie t p ;; add_one t1 p off.
