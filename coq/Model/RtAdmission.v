(* Routing-table admission and eviction: dht.go (peerFound, validRTPeer,
   lookupCheck, validPeerFound, peerStoppedDHT, rtPeerLoop), query.go
   (queryPeer's calls to them), subscriber_notifee.go (handlePeerChangeEvent),
   rtrefresh (pingAndEvictPeers).  Definitions only.

   The k-bucket table itself is external: an admission oracle [adm] says
   whether TryAddPeer accepts a peer (bucket not full, diversity filter), so
   the theorems hold for every bucket policy. *)
From Verif.Lib Require Import GoSem.
From Verif.Model Require Import Lookup.
Local Open Scope N_scope.

Inductive rtev :=
| PeerChange (p : id) (valid : bool)   (* identification completed / protocols updated; valid = speaks the DHT protocol and passes the routing-table filter *)
| ProbeDone (p : id) (ok : bool)       (* the admission probe (a FIND_NODE for its own id) returned *)
| QueryOk (p : id)                     (* a lookup query to p was answered *)
| QueryFail (p : id) (cancelled : bool)(* dial or request failed; cancelled = the context was already done *)
| PingFail (p : id)                    (* refresh: connect or liveness probe failed *)
| PingOk (p : id).

Fixpoint remove_first (x : id) (l : list id) : list id :=
  match l with
  | [] => []
  | y :: l' => if N.eqb x y then l' else y :: remove_first x l'
  end.

Record rtstate := {
  rt : list id;           (* routing-table members *)
  probing : list id;      (* admission probes in flight *)
  capacity : nat }.       (* lookupCheckCapacity *)

Definition rt_add (adm : list id -> id -> bool) (l : list id) (p : id) : list id :=
  if memN p l then l else if adm l p then l ++ [p] else l.
Definition rt_remove (l : list id) (p : id) : list id := filter (fun q => negb (N.eqb q p)) l.

(* UsefulNewPeer: not a member and the table would take it *)
Definition useful_new (adm : list id -> id -> bool) (l : list id) (p : id) : bool :=
  negb (memN p l) && adm l p.

Definition rt_step (adm : list id -> id -> bool) (s : rtstate) (e : rtev) : rtstate :=
  match e with
  | PeerChange p true =>
      (* peerFound: probe only useful peers, bounded by the probe capacity *)
      if useful_new adm (rt s) p then
        match capacity s with
        | O => s
        | S c => {| rt := rt s; probing := probing s ++ [p]; capacity := c |}
        end
      else s
  | PeerChange p false => {| rt := rt_remove (rt s) p; probing := probing s; capacity := capacity s |}
  | ProbeDone p ok =>
      if memN p (probing s) then
        let pr := remove_first p (probing s) in
        {| rt := if ok then rt_add adm (rt s) p else rt s; probing := pr; capacity := S (capacity s) |}
      else s
  | QueryOk p => {| rt := rt_add adm (rt s) p; probing := probing s; capacity := capacity s |}
  | QueryFail p cancelled =>
      if cancelled then s else {| rt := rt_remove (rt s) p; probing := probing s; capacity := capacity s |}
  | PingFail p => {| rt := rt_remove (rt s) p; probing := probing s; capacity := capacity s |}
  | PingOk p => s
  end.

Definition rt_run (adm : list id -> id -> bool) (s : rtstate) (evs : list rtev) : rtstate :=
  fold_left (rt_step adm) evs s.

(* ---- the refresh manager: every request is answered -------------------------------------- *)
(* A request made by Refresh(force) is first [RqSending] (its goroutine offers it
   to the loop or sees the manager closed), then [RqWaiting] in the loop's batch,
   then answered exactly once ([RqAnswered n], n = values received on its channel). *)
Inductive rqstate := RqSending | RqWaiting | RqAnswered (n : nat).
Inductive rfev :=
| RfCall                  (* Refresh called: a new request *)
| RfAccept (i : nat)      (* the loop receives request i from triggerRefresh *)
| RfRound                 (* the loop finishes a refresh round and answers its batch *)
| RfClose                 (* Close: the context is cancelled *)
| RfGiveUp (i : nat).     (* request i's goroutine sees the cancelled context *)

Record rfstate := { reqs_st : list rqstate; rf_closed : bool; loop_alive : bool }.
Definition rf0 : rfstate := {| reqs_st := []; rf_closed := false; loop_alive := true |}.

Fixpoint set_nth (i : nat) (v : rqstate) (l : list rqstate) : list rqstate :=
  match l, i with
  | [], _ => []
  | _ :: l', O => v :: l'
  | x :: l', S i' => x :: set_nth i' v l'
  end.

Definition has_waiting (l : list rqstate) : bool :=
  existsb (fun r => match r with RqWaiting => true | _ => false end) l.

Definition rf_step (s : rfstate) (e : rfev) : option rfstate :=
  match e with
  | RfCall => Some {| reqs_st := reqs_st s ++ [RqSending]; rf_closed := rf_closed s; loop_alive := loop_alive s |}
  | RfAccept i =>
      (* the loop only receives while it is alive *)
      match nth_error (reqs_st s) i with
      | Some RqSending => if loop_alive s
                          then Some {| reqs_st := set_nth i RqWaiting (reqs_st s); rf_closed := rf_closed s; loop_alive := true |}
                          else None
      | _ => None
      end
  | RfRound =>
      (* answers everything batched; the loop then goes back to its select and
         returns there if the context is cancelled (its batch is empty at that point) *)
      if loop_alive s && has_waiting (reqs_st s)
      then Some {| reqs_st := map (fun r => match r with RqWaiting => RqAnswered 1 | x => x end) (reqs_st s);
                   rf_closed := rf_closed s; loop_alive := negb (rf_closed s) |}
      else None
  | RfClose => Some {| reqs_st := reqs_st s; rf_closed := true;
                       loop_alive := loop_alive s && has_waiting (reqs_st s) |}
  | RfGiveUp i =>
      match nth_error (reqs_st s) i with
      | Some RqSending => if rf_closed s
                          then Some {| reqs_st := set_nth i (RqAnswered 1) (reqs_st s); rf_closed := true; loop_alive := loop_alive s |}
                          else None
      | _ => None
      end
  end.

Fixpoint rf_run (s : rfstate) (evs : list rfev) : option rfstate :=
  match evs with
  | [] => Some s
  | e :: r => match rf_step s e with Some s' => rf_run s' r | None => None end
  end.
