(* Model of the accelerated ("full routing table") client, fullrt/dht.go.
   Definitions only; the lemmas are in Proofs/FullRtProofs.v.

   Representation.
   - A peer is represented by its Kademlia identifier (sha256 of the peer ID,
     [kb.ConvertPeerID]) as an [N]; a lookup key likewise ([kb.ConvertKey]).
     sha256 is modelled, not verified; the harness checks that the
     identifiers of one case are pairwise different.
   - [dht.rt] (an XOR trie of go-libp2p-xor) is the list of the keys it holds.
     [kademlia.ClosestN(key, rt, n)] is SPECIFIED as "the n keys nearest to
     [key], nearest first" ([closest_n]); the trie code is not verified.
   - [dht.keyToPeerMap] only ever holds pairs (kadKey(p), p) (runCrawler,
     dht.go:409-414), so the model keeps its domain: the list [t_kmap].
   - [dht.peerAddrs] maps a peer to its multiaddrs.  The only thing
     GetClosestPeers does with an address is compute its IP group
     (manet.ToIP, peerdiversity.IPGroupKey; both modelled, not verified): an
     address is [Some g] (g = a number naming the group key) or [None] (not an
     IP address, or an empty group key: the two [continue]s at dht.go:565-572).
   - Go [int]s are [nat]: sizes are table sizes, K and the limit are
     non-negative (negative configured values are outside the model). *)
From Verif.Lib Require Import GoSem Bits.

(* ---- XOR distance and the ClosestN specification ----------------------- *)
Definition dist (key a : N) : N := N.lxor a key.

Fixpoint ins_by (key x : N) (l : list N) : list N :=
  match l with
  | [] => [x]
  | y :: l' => if N.leb (dist key x) (dist key y) then x :: l else y :: ins_by key x l'
  end.
Definition sort_by (key : N) (l : list N) : list N := fold_right (ins_by key) [] l.

(* kademlia.ClosestN(key, rt, n): all keys when n exceeds the size *)
Definition closest_n (key : N) (rt : list N) (n : nat) : list N := firstn n (sort_by key rt).

(* ---- the table: the three fields a crawl replaces ---------------------- *)
Definition addr := option N.
Record table := { t_rt : list N; t_kmap : list N; t_addrs : list (N * list addr) }.
Definition empty_table : table := {| t_rt := []; t_kmap := []; t_addrs := [] |}.

Definition nmem (x : N) (l : list N) : bool := existsb (N.eqb x) l.
Fixpoint assoc {A} (x : N) (m : list (N * A)) : option A :=
  match m with
  | [] => None
  | (y, a) :: m' => if N.eqb x y then Some a else assoc x m'
  end.
(* dht.peerAddrs[p]: nil when absent *)
Definition addrs_of (t : table) (p : N) : list addr :=
  match assoc p (t_addrs t) with Some a => a | None => [] end.

(* ---- ipGroupCounts: map[group]map[peer]struct{} ------------------------- *)
(* The map of sets is the set of its (group, peer) pairs; len(counts[g]) is the
   number of pairs with first component g.  Creating an empty inner map
   (dht.go:573-575) has no observable effect. *)
Definition counts := list (N * N).
Definition pair_eqb (a b : N * N) : bool := N.eqb (fst a) (fst b) && N.eqb (snd a) (snd b).
Definition members (g : N) (c : counts) : list N :=
  map snd (filter (fun x => N.eqb (fst x) g) c).
Definition count_add (g p : N) (c : counts) : counts :=
  if existsb (pair_eqb (g, p)) c then c else (g, p) :: c.

(* dht.go:563-586, the loop over one peer's addresses.  Result: the counts,
   and [false] when the peer is skipped ([continue PeersLoop]).  Exactly as
   coded: an address whose group already counts this peer is passed over
   (dht.go:576-579); otherwise the size of the group's set is tested; the
   groups of the addresses before an offending one keep the peer counted. *)
Fixpoint addr_loop (limit : nat) (p : N) (l : list addr) (c : counts) : counts * bool :=
  match l with
  | [] => (c, true)
  | None :: r => addr_loop limit p r c
  | Some g :: r =>
      if existsb (pair_eqb (g, p)) c then addr_loop limit p r c
      else if limit <=? length (members g c) then (c, false)
      else addr_loop limit p r (count_add g p c)
  end.

Record scan_st := { s_counts : counts; s_peers : list N }.
Definition scan_init : scan_st := {| s_counts := []; s_peers := [] |}.
Inductive scan_res := SReturn (peers : list N) | SContinue (st : scan_st).

(* dht.go:552-597, PeersLoop over one page of keys *)
Fixpoint scan_page (t : table) (K limit : nat) (page : list N) (st : scan_st) : scan_res :=
  match page with
  | [] => SContinue st
  | k :: rest =>
      if nmem k (t_kmap t) then
        let (c', keep) := if 0 <? limit then addr_loop limit k (addrs_of t k) (s_counts st)
                          else (s_counts st, true) in
        if keep then
          let peers' := s_peers st ++ [k] in
          if length peers' =? K then SReturn peers'        (* len(peers) == bucketSize, after the append *)
          else scan_page t K limit rest {| s_counts := c'; s_peers := peers' |}
        else scan_page t K limit rest {| s_counts := c'; s_peers := s_peers st |}
      else scan_page t K limit rest st                     (* "key not found in map" *)
  end.

(* s[n:] *)
Definition go_slice_from {A} (l : list A) (n : nat) : res (list A) :=
  if n <=? length l then Ok (skipn n l) else Panic "slice bounds out of range".

(* dht.go:547-598: for nClosest := 0; nClosest < rt.Size(); nClosest += step.
   The Go loop has no bound; [fuel] counts iterations and running out of it is
   [Blocked] (the loop is still running). *)
Fixpoint page_loop (fuel : nat) (t : table) (key : N) (K limit step nclosest : nat) (st : scan_st)
  : res (list N) :=
  match fuel with
  | O => Blocked "GetClosestPeers: paging loop still running"
  | S f =>
      if nclosest <? length (t_rt t) then
        page <- go_slice_from (closest_n key (t_rt t) (nclosest + step)) nclosest ;;
        match scan_page t K limit page st with
        | SReturn peers => Ok peers
        | SContinue st' => page_loop f t key K limit step (nclosest + step) st'
        end
      else Ok (s_peers st)
  end.

Definition paging_step (K limit : nat) : nat := K + 2 * limit.

Definition get_closest_fuel (fuel : nat) (t : table) (key : N) (K limit : nat) : res (list N) :=
  page_loop fuel t key K limit (paging_step K limit) 0 scan_init.

(* One more iteration than there are keys is enough whenever the step is
   positive (FullRtProofs.get_closest_fuel_enough); with step 0 no amount is
   (FullRtProofs.paging_spins). *)
Definition get_closest (t : table) (key : N) (K limit : nat) : res (list N) :=
  get_closest_fuel (S (length (t_rt t))) t key K limit.

(* the same scan without pages: the reference the paging loop is proved equal to *)
Definition flat_scan (t : table) (key : N) (K limit : nat) : list N :=
  match scan_page t K limit (sort_by key (t_rt t)) scan_init with
  | SReturn peers => peers
  | SContinue st => s_peers st
  end.

(* Evaluation shortcut for the correspondence check: the paging loop sorts the
   table once per page; the flat scan sorts it once.  Proved equal to
   [get_closest] on every input (FullRtProofs.get_closest_eval_correct). *)
Definition get_closest_eval (t : table) (key : N) (K limit : nat) : res (list N) :=
  if 0 <? paging_step K limit then Ok (flat_scan t key K limit) else get_closest t key K limit.

(* ---- a crawl and the table swap (runCrawler, dht.go:406-428) ----------- *)
(* foundPeers: the peers the crawl kept, with the addresses read from the
   peerstore; map keys, so pairwise different. *)
Definition crawl := list (N * list addr).
Definition table_of (c : crawl) : table :=
  {| t_rt := map fst c; t_kmap := map fst c; t_addrs := c |}.

(* dht.go:366-372: the starting peers of the next crawl are the peers found by
   the previous one (without addresses: the crawler reads them from the host's
   peerstore) followed by the bootstrap peers; nothing removes a bootstrap peer
   that was also found. *)
Definition crawl_seeds (found : crawl) (bootstrap : list N) : list N := map fst found ++ bootstrap.

(* vocabulary of the property: the IP groups of a crawled peer, the number of
   crawled peers a group holds *)
Definition addr_groups (l : list addr) : list N :=
  fold_right (fun a acc => match a with Some g => g :: acc | None => acc end) [] l.
Definition peer_in_group (c : crawl) (g p : N) : bool :=
  nmem g (addr_groups (addrs_of (table_of c) p)).
Definition group_size (c : crawl) (g : N) : nat :=
  length (filter (peer_in_group c g) (map fst c)).

(* runCrawler, dht.go:416-428: the three fields are assigned while all three
   write locks are held (taken in the order readers take theirs), so the swap
   is one step for every reader.  (Until /repo commit fb69ae6 the three
   assignments were separately locked and a reader in between saw the routing
   table of one crawl with the addresses or the key map of another; the
   harness still places readers where that window was.) *)

(* Events of the crawler goroutine and of readers.  A reader holds the three
   read locks while it runs, so it sees the table of one instant. *)
Inductive fev :=
| FCrawl (c : crawl)                     (* crawler.Run returned; the new maps are built *)
| FSwap                                  (* the locked assignment of the three fields *)
| FRead (key : N) (K limit : nat).

Record fstate := {
  f_tbl : table;
  f_pending : option crawl;              (* crawl finished, not yet installed *)
  f_crawls : list crawl;                 (* every completed crawl so far, newest first *)
  f_reads : list (table * N * nat * nat * res (list N))   (* log: table seen, key, K, limit, answer *)
}.
Definition f_init : fstate :=
  {| f_tbl := empty_table; f_pending := None; f_crawls := []; f_reads := [] |}.

Definition do_read (s : fstate) (key : N) (K limit : nat) : fstate :=
  {| f_tbl := f_tbl s; f_pending := f_pending s; f_crawls := f_crawls s;
     f_reads := (f_tbl s, key, K, limit, get_closest (f_tbl s) key K limit) :: f_reads s |}.

Definition fstep (s : fstate) (e : fev) : option fstate :=
  match e with
  | FCrawl c =>
      match f_pending s with
      | Some _ => None
      | None => Some {| f_tbl := f_tbl s; f_pending := Some c; f_crawls := c :: f_crawls s;
                        f_reads := f_reads s |}
      end
  | FSwap =>
      match f_pending s with
      | Some c => Some {| f_tbl := table_of c; f_pending := None;
                          f_crawls := f_crawls s; f_reads := f_reads s |}
      | None => None
      end
  | FRead key K limit => Some (do_read s key K limit)
  end.

Fixpoint frun (evs : list fev) (s : fstate) : option fstate :=
  match evs with
  | [] => Some s
  | e :: r => match fstep s e with Some s' => frun r s' | None => None end
  end.

(* ---- the constructor (NewFullRT, dht.go:145-267) ------------------------ *)
(* Only what reaches GetClosestPeers.  [dbucket] is amino.DefaultBucketSize,
   [dlimit] amino.DefaultMaxPeersPerIPGroup (inputs of the model: the harness
   passes the values of the constants).  The hand-built config starts from
   BucketSize = dbucket (dht.go:165); on the Amino prefix ([o_amino])
   Config.Validate insists on exactly dbucket; a bucket size below 1 is refused
   (dht.go:178-180); the configured limit is copied into the struct
   (dht.go:267). *)
Record opts := { o_amino : bool; o_bucket : option nat; o_limit : option nat }.
Record frt := { f_K : nat; f_limit : nat }.
(* what the options ask for *)
Definition configured_limit (dlimit : nat) (o : opts) : nat :=
  match o_limit o with Some l => l | None => dlimit end.
Definition new_fullrt (dbucket dlimit : nat) (o : opts) : option frt :=
  let k := match o_bucket o with Some k => k | None => dbucket end in
  if o_amino o && negb (k =? dbucket) then None
  else if k <? 1 then None
  else Some {| f_K := k; f_limit := configured_limit dlimit o |}.

(* ---- bulk operations (bulkMessageSend, dht.go:1152-1327) ---------------- *)
(* dht.go:1192-1195 *)
Definition bulk_chunk_size (nkeys K numPeers : Z) : res Z :=
  c <- go_div (nkeys * K * 2) numPeers ;;
  Ok (if Z.eqb c 0 then 1%Z else c).

(* divideByChunkSize, dht.go:1330-1355 *)
Fixpoint div_loop {A} (chunk : nat) (keys next : list A) (progress : nat) : list (list A) :=
  match keys with
  | [] => if progress =? 0 then [] else [next]
  | k :: r =>
      let next' := next ++ [k] in
      if S progress =? chunk then next' :: div_loop chunk r [] 0
      else div_loop chunk r next' (S progress)
  end.
Definition divide_by_chunk_size {A} (keys : list A) (chunk : Z) : res (list (list A)) :=
  match keys with
  | [] => Ok []
  | _ => if (chunk <? 1)%Z then Panic "fullrt: divide into groups: invalid chunk size"
         else Ok (div_loop (Z.to_nat chunk) keys [] 0)
  end.

(* Outcome of ProvideMany / PutMany when every dial and every send succeeds
   (the harness's network): nil when some key reached a peer, the error
   "failed to complete bulk sending" otherwise.  [keys]: the distinct keys,
   non-empty (an empty key list returns nil before anything is computed). *)
Inductive op_res := RNil | RErr.
Fixpoint any_nonempty (l : list (list N)) : bool :=
  match l with [] => false | [] :: r => any_nonempty r | _ :: _ => true end.
Fixpoint closest_each (t : table) (K limit : nat) (keys : list N) : res (list (list N)) :=
  match keys with
  | [] => Ok []
  | k :: r => p <- get_closest t k K limit ;; ps <- closest_each t K limit r ;; Ok (p :: ps)
  end.
Definition bulk_send (t : table) (K limit : nat) (keys : list N) : res op_res :=
  match keys with
  | [] => Ok RNil
  | _ =>
      if length (t_kmap t) =? 0 then Ok RErr else        (* dht.go:1188-1190 *)
      c <- bulk_chunk_size (Z.of_nat (length keys)) (Z.of_nat K) (Z.of_nat (length (t_kmap t))) ;;
      groups <- divide_by_chunk_size keys c ;;
      sent <- closest_each t K limit (concat groups) ;;
      (* numSuccessfulToWaitFor = int(K * waitFrac * 1.2) (dht.go:1175) is 0 when
         K = 0; the workers then skip every send (dht.go:1229-1233: 0 successes
         already "enough", lastSuccess is the zero time).  For K >= 1 and the
         harness's waitFrac = 1 the threshold is only reached after K sends. *)
      Ok (if K =? 0 then RErr else if any_nonempty sent then RNil else RErr)
  end.

(* Provide / PutValue (dht.go:603-662, 939-1013) on the same network:
   execOnMany over no peers counts 0 successes, which is an error. *)
Definition single_send (t : table) (key : N) (K limit : nat) : res op_res :=
  peers <- get_closest t key K limit ;;
  Ok (match peers with [] => RErr | _ => RNil end).
