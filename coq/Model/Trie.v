(* Model of github.com/ipfs/go-libdht v0.5.0 kad/trie/trie.go (the mutable API used by
   provider/internal/keyspace): the binary trie AS IT BEHAVES.  Definitions only.

   A Go *Trie node is
     - an empty leaf      (branch = [nil,nil], key = nil)            E
     - a non-empty leaf   (branch = [nil,nil], key = &k, data = d)   L k d
     - an inner node      (branch = [b0,b1] both non-nil, key = nil) Nd b0 b1
   Keys are bit lists, most significant bit first ([bits] of Lib/Bits.v); this covers both
   bitstr.Key (any length) and bit256.Key (length 256).

   What is transcribed: Size, HasKey/IsLeaf/..., Branch, shrink, Remove (removeAtDepth),
   Add / AddMany (addManyAtDepth).  `K.Bit(i)` panics when i is out of range ([bit_at]).
   Mutation in place is modelled by returning the new trie; the state of a trie after a
   panic in the middle of a mutation is not modelled ([Panic] is final).

   Abstracted:
     - AddMany sorts its entries with slices.SortFunc by Key.Compare and removes ADJACENT entries
       with equal keys.  slices.SortFunc on at most 12 elements is the insertion sort transcribed
       here ([sort_entries]); on longer slices it is pdqsort, which gives the same list whenever
       Compare is a strict total order on the keys present -- it is, except that bitstr's Compare
       calls the empty key equal to every all-zero key ([key_compare]): with the empty key AND
       duplicates among more than 12 entries the survivors are not modelled.
     - addManyAtDepth partitions the sorted slice at the first entry whose bit is 1.  On a slice
       sorted by Compare whose members share their first [depth] bits (shorter ones are dropped
       first) this is the partition by the bit at [depth]; the model partitions with [filter].
     - The recursion of addManyAtDepth is on the depth; the model uses fuel
       1 + (longest entry key), which is enough (an entry is only passed to depth d+1
       when its key is longer than d); running out of fuel is [Blocked]. *)
From Verif.Lib Require Import GoSem Bits.

Inductive trie (D : Type) : Type :=
| E                                  (* empty leaf *)
| L (k : bits) (d : D)               (* leaf key data *)
| Nd (t0 t1 : trie D).               (* node t0 t1 *)
Arguments E {D}.
Arguments L {D} k d.
Arguments Nd {D} t0 t1.

(* K.Bit(i): panics unless 0 <= i < BitLen *)
Definition bit_at (k : bits) (i : nat) : res bool :=
  match nth_error k i with
  | Some b => Ok b
  | None => Panic "bit index out of range"
  end.

Definition is_leaf {D} (t : trie D) : bool := match t with Nd _ _ => false | _ => true end.
Definition has_key {D} (t : trie D) : bool := match t with L _ _ => true | _ => false end.
Definition is_empty_leaf {D} (t : trie D) : bool := match t with E => true | _ => false end.
Definition is_nonempty_leaf {D} (t : trie D) : bool := has_key t.

(* tr.Branch(dir): nil on a leaf *)
Definition child {D} (t0 t1 : trie D) (b : bool) : trie D := if b then t1 else t0.
Definition branch {D} (t : trie D) (b : bool) : option (trie D) :=
  match t with Nd t0 t1 => Some (child t0 t1 b) | _ => None end.
(* replace branch b *)
Definition set_child {D} (t0 t1 : trie D) (b : bool) (c : trie D) : trie D :=
  if b then Nd t0 c else Nd c t1.

Fixpoint size {D} (t : trie D) : nat :=
  match t with
  | E => 0
  | L _ _ => 1
  | Nd t0 t1 => size t0 + size t1
  end.

(* entries left to right (branch 0 before branch 1) *)
Fixpoint entries {D} (t : trie D) : list (bits * D) :=
  match t with
  | E => []
  | L k d => [(k, d)]
  | Nd t0 t1 => entries t0 ++ entries t1
  end.
Definition keys_of {D} (t : trie D) : list bits := map fst (entries t).

Fixpoint height {D} (t : trie D) : nat :=
  match t with
  | Nd t0 t1 => S (Nat.max (height t0) (height t1))
  | _ => 0
  end.

(* shrink: only collapses when both branches are leaves *)
Definition shrink {D} (t : trie D) : trie D :=
  match t with
  | Nd E E => E
  | Nd E (L k d) => L k d
  | Nd (L k d) E => L k d
  | _ => t
  end.

(* (tr *Trie).removeAtDepth; key.Equal on keys of one type = same bits *)
Fixpoint remove_at {D} (depth : nat) (t : trie D) (k : bits) : res (trie D * bool) :=
  match t with
  | E => Ok (E, false)
  | L k' d => if bits_eqb k' k then Ok (E, true) else Ok (t, false)
  | Nd t0 t1 =>
      b <- bit_at k depth ;;
      r <- remove_at (S depth) (child t0 t1 b) k ;;
      if snd r then Ok (shrink (set_child t0 t1 b (fst r)), true) else Ok (t, false)
  end.
Definition remove {D} (t : trie D) (k : bits) : res (trie D * bool) := remove_at 0 t k.

(* the bit at [depth] of an entry key that is long enough; [None]: key too short, entry skipped *)
Definition ebit {D} (depth : nat) (e : bits * D) : option bool := nth_error (fst e) depth.
Definition goes {D} (depth : nat) (b : bool) (e : bits * D) : bool :=
  match ebit depth e with Some c => Bool.eqb c b | None => false end.

(* (tr *Trie).addManyAtDepth: returns the new trie and the number of entries added *)
Fixpoint add_many_at {D} (fuel depth : nat) (es : list (bits * D)) (t : trie D) : res (trie D * nat) :=
  match es with
  | [] => Ok (t, 0)
  | e1 :: rest =>
      match fuel with
      | O => Blocked "add_many_at: out of fuel"
      | S fuel' =>
          let descend (t0 t1 : trie D) : res (trie D * nat) :=
            r0 <- add_many_at fuel' (S depth) (filter (goes depth false) es) t0 ;;
            r1 <- add_many_at fuel' (S depth) (filter (goes depth true) es) t1 ;;
            Ok (Nd (fst r0) (fst r1), snd r0 + snd r1) in
          match t with
          | Nd t0 t1 => descend t0 t1
          | L k d =>
              let split :=
                b <- bit_at k depth ;;       (* tr.key.Bit(depth) *)
                if b then descend E (L k d) else descend (L k d) E in
              match rest with
              | [] => if bits_eqb k (fst e1) then Ok (t, 0) else split
              | _ => split
              end
          | E =>
              match rest with
              | [] => Ok (L (fst e1) (snd e1), 1)
              | _ => descend E E
              end
          end
      end
  end.

Fixpoint max_len {D} (es : list (bits * D)) : nat :=
  match es with
  | [] => 0
  | e :: es' => Nat.max (length (fst e)) (max_len es')
  end.

(* bitstr.Key.Compare (bit256.Key.Compare is the same function on keys of one length): numeric
   order, a proper prefix first -- except that an empty key and an all-zero key are "equal" *)
Definition is_zero_key (k : bits) : bool := forallb negb k.
Fixpoint lex_compare (a b : bits) : comparison :=
  match a, b with
  | [], [] => Eq
  | [], _ :: _ => Lt
  | _ :: _, [] => Gt
  | x :: a', y :: b' => if Bool.eqb x y then lex_compare a' b' else if x then Gt else Lt
  end.
Definition key_compare (a b : bits) : comparison :=
  if negb (Nat.eqb (length a) (length b))
     && ((Nat.eqb (length a) 0 && is_zero_key b) || (Nat.eqb (length b) 0 && is_zero_key a))
  then Eq else lex_compare a b.

(* slices.SortFunc as insertion sort: an entry moves left while it compares strictly less than
   its predecessor.  [rl] is the processed prefix, reversed. *)
Fixpoint ins_entry {D} (x : bits * D) (rl : list (bits * D)) : list (bits * D) :=
  match rl with
  | [] => [x]
  | y :: rl' => match key_compare (fst x) (fst y) with
                | Lt => y :: ins_entry x rl'
                | _ => x :: rl
                end
  end.
Definition sort_entries {D} (es : list (bits * D)) : list (bits * D) :=
  rev (fold_left (fun rl x => ins_entry x rl) es []).

(* removal of adjacent duplicates: an entry whose key equals (key.Equal) the key of the entry
   just before it in the sorted slice is dropped *)
Fixpoint dedup_after {D} (prev : bits) (es : list (bits * D)) : list (bits * D) :=
  match es with
  | [] => []
  | e :: es' => if bits_eqb (fst e) prev then dedup_after (fst e) es'
                else e :: dedup_after (fst e) es'
  end.
Definition dedup_adjacent {D} (es : list (bits * D)) : list (bits * D) :=
  match es with
  | [] => []
  | e :: es' => e :: dedup_after (fst e) es'
  end.

(* (tr *Trie).AddMany *)
Definition add_many {D} (t : trie D) (es : list (bits * D)) : res (trie D * nat) :=
  add_many_at (S (max_len es)) 0 (dedup_adjacent (sort_entries es)) t.

(* (tr *Trie).Add *)
Definition add {D} (t : trie D) (k : bits) (d : D) : res (trie D * bool) :=
  r <- add_many_at (S (length k)) 0 [(k, d)] t ;; Ok (fst r, Nat.eqb (snd r) 1).
