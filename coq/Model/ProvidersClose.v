(* Concurrency model of the Close fence of records/providers_manager.go
   (ProviderManager.Close / AddProvider / GetProviders / gcLoop / collectExpired).
   Definitions only.

   Model/Providers.v treats every operation as atomic; here the operations are
   cut at every synchronisation point and run under an arbitrary interleaving,
   to state what Close guarantees about calls that are in flight when it runs.

   The lock discipline transcribed (providers_manager.go at HEAD):
   - AddProvider (:189-207): pm.mu.Lock() (:198), defer Unlock; reads pm.stopped
     under mu (:200) -> ErrClosed; otherwise writeProviderEntry = one dstore.Put
     (:216) under mu; Unlock on return.
   - GetProviders (:233-275): pm.mu.Lock() (:241); reads pm.stopped under mu
     (:242) -> Unlock, ErrClosed; otherwise getProviderSetForKey under mu: no
     datastore call on a cache hit, else loadProviderSet = one dstore.Query
     (:313) followed by one dstore.Delete per expired/undecodable row (:340,
     :352); Unlock (:248 / :258); the peerstore reads after the Unlock touch no
     datastore.
   - gcLoop (:379-397) NEVER takes mu: select { ticker.C -> collectExpired;
     ctx.Done -> return }, `defer close(pm.closed)`.  With cleanupInterval <= 0
     it only waits for ctx.Done (= a ticker that never fires).  collectExpired
     (:406-431): one dstore.Query (:407, no ctx test before it), then per row:
     `if ctx.Err() != nil { return }` (:416) and possibly one dstore.Delete
     (:426).  The sweep touches the datastore WITHOUT mu.
   - Close (:176-183): pm.cancel(); <-pm.closed (waits for gcLoop to return);
     pm.mu.Lock(); pm.stopped = true; pm.mu.Unlock(); return.
   So clients are fenced by mu + the stopped flag (read and written only under
   mu), the sweep is fenced by the channel pm.closed.

   Abstractions: a datastore call is one step (it returns; errors only shorten
   the list of calls an operation makes); which calls an operation makes is a
   given from outside (ANY list per client call: c_prog; ANY list of deletes per sweep:
   gc_todo), so the theorems hold for every cache/datastore content; Go's
   `select` with both the tick and ctx.Done ready chooses either: the GC
   goroutine has two schedule labels for that choice (TGcTick / TGcDone); the
   ticker is a thread (TTimer) that can fire [ticks_left] more times and sets a
   one-place buffer (time.Ticker's channel has capacity 1; a tick that finds the
   buffer full is dropped); one Close call (Close is idempotent, a second call
   is not modelled); client contexts are never cancelled. *)
From Verif.Lib Require Import GoSem Bits.

Inductive dsop := DPut | DQuery | DDelete | DOther.

Inductive cres := CROk | CRClosed.

(* program counter of one AddProvider / GetProviders call *)
Inductive cpc :=
| CInit                     (* the call has not been made yet *)
| CLock                     (* called; at pm.mu.Lock() (:198 / :241) *)
| CCheck                    (* holds mu; about to read pm.stopped (:200 / :242) *)
| CDs (ops : list dsop)     (* holds mu; datastore calls still to make *)
| CUnlock (r : cres)        (* holds mu; about to pm.mu.Unlock() *)
| CDone (r : cres).         (* returned: nil / ErrClosed *)

Record client := { c_pc : cpc;
                   c_prog : list dsop;        (* the datastore calls it makes when it finds the store open *)
                   c_start : option nat }.    (* index of the step at which the call was made *)

(* the background goroutine *)
Inductive gpc :=
| GSelect                   (* at the select of gcLoop (:390) / at <-ctx.Done() (:383) *)
| GDs (ops : list dsop)     (* in collectExpired, about to make the head call *)
| GCheck (ops : list dsop)  (* in collectExpired, loop head: ctx.Err() test (:416) *)
| GExited.                  (* returned; close(pm.closed) done *)

(* the Close call *)
Inductive xpc :=
| XInit                     (* not called yet *)
| XWait                     (* pm.cancel() done; at <-pm.closed (:178) *)
| XLock                     (* at pm.mu.Lock() (:179) *)
| XSet                      (* holds mu; about to set pm.stopped (:180) *)
| XUnlock                   (* holds mu; about to Unlock (:181) *)
| XReturn                   (* about to return (:182) *)
| XDone.                    (* returned *)

Inductive tid :=
| TClient (i : nat)
| TGc                       (* the GC goroutine inside collectExpired *)
| TGcTick                   (* the GC goroutine's select takes the tick branch *)
| TGcDone                   (* the GC goroutine's select takes the ctx.Done branch *)
| TTimer                    (* the runtime timer of the ticker fires *)
| TClose.

Record state := {
  mu : option tid;                        (* holder of pm.mu *)
  stopped : bool;                         (* pm.stopped *)
  cancelled : bool;                       (* ctx of gcLoop cancelled *)
  tick : bool;                            (* a tick is buffered in ticker.C *)
  ticks_left : nat;                       (* how many more times the ticker fires *)
  clients : list client;
  gc : gpc;
  gc_todo : list (list dsop);             (* deletes of the sweeps still to come *)
  cl : xpc;
  clock : nat;                            (* number of steps taken so far *)
  log : list (nat * tid * dsop);          (* datastore calls: (step index, who, what), newest first *)
  close_ret : option nat                  (* step index at which Close returned *)
}.

Definition init (progs : list (list dsop)) (todo : list (list dsop)) (nticks : nat) : state :=
  {| mu := None; stopped := false; cancelled := false; tick := false; ticks_left := nticks;
     clients := map (fun p => {| c_pc := CInit; c_prog := p; c_start := None |}) progs;
     gc := GSelect; gc_todo := todo; cl := XInit; clock := 0; log := []; close_ret := None |}.

Fixpoint upd {A} (l : list A) (i : nat) (x : A) : list A :=
  match l, i with
  | [], _ => []
  | _ :: r, O => x :: r
  | y :: r, S j => y :: upd r j x
  end.

Definition set_client (st : state) (i : nat) (c : client) (m : option tid) (lg : list (nat * tid * dsop)) : state :=
  {| mu := m; stopped := stopped st; cancelled := cancelled st; tick := tick st; ticks_left := ticks_left st;
     clients := upd (clients st) i c; gc := gc st; gc_todo := gc_todo st; cl := cl st;
     clock := S (clock st); log := lg; close_ret := close_ret st |}.

Definition with_pc (c : client) (p : cpc) : client :=
  {| c_pc := p; c_prog := c_prog c; c_start := c_start c |}.

Definition step_client (st : state) (i : nat) : option state :=
  match nth_error (clients st) i with
  | None => None
  | Some c =>
      match c_pc c with
      | CInit => Some (set_client st i {| c_pc := CLock; c_prog := c_prog c; c_start := Some (clock st) |}
                                  (mu st) (log st))
      | CLock => match mu st with
                 | None => Some (set_client st i (with_pc c CCheck) (Some (TClient i)) (log st))
                 | Some _ => None                      (* blocked in Lock *)
                 end
      | CCheck => Some (set_client st i (with_pc c (if stopped st then CUnlock CRClosed else CDs (c_prog c)))
                                   (mu st) (log st))
      | CDs [] => Some (set_client st i (with_pc c (CUnlock CROk)) (mu st) (log st))
      | CDs (o :: r) => Some (set_client st i (with_pc c (CDs r)) (mu st) ((clock st, TClient i, o) :: log st))
      | CUnlock r => Some (set_client st i (with_pc c (CDone r)) None (log st))
      | CDone _ => None
      end
  end.

Definition set_gc (st : state) (g : gpc) (tk : bool) (todo : list (list dsop)) (lg : list (nat * tid * dsop)) : state :=
  {| mu := mu st; stopped := stopped st; cancelled := cancelled st; tick := tk; ticks_left := ticks_left st;
     clients := clients st; gc := g; gc_todo := todo; cl := cl st;
     clock := S (clock st); log := lg; close_ret := close_ret st |}.

(* inside collectExpired *)
Definition step_gc (st : state) : option state :=
  match gc st with
  | GDs [] => Some (set_gc st GSelect (tick st) (gc_todo st) (log st))     (* return from collectExpired *)
  | GDs (o :: r) => Some (set_gc st (GCheck r) (tick st) (gc_todo st) ((clock st, TGc, o) :: log st))
  | GCheck r => Some (set_gc st (if cancelled st then GSelect
                                 else match r with [] => GSelect | _ => GDs r end)
                             (tick st) (gc_todo st) (log st))
  | GSelect | GExited => None
  end.

(* select: case <-ticker.C: collectExpired(ctx) -- starts with the Query (:407) *)
Definition step_gc_tick (st : state) : option state :=
  match gc st with
  | GSelect => if tick st
               then Some (set_gc st (GDs (DQuery :: hd [] (gc_todo st))) false (tl (gc_todo st)) (log st))
               else None
  | _ => None
  end.

(* select: case <-ctx.Done(): return; deferred ticker.Stop(), close(pm.closed) *)
Definition step_gc_done (st : state) : option state :=
  match gc st with
  | GSelect => if cancelled st then Some (set_gc st GExited (tick st) (gc_todo st) (log st)) else None
  | _ => None
  end.

Definition step_timer (st : state) : option state :=
  match ticks_left st with
  | O => None
  | S n => Some {| mu := mu st; stopped := stopped st; cancelled := cancelled st; tick := true; ticks_left := n;
                   clients := clients st; gc := gc st; gc_todo := gc_todo st; cl := cl st;
                   clock := S (clock st); log := log st; close_ret := close_ret st |}
  end.

Definition set_close (st : state) (x : xpc) (m : option tid) (stp cnc : bool) (ret : option nat) : state :=
  {| mu := m; stopped := stp; cancelled := cnc; tick := tick st; ticks_left := ticks_left st;
     clients := clients st; gc := gc st; gc_todo := gc_todo st; cl := x;
     clock := S (clock st); log := log st; close_ret := ret |}.

Definition step_close (st : state) : option state :=
  match cl st with
  | XInit => Some (set_close st XWait (mu st) (stopped st) true (close_ret st))             (* pm.cancel() *)
  | XWait => match gc st with
             | GExited => Some (set_close st XLock (mu st) (stopped st) (cancelled st) (close_ret st))
             | _ => None                                                                   (* <-pm.closed *)
             end
  | XLock => match mu st with
             | None => Some (set_close st XSet (Some TClose) (stopped st) (cancelled st) (close_ret st))
             | Some _ => None
             end
  | XSet => Some (set_close st XUnlock (mu st) true (cancelled st) (close_ret st))
  | XUnlock => Some (set_close st XReturn None (stopped st) (cancelled st) (close_ret st))
  | XReturn => Some (set_close st XDone (mu st) (stopped st) (cancelled st) (Some (clock st)))
  | XDone => None
  end.

(* one step of thread [t]; None = [t] is not enabled *)
Definition step (st : state) (t : tid) : option state :=
  match t with
  | TClient i => step_client st i
  | TGc => step_gc st
  | TGcTick => step_gc_tick st
  | TGcDone => step_gc_done st
  | TTimer => step_timer st
  | TClose => step_close st
  end.

(* a schedule is any list of thread ids; scheduling a thread that is not enabled
   does nothing (and does not count as a step) *)
Definition exec (st : state) (t : tid) : state :=
  match step st t with Some st' => st' | None => st end.
Definition run (st : state) (sched : list tid) : state := fold_left exec sched st.

Definition enabled (st : state) (t : tid) : bool :=
  match step st t with Some _ => true | None => false end.

(* ---- what the theorems speak about ------------------------------------------- *)

(* a client call in this state has not reported anything but ErrClosed and is not
   (and, by the theorem, will not be) in its datastore section *)
Definition closed_or_pending (p : cpc) : Prop :=
  match p with
  | CInit | CLock | CCheck | CUnlock CRClosed | CDone CRClosed => True
  | _ => False
  end.

(* the thread Close is waiting for (itself when it can move) *)
Definition close_blocker (st : state) : tid :=
  match cl st with
  | XWait => match gc st with
             | GExited => TClose
             | GSelect => TGcDone
             | _ => TGc
             end
  | XLock => match mu st with
             | Some h => h
             | None => TClose
             end
  | _ => TClose
  end.

(* upper bound on the number of steps the whole system can still take *)
Definition client_fuel (c : client) : nat :=
  match c_pc c with
  | CInit => 6 + length (c_prog c)
  | CLock => 5 + length (c_prog c)
  | CCheck => 4 + length (c_prog c)
  | CDs ops => 3 + length ops
  | CUnlock _ => 1
  | CDone _ => 0
  end.
Definition sum_list (l : list nat) : nat := fold_right Nat.add 0 l.
Definition gc_fuel (g : gpc) : nat :=
  match g with
  | GSelect => 1
  | GDs ops => 2 * length ops + 3
  | GCheck ops => 2 * length ops + 4
  | GExited => 0
  end.
Definition close_fuel (x : xpc) : nat :=
  match x with XInit => 6 | XWait => 5 | XLock => 4 | XSet => 3 | XUnlock => 2 | XReturn => 1 | XDone => 0 end.
Definition fuel (st : state) : nat :=
  sum_list (map client_fuel (clients st)) + gc_fuel (gc st) + close_fuel (cl st)
  + 6 * ((if tick st then 1 else 0) + ticks_left st) + ticks_left st
  + 2 * sum_list (map (@length dsop) (gc_todo st)).
