(* C15 — address classes and the peer / address filters of the WAN and LAN DHTs.
   Definitions only.

   Transcribed (the code as it is):
     dht_filters.go  isPublicAddr, isPrivateAddr, isRelayAddr, inAddrRange,
                     PublicQueryFilter, PrivateQueryFilter, PublicRoutingTableFilter,
                     privRTFilter (the part that does not consult the OS routing table),
                     isEUI, sameV6Net
     dual/dual.go    the two AddressFilter closures of New:
                       WAN: ma.FilterAddrs(addrs, manet.IsPublicAddr)
                       LAN: ma.FilterAddrs(addrs, !manet.IsIPLoopback)
     query.go:489    admission of a referred peer into a lookup (isTarget || queryPeerFilter)
     dht.go:958-980  maybeAddAddrs / FilteredAddrs / filterAddrs
   Dependency data and functions (go-multiaddr v0.16.1 net/private.go, net/ip.go;
   Go's net.IP.To4 / IPNet.Contains / IsLoopback): MODELLED, NOT VERIFIED — the
   tables below are hand-copied and compared with the real functions at every CIDR
   boundary +-1 by the correspondence run.

   A multiaddr is abstracted to what these functions look at: its first component
   after an optional /ip6zone (ip4 / ip6 address, dns name, anything else), and
   whether some component is /p2p-circuit.  IPv4 addresses are N < 2^32, IPv6
   addresses N < 2^128 (big endian). *)
From Verif.Lib Require Import GoSem Bits.
Local Open Scope N_scope.

Inductive head :=
| HIp4 (a : N)            (* /ip4/a *)
| HIp6 (a : N)            (* /ip6/a *)
| HDns (name : string)    (* /dns, /dns4, /dns6, /dnsaddr *)
| HOther.                 (* any other first component (/tcp, /p2p, /unix, ...) *)

Record maddr := {
  a_id : nat;             (* identity of the address inside one case (distinct ids <=> distinct bytes) *)
  a_zone : bool;          (* starts with /ip6zone/<zone> (skipped by ToIP, IsPublicAddr, IsIPLoopback) *)
  a_head : head;
  a_relay : bool          (* some component is /p2p-circuit: dht_filters.go isRelayAddr *)
}.

(* ---- CIDR tables (go-multiaddr net/private.go) ----------------------------------- *)

Definition ip4 (a b c d : N) : N := ((a * 256 + b) * 256 + c) * 256 + d.
Definition ip6 (h0 h1 h2 h3 h4 h5 h6 h7 : N) : N :=
  ((((((h0 * 65536 + h1) * 65536 + h2) * 65536 + h3) * 65536 + h4) * 65536 + h5) * 65536 + h6) * 65536 + h7.

(* a network: base address and prefix length *)
Definition cidr := (N * N)%type.

(* net.IPNet.Contains for an address of the net's own family: the leading len bits agree *)
Definition in_cidr (width : N) (a : N) (c : cidr) : bool :=
  N.eqb (N.shiftr a (width - snd c)) (N.shiftr (fst c) (width - snd c)).
Definition in_range (width : N) (a : N) (l : list cidr) : bool := existsb (in_cidr width a) l.

Definition private4 : list cidr :=
  [ (ip4 127 0 0 0, 8);      (* localhost *)
    (ip4 10 0 0 0, 8); (ip4 100 64 0 0, 10); (ip4 172 16 0 0, 12); (ip4 192 168 0 0, 16); (* private networks *)
    (ip4 169 254 0 0, 16) ]. (* link local *)
Definition unroutable4 : list cidr :=
  [ (ip4 0 0 0 0, 8); (ip4 192 0 0 0, 26); (ip4 192 0 2 0, 24); (ip4 192 88 99 0, 24); (ip4 198 18 0 0, 15);
    (ip4 198 51 100 0, 24); (ip4 203 0 113 0, 24); (ip4 224 0 0 0, 4); (ip4 240 0 0 0, 4);
    (ip4 255 255 255 255, 32) ].
Definition unroutable6 : list cidr :=
  [ (ip6 0xff00 0 0 0 0 0 0 0, 8);         (* multicast *)
    (ip6 0x2001 0xdb8 0 0 0 0 0 0, 32) ].  (* documentation *)
Definition global_unicast6 : list cidr := [ (ip6 0x2000 0 0 0 0 0 0 0, 3) ].
Definition nat64 : list cidr :=
  [ (ip6 0x64 0xff9b 1 0 0 0 0 0, 48);     (* RFC 8215 *)
    (ip6 0x64 0xff9b 0 0 0 0 0 0, 96) ].   (* RFC 6052 *)
(* dht_filters.go: publicCIDR6 = "2000::/3" *)
Definition public6 : cidr := (ip6 0x2000 0 0 0 0 0 0 0, 3).

(* ---- Go's net.IP helpers -------------------------------------------------------------- *)

(* net.IP.To4 on a 16-byte address: non-nil iff it is ::ffff:a.b.c.d *)
Definition v4_mapped (a : N) : option N :=
  if N.eqb (N.shiftr a 32) 0xffff then Some (N.land a 0xffffffff) else None.

(* the IP of a multiaddr as Go sees it after ip.To4(): a v4 address or a proper v6 address *)
Inductive goip := G4 (a : N) | G6 (a : N).
Definition to_ip (h : head) : option goip :=
  match h with
  | HIp4 a => Some (G4 a)
  | HIp6 a => match v4_mapped a with Some b => Some (G4 b) | None => Some (G6 a) end
  | _ => None             (* manet.ToIP: errNotIP *)
  end.

(* ---- dht_filters.go ------------------------------------------------------------------------- *)

Definition is_relay (a : maddr) : bool := a_relay a.

(* isPublicAddr: v4 (incl. v4-mapped): not private, not unroutable; v6: inside 2000::/3 *)
Definition dht_is_public (a : maddr) : bool :=
  match to_ip (a_head a) with
  | None => false
  | Some (G4 x) => negb (in_range 32 x private4) && negb (in_range 32 x unroutable4)
  | Some (G6 x) => in_cidr 128 x public6
  end.

(* isPrivateAddr *)
Definition dht_is_private (a : maddr) : bool :=
  match to_ip (a_head a) with
  | None => false
  | Some (G4 x) => in_range 32 x private4
  | Some (G6 x) => negb (in_cidr 128 x public6) && negb (in_range 128 x unroutable6)
  end.

(* PublicQueryFilter: some address is public and not a relay address (false on no address) *)
Definition good_public (a : maddr) : bool := negb (is_relay a) && dht_is_public a.
Definition public_query_filter (addrs : list maddr) : bool :=
  match addrs with
  | [] => false
  | _ => existsb good_public addrs
  end.

(* PrivateQueryFilter *)
Definition private_query_filter (addrs : list maddr) : bool :=
  match addrs with [] => false | _ => true end.

(* PublicRoutingTableFilter: nconns = len(ConnsToPeer(p)), known = peerstore addresses of the peer *)
Definition public_rt_filter (nconns : nat) (known : list maddr) : bool :=
  match nconns with
  | O => false
  | _ => existsb good_public known
  end.

(* isEUI / sameV6Net on proper 16-byte v6 addresses *)
Definition is_eui (x : N) : bool :=
  N.eqb (N.land (N.shiftr x 24) 0xffff) 0xfffe.   (* ip[11] = 0xff, ip[12] = 0xfe *)
Definition same_v6_net (x y : N) : bool := N.eqb (N.shiftr x 64) (N.shiftr y 64).
Definition goip_eqb (x y : goip) : bool :=
  match x, y with G4 a, G4 b => N.eqb a b | G6 a, G6 b => N.eqb a b | _, _ => false end.

(* privRTFilter, one connection: Some true = definitely local; None = decided by the OS
   routing table (router.Route: environment, not modelled); Some false = not local *)
Definition own_ips (own : list maddr) : list goip :=
  flat_map (fun a => if dht_is_public a && negb (is_relay a)
                     then match to_ip (a_head a) with Some i => [i] | None => [] end else []) own.
Definition priv_rt_conn (own : list goip) (ra : maddr) : option bool :=
  if dht_is_private ra && negb (is_relay ra) then Some true
  else if dht_is_public ra then
    match to_ip (a_head ra) with
    | None => Some false
    | Some ip =>
        if existsb (fun i => goip_eqb i ip ||
                             match ip, i with
                             | G6 x, G6 y => is_eui x && same_v6_net y x
                             | _, _ => false
                             end) own
        then Some true else None
    end
  else Some false.
Definition private_rt_filter (own : list maddr) (conns : list maddr) : option bool :=
  let rs := map (priv_rt_conn (own_ips own)) conns in
  if existsb (fun r => match r with Some true => true | _ => false end) rs then Some true
  else if existsb (fun r => match r with None => true | _ => false end) rs then None
  else Some false.

(* ---- go-multiaddr manet (dependency) ------------------------------------------------------------ *)

Fixpoint srev_acc (s acc : string) : string :=
  match s with EmptyString => acc | String c r => srev_acc r (String c acc) end.
Definition srev (s : string) : string := srev_acc s EmptyString.
Definition ends_with (s suffix : string) : bool := String.prefix (srev suffix) (srev s).
Definition stail (s : string) : string := match s with EmptyString => EmptyString | String _ r => r end.
(* isSubdomain(child, parent): parent starts with "." *)
Definition is_subdomain (child parent : string) : bool :=
  ends_with child parent || String.eqb child (stail parent).

Definition localhost_domain : string := ".localhost".
Definition unresolvable_domains : list string := [".in-addr.arpa"; ".ip6.arpa"; ".invalid"]%string.
Definition private_use_domains : list string := [".home.arpa"; ".local"; ".test"]%string.

(* manet.IsPublicAddr: decided by the first component after an /ip6zone.  A 16-byte
   v4-mapped address in an /ip6 component matches none of the v6 networks
   (IPNet.Contains converts it to 4 bytes and then the lengths differ). *)
Definition manet_is_public (a : maddr) : bool :=
  match a_head a with
  | HIp4 x => negb (in_range 32 x private4) && negb (in_range 32 x unroutable4)
  | HIp6 x =>
      match v4_mapped x with
      | Some _ => false
      | None => (in_range 128 x global_unicast6 && negb (in_range 128 x unroutable6)) || in_range 128 x nat64
      end
  | HDns name =>
      negb (is_subdomain name localhost_domain)
      && negb (existsb (is_subdomain name) unresolvable_domains)
      && negb (existsb (is_subdomain name) private_use_domains)
  | HOther => false
  end.

(* manet.IsIPLoopback: net.IP.IsLoopback of the first component after the zone *)
Definition is_ip_loopback (a : maddr) : bool :=
  match a_head a with
  | HIp4 x => N.eqb (N.shiftr x 24) 127
  | HIp6 x => match v4_mapped x with
              | Some y => N.eqb (N.shiftr y 24) 127
              | None => N.eqb x 1
              end
  | _ => false
  end.

(* ---- dual/dual.go New: the address filters of the two DHTs -------------------------------------------- *)

Inductive side := WAN | LAN.

Definition addr_filter (s : side) (addrs : list maddr) : list maddr :=
  match s with
  | WAN => filter manet_is_public addrs
  | LAN => filter (fun a => negb (is_ip_loopback a)) addrs
  end.
Definition query_filter (s : side) (addrs : list maddr) : bool :=
  match s with WAN => public_query_filter addrs | LAN => private_query_filter addrs end.

(* query.go:480-492: a peer named in a response enters the lookup iff it is the
   target of the lookup or passes the query filter on (addresses in the response ++
   addresses already in the peerstore); then maybeAddAddrs stores the filtered
   addresses unless the peer is self or connected (dht.go:958-964). *)
Definition admits (s : side) (is_target : bool) (resp known : list maddr) : bool :=
  is_target || query_filter s (resp ++ known).
Definition stored (s : side) (is_target self_or_connected : bool) (resp known : list maddr) : list maddr :=
  if admits s is_target resp known && negb self_or_connected then addr_filter s (resp ++ known) else [].
(* FilteredAddrs: what a DHT advertises of the host's own addresses (ADD_PROVIDER payload) *)
Definition advertised (s : side) (own : list maddr) : list maddr := addr_filter s own.
