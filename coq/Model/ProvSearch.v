(* Model of the provider-accumulation logic of
     routing.go   findProvidersAsyncRoutine (IpfsDHT, lines 528-654)
     fullrt/dht.go findProvidersAsyncRoutine (FullRT,  lines 1381-1492)
     dual/dual.go  FindProvidersAsync         (dual.DHT, lines 186-252)
   Definitions only.

   A provider entry is (peer id, "carries at least one address"): the only
   fact about an AddrInfo the code looks at is len(Addrs) > 0.

   psTryAdd is atomic (it holds psLock), so whatever the interleaving of the
   query goroutines, the accumulation is a fold over the sequence of psTryAdd
   calls in lock order.  The model is written at the granularity the harness
   drives: one *answer* (the provider list of one GET_PROVIDERS response, after
   dht.shuffle) is processed completely before the next one.  What is
   abstracted: the lookup itself (which peers are asked: C01), the peerstore
   side effect maybeAddAddrs, tracing events, query events; the order of two
   sends racing on the unbuffered channel from two query goroutines. *)
From Verif.Lib Require Import GoSem Bits.

Definition peer := N.
Definition entry := (peer * bool)%type.

(* ps : map[peer.ID]peer.AddrInfo -- association list, one pair per peer *)
Definition pmap := list entry.

Fixpoint pm_find (p : peer) (m : pmap) : option bool :=
  match m with
  | [] => None
  | (q, a) :: r => if N.eqb q p then Some a else pm_find p r
  end.

(* ps[p] = info for a peer already present *)
Fixpoint pm_set (p : peer) (a : bool) (m : pmap) : pmap :=
  match m with
  | [] => [(p, a)]
  | (q, b) :: r => if N.eqb q p then (q, a) :: r else (q, b) :: pm_set p a r
  end.

(* count is a Go int: it may be negative *)
Definition find_all (count : Z) : bool := Z.eqb count 0.

(* len(ps) < count || findAll *)
Definition room (count : Z) (m : pmap) : bool :=
  Z.ltb (Z.of_nat (length m)) count || find_all count.

(* psTryAdd, routing.go:539-548:
     pi, ok := ps[p.ID]
     if (!ok || ((len(pi.Addrs) == 0) && len(p.Addrs) > 0)) && (len(ps) < count || findAll) *)
Definition try_add (count : Z) (m : pmap) (e : entry) : pmap * bool :=
  match pm_find (fst e) m with
  | None => if room count m then (m ++ [e], true) else (m, false)
  | Some had => if negb had && snd e && room count m then (pm_set (fst e) (snd e) m, true) else (m, false)
  end.

(* `!findAll && len(ps) >= count` (563), `!findAll && psSize() >= count` (620),
   and the lookup's stop function (640-642) *)
Definition stop (count : Z) (m : pmap) : bool :=
  negb (find_all count) && Z.leb count (Z.of_nat (length m)).

(* One loop over a provider list: the local phase (555-573) and the per-response
   loop (605-624) have the same shape: try to add, send when added, leave the
   loop as soon as enough are held.  Result: map, what was sent on the channel,
   whether the loop was left early ("enough"). *)
Fixpoint feed (count : Z) (m : pmap) (es : list entry) : pmap * list entry * bool :=
  match es with
  | [] => (m, [], false)
  | e :: rest =>
      let (m1, added) := try_add count m e in
      let y := if added then [e] else [] in
      if stop count m1 then (m1, y, true)
      else let '(m2, ys, early) := feed count m1 rest in (m2, y ++ ys, early)
  end.

(* the answers the search processes, in processing order; [sh] is dht.shuffle
   applied to each provider list before the loop (602) *)
Fixpoint feed_answers (sh : list entry -> list entry) (count : Z) (m : pmap) (answers : list (list entry))
  : pmap * list entry :=
  match answers with
  | [] => (m, [])
  | a :: rest =>
      let '(m1, y, _) := feed count m (sh a) in
      let (m2, ys) := feed_answers sh count m1 rest in
      (m2, y ++ ys)
  end.

(* findProvidersAsyncRoutine: local providers first; when they suffice no
   request is made at all (early return, 563-565) *)
Definition search (sh : list entry -> list entry) (count : Z) (locals : list entry) (answers : list (list entry))
  : pmap * list entry :=
  let '(m0, y0, early) := feed count [] locals in
  if early then (m0, y0)
  else let (m1, ys) := feed_answers sh count m0 answers in (m1, y0 ++ ys).

(* What is observed on the result channel.  [store_err]: providerStore.GetProviders
   failed (550-553: return).  [takes]: the consumer cancels after receiving that
   many providers and stops receiving; the routine's pending send then loses
   against ctx.Done().  close(peerOut) is deferred: it is the last event on
   every path. *)
Inductive event := Yield (e : entry) | Closed.

Definition routine (sh : list entry -> list entry) (store_err : bool) (count : Z) (locals : list entry)
           (answers : list (list entry)) (takes : option nat) : list event :=
  if store_err then [Closed]
  else
    let ys := snd (search sh count locals answers) in
    map Yield (match takes with Some n => firstn n ys | None => ys end) ++ [Closed].

(* ---- FullRT variant: set of ids, no upgrade of an address-less peer --------- *)
Definition fr_try_add (count : Z) (ps : list peer) (p : peer) : list peer * bool :=
  if negb (existsb (N.eqb p) ps) && (Z.ltb (Z.of_nat (length ps)) count || find_all count)
  then (ps ++ [p], true) else (ps, false).

Definition fr_stop (count : Z) (ps : list peer) : bool :=
  negb (find_all count) && Z.leb count (Z.of_nat (length ps)).

Fixpoint fr_feed (count : Z) (ps : list peer) (es : list entry) : list peer * list entry * bool :=
  match es with
  | [] => (ps, [], false)
  | e :: rest =>
      let (ps1, added) := fr_try_add count ps (fst e) in
      let y := if added then [e] else [] in
      if fr_stop count ps1 then (ps1, y, true)
      else let '(ps2, ys, early) := fr_feed count ps1 rest in (ps2, y ++ ys, early)
  end.

Fixpoint fr_feed_answers (sh : list entry -> list entry) (count : Z) (ps : list peer) (answers : list (list entry))
  : list peer * list entry :=
  match answers with
  | [] => (ps, [])
  | a :: rest =>
      let '(ps1, y, _) := fr_feed count ps (sh a) in
      let (ps2, ys) := fr_feed_answers sh count ps1 rest in
      (ps2, y ++ ys)
  end.

Definition fr_search (sh : list entry -> list entry) (count : Z) (locals : list entry) (answers : list (list entry))
  : list peer * list entry :=
  let '(p0, y0, early) := fr_feed count [] locals in
  if early then (p0, y0)
  else let (p1, ys) := fr_feed_answers sh count p0 answers in (p1, y0 ++ ys).

(* ---- dual.DHT merge (dual.go:203-250) ---------------------------------------- *)
(* [arrivals]: what the WAN and LAN channels deliver, in the order the select
   receives it.  Loop condition `(zeroCount || count > 0) && (wanCh != nil ||
   lanCh != nil)`; a peer already in [found] is skipped; a forwarded peer is
   added to [found] and count is decremented. *)
Fixpoint dual_loop (zero : bool) (count : Z) (found : list peer) (arrivals : list entry) : list entry :=
  match arrivals with
  | [] => []
  | e :: rest =>
      if zero || Z.ltb 0 count then
        if existsb (N.eqb (fst e)) found then dual_loop zero count found rest
        else e :: dual_loop zero (count - 1) (fst e :: found) rest
      else []
  end.

Definition dual_merge (count : Z) (arrivals : list entry) : list entry :=
  dual_loop (Z.eqb count 0) count [] arrivals.
