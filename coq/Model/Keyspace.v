(* Model of provider/internal/keyspace/trie.go and key.go.  Definitions only.
   Every definition transcribes the Go function named above it: what the code DOES
   (including its panics and its defects), over the trie of Model/Trie.v.

   Conventions
   - keys, prefixes, targets and orders are [bits]; `x.Bit(i)` is [bit_at x i] and panics
     out of range, for bitstr.Key and for bit256.Key alike.
   - `depth` arguments are the Go `depth` arguments.
   - `zeroKey` (bit256.ZeroKey()) is [zero_key] = 256 zero bits: iterating with it panics in
     a trie deeper than 256, as in Go.
   - Functions that mutate their argument return the new trie.
   - Iterators (iter.Seq) are modelled by the list they yield.  KeyspaceCovered stops ranging
     at its first `return false`; the model computes the whole list first, which differs only
     if the iteration would panic (trie deeper than 256) after that point.
   - A Go map result (AllocateToKClosest) is the list of (destination, batch) appends in the
     order the code performs them.
   - sha256 / peer.ID / multihash: RegionsFromPeers, AssignKeysToRegions and
     ShortestCoveredPrefix take the 256-bit identifiers (PeerIDToBit256 / MhToBit256 of the
     arguments) paired with an identity. *)
From Verif.Lib Require Import GoSem Bits.
From Verif.Model Require Import Trie.

Definition entry (D : Type) : Type := (bits * D)%type.

Definition zero_key : bits := repeat false 256.

(* ---- key.go ------------------------------------------------------------- *)

(* FlipLastBit *)
Fixpoint flip_last (k : bits) : bits :=
  match k with
  | [] => []
  | [b] => [negb b]
  | b :: k' => b :: flip_last k'
  end.

(* SiblingPrefixes: FlipLastBit(key[:i+1]) for i = 0 .. len-1 *)
Fixpoint sibling_prefixes_from (pre : bits) (k : bits) : list bits :=
  match k with
  | [] => []
  | b :: k' => (pre ++ [negb b]) :: sibling_prefixes_from (pre ++ [b]) k'
  end.
Definition sibling_prefixes (k : bits) : list bits := sibling_prefixes_from [] k.

(* IsBitstrPrefix and IsPrefix are [is_prefix] of Lib/Bits.v. *)

(* ExtendBinaryPrefix(prefix, n), n : Z.  nil when n < 0 or n < len(prefix). *)
Fixpoint extend_by (extra : nat) (l : list bits) : list bits :=
  match extra with
  | O => l
  | S e => extend_by e (flat_map (fun s => [s ++ [false]; s ++ [true]]) l)
  end.
Definition extend_binary_prefix (p : bits) (n : Z) : list bits :=
  if (n <? 0)%Z || (n <? Z.of_nat (length p))%Z then []
  else extend_by (Z.to_nat n - length p) [p].

(* FirstFullKeyWithPrefix(k, order): KeyLen = 256.
   `k + BitString(order)[kLen:]` : slicing a string beyond its length panics. *)
Definition first_full_key (k order : bits) : res bits :=
  if 256 <? length k then Ok (firstn 256 k)
  else if length order <? length k then Panic "slice bounds out of range"
  else Ok (k ++ skipn (length k) order).

(* KeyToBytes: bits packed MSB first, zero padded; as a list of bytes (N) *)
Fixpoint byte_of (bs : bits) (acc : N) (n : nat) : N :=
  match n with
  | O => acc
  | S n' => match bs with
            | [] => byte_of [] (2 * acc)%N n'
            | b :: bs' => byte_of bs' (2 * acc + (if b then 1 else 0))%N n'
            end
  end.
Fixpoint key_to_bytes_fuel (fuel : nat) (k : bits) : list N :=
  match fuel with
  | O => []
  | S f => match k with
           | [] => []
           | _ => byte_of k 0%N 8 :: key_to_bytes_fuel f (skipn 8 k)
           end
  end.
Definition key_to_bytes (k : bits) : list N := key_to_bytes_fuel (S (length k)) k.

(* ---- iteration ---------------------------------------------------------- *)

(* trieIterAtDepth with extract = entry *)
Fixpoint iter_at {D} (t : trie D) (order : bits) (depth : nat) : res (list (entry D)) :=
  match t with
  | E => Ok []
  | L k d => Ok [(k, d)]
  | Nd t0 t1 =>
      b <- bit_at order depth ;;
      x <- iter_at (child t0 t1 b) order (S depth) ;;
      y <- iter_at (child t0 t1 (negb b)) order (S depth) ;;
      Ok (x ++ y)
  end.
(* AllEntries / AllKeys / AllValues *)
Definition all_entries {D} (t : trie D) (order : bits) : res (list (entry D)) := iter_at t order 0.
Definition all_keys {D} (t : trie D) (order : bits) : res (list bits) :=
  l <- all_entries t order ;; Ok (map fst l).
Definition all_values {D} (t : trie D) (order : bits) : res (list D) :=
  l <- all_entries t order ;; Ok (map snd l).

(* ---- FindPrefixOfKey ---------------------------------------------------- *)
(* returns (key, ok); the zero key is [] *)
Fixpoint find_prefix_at {D} (t : trie D) (k : bits) (depth : nat) : res (bits * bool) :=
  match t with
  | E => Ok ([], false)
  | L k' _ => Ok (k', Nat.eqb (cpl k' k) (length k'))
  | Nd t0 t1 =>
      if Nat.eqb depth (length k) then Ok ([], false)
      else b <- bit_at k depth ;; find_prefix_at (child t0 t1 b) k (S depth)
  end.
Definition find_prefix_of_key {D} (t : trie D) (k : bits) : res (bits * bool) := find_prefix_at t k 0.

(* ---- FindSubtrie -------------------------------------------------------- *)
(* the loop `for i := range k.BitLen()` with `branch` descending from the root *)
Fixpoint find_subtrie_loop {D} (root br : trie D) (k : bits) (i : nat) : res (trie D * bool) :=
  if Nat.eqb i (length k) then Ok (br, negb (is_empty_leaf br))
  else match br with
       | E => Ok (root, false)
       | L k' _ => Ok (br, Nat.eqb (cpl k' k) (length k))
       | Nd t0 t1 => b <- bit_at k i ;; find_subtrie_loop root (child t0 t1 b) k (S i)
       end.
Definition find_subtrie {D} (t : trie D) (k : bits) : res (trie D * bool) :=
  if is_empty_leaf t then Ok (t, false) else find_subtrie_loop t t k 0.

(* ---- NextNonEmptyLeaf --------------------------------------------------- *)
(* bitstr.Key.CommonPrefixLength (the method, used as k.CommonPrefixLength(leafKey)):
   an empty key and an all-zero key of another length are "equal": the cpl is the length of
   the all-zero one.  For two keys of equal length (always the case for bit256) it is [cpl]. *)
Definition is_zero (k : bits) : bool := forallb negb k.
Definition cpl_method (a b : bits) : nat :=
  if negb (Nat.eqb (length a) (length b)) && Nat.eqb (length a) 0 && is_zero b then length b
  else if negb (Nat.eqb (length a) (length b)) && Nat.eqb (length b) 0 && is_zero a then length a
  else cpl a b.

(* hitBottom = true *)
Fixpoint next_down {D} (t : trie D) (order : bits) (depth : nat) : res (option (entry D)) :=
  match t with
  | L k d => Ok (Some (k, d))
  | E => Ok None
  | Nd t0 t1 =>
      ob <- bit_at order depth ;;
      r <- next_down (child t0 t1 ob) order (S depth) ;;
      match r with
      | Some _ => Ok r
      | None => next_down (child t0 t1 (negb ob)) order (S depth)
      end
  end.

(* hitBottom = false *)
Fixpoint next_at {D} (t : trie D) (k order : bits) (depth : nat) : res (option (entry D)) :=
  match t with
  | E => Ok None
  | L k' d =>
      if Nat.eqb depth 0 then Ok (Some (k', d))
      else
        let c := cpl_method k k' in
        if (c <? length k) && (c <? length order) then
          ob <- bit_at order c ;; kb <- bit_at k c ;;
          if Bool.eqb ob kb then Ok (Some (k', d)) else Ok None
        else Ok None
  | Nd t0 t1 =>
      kb <- bit_at k depth ;;
      r <- next_at (child t0 t1 kb) k order (S depth) ;;
      match r with
      | Some _ => Ok r
      | None =>
          ob <- bit_at order depth ;;
          if Bool.eqb kb ob || Nat.eqb depth 0 then
            r2 <- next_down (child t0 t1 (negb kb)) order (S depth) ;;
            match r2 with
            | Some _ => Ok r2
            | None => if Nat.eqb depth 0 then next_down (child t0 t1 kb) order (S depth)
                      else Ok None
            end
          else Ok None
      end
  end.
Definition next_non_empty_leaf {D} (t : trie D) (k order : bits) : res (option (entry D)) :=
  next_at t k order 0.

(* ---- PruneSubtrie ------------------------------------------------------- *)
Fixpoint prune_at {D} (t : trie D) (k : bits) (depth : nat) : res (trie D * bool) :=
  match t with
  | E => Ok (E, false)
  | L k' _ => if is_prefix k k' then Ok (E, true) else Ok (t, false)
  | Nd t0 t1 =>
      if Nat.eqb depth (length k) then Ok (E, true)
      else
        b <- bit_at k depth ;;
        r <- prune_at (child t0 t1 b) k (S depth) ;;
        if snd r && is_empty_leaf (child t0 t1 (negb b)) then Ok (E, true)
        else Ok (set_child t0 t1 b (fst r), false)
  end.
Definition prune_subtrie {D} (t : trie D) (k : bits) : res (trie D) :=
  r <- prune_at t k 0 ;; Ok (fst r).

(* ---- CoalesceTrie ------------------------------------------------------- *)
(* [dz] is the zero value of D (`var d D`).  keys[0].BitLen()-1 is -1 for an empty key, which
   no common prefix length equals: the guard [0 <? length k0]. *)
Fixpoint coalesce {D} (dz : D) (t : trie D) : trie D :=
  match t with
  | Nd t0 t1 =>
      let c0 := coalesce dz t0 in
      let c1 := coalesce dz t1 in
      match c0, c1 with
      | L k0 _, L k1 _ =>
          if (0 <? length k0) && Nat.eqb (length k0) (length k1)
             && Nat.eqb (cpl k0 k1) (length k0 - 1)
          then L (firstn (length k0 - 1) k0) dz      (* *t = {}; t.Add(parentKey, d) *)
          else Nd c0 c1
      | _, _ => Nd c0 c1
      end
  | _ => t
  end.

(* ---- SubtractTrie ------------------------------------------------------- *)
Definition add_all {D} (r : trie D) (es : list (entry D)) : res (trie D) :=
  x <- add_many r es ;; Ok (fst x).
Definition add_one {D} (r : trie D) (k : bits) (d : D) : res (trie D) :=
  x <- add r k d ;; Ok (fst x).

(* subtractTrieAtDepth(t0, t1, res, depth); returns the new `res` *)
Fixpoint subtract_at {D0 D1} (t0 : trie D0) : trie D1 -> trie D0 -> nat -> res (trie D0) :=
  match t0 with
  | E => fun _ r _ => Ok r
  | L k0 d0 =>
      fix inner (t1 : trie D1) (r : trie D0) (depth : nat) : res (trie D0) :=
        match t1 with
        | E => add_all r [(k0, d0)]
        | L k1 _ => if is_prefix k1 k0 then Ok r else add_one r k0 d0
        | Nd a b =>
            if length k0 <=? depth then add_one r k0 d0
            else bt <- bit_at k0 depth ;; inner (child a b bt) r (S depth)
        end
  | Nd a0 b0 =>
      fun t1 r depth =>
        match t1 with
        | E => es <- all_entries (Nd a0 b0) zero_key ;; add_all r es
        | L k1 _ =>
            if length k1 <=? depth then Ok r
            else
              bt <- bit_at k1 depth ;;
              es <- all_entries (child a0 b0 (negb bt)) zero_key ;;
              r' <- add_all r es ;;
              subtract_at (child a0 b0 bt) t1 r' (S depth)
        | Nd a1 b1 =>
            r' <- subtract_at a0 a1 r (S depth) ;;
            subtract_at b0 b1 r' (S depth)
        end
  end.
Definition subtract_trie {D0 D1} (t0 : trie D0) (t1 : trie D1) : res (trie D0) :=
  subtract_at t0 t1 E 0.

(* ---- sortBitstrKeysByOrder ---------------------------------------------- *)
(* the comparison function: Lt = -1, Eq = 0, Gt = 1 *)
Fixpoint order_cmp (a b order : bits) : comparison :=
  match a, b, order with
  | x :: a', y :: b', o :: order' =>
      if Bool.eqb x y then order_cmp a' b' order'
      else if Bool.eqb x o then Lt else Gt
  | _, _, [] => Eq                      (* maxLen == order.BitLen() *)
  | [], [], _ => Eq
  | [], _ :: _, _ :: _ => Gt            (* the shorter key sorts last *)
  | _ :: _, [], _ :: _ => Lt
  end.
(* slices.SortFunc on at most 12 elements is this insertion sort (an element moves left
   while it compares strictly less than its predecessor); on longer slices it is pdqsort,
   which returns the same list whenever the comparison is a strict total order on the
   elements.  [rl] is the processed prefix, reversed. *)
Fixpoint ins_rev (order x : bits) (rl : list bits) : list bits :=
  match rl with
  | [] => [x]
  | y :: rl' => match order_cmp x y order with
                | Lt => y :: ins_rev order x rl'
                | _ => x :: rl
                end
  end.
Definition sort_by_order (l : list bits) (order : bits) : list bits :=
  rev (fold_left (fun rl x => ins_rev order x rl) l []).

(* ---- TrieGaps ----------------------------------------------------------- *)
(* leafGaps: the gaps at the target location of a trie holding the single key k (or no key) *)
Definition leaf_gaps (k : option bits) (target order : bits) : list bits :=
  match k with
  | Some k =>
      if is_prefix target k then sort_by_order (skipn (length target) (sibling_prefixes k)) order
      else if is_prefix k target then []
      else [target]
  | None => [target]
  end.

(* trieGapsAtDepth: the gaps are returned relative to [depth] (suffixes) *)
Fixpoint gaps_at {D} (t : trie D) (depth : nat) (target order : bits) : res (list bits) :=
  match t with
  | Nd t0 t1 =>
      let inside := length target <=? depth in
      ob <- bit_at order depth ;;
      let visit (i : bool) : res (list bits) :=
        skip <- (if inside then Ok false else tb <- bit_at target depth ;; Ok (negb (Bool.eqb i tb))) ;;
        if (skip : bool) then Ok []
        else
          let br := child t0 t1 i in
          let above := negb inside && (S depth <? length target) in
          match br with
          | E => if above then Ok (map (skipn depth) (leaf_gaps None target order)) else Ok [[i]]
          | L k _ =>
              if above then Ok (map (skipn depth) (leaf_gaps (Some k) target order))
              else if S depth <? length k then
                Ok (map (skipn depth) (sort_by_order (skipn (S depth) (sibling_prefixes k)) order))
              else Ok []
          | Nd _ _ =>
              g <- gaps_at br (S depth) target order ;; Ok (map (cons i) g)
          end in
      g1 <- visit ob ;; g2 <- visit (negb ob) ;; Ok (g1 ++ g2)
  | _ => Ok []     (* not called on a leaf *)
  end.

Definition trie_gaps {D} (t : trie D) (target order : bits) : res (list bits) :=
  match t with
  | E => Ok (leaf_gaps None target order)
  | L k _ => Ok (leaf_gaps (Some k) target order)
  | Nd _ _ => gaps_at t 0 target order
  end.

(* ---- AllocateToKClosest ------------------------------------------------- *)
(* [dz] is the zero value of the item data type (items.Data() of an inner node). *)
Definition alloc_out (D0 D1 : Type) : Type := list (D1 * list D0).

(* getDestValues(i): nothing for an empty leaf *)
Definition dest_values {D1} (t : trie D1) : res (list D1) :=
  if is_empty_leaf t then Ok [] else all_values t zero_key.

Fixpoint alloc_at {D0 D1} (dz : D0) (dests : trie D1) (items : trie D0) (k depth : nat)
  : res (alloc_out D0 D1) :=
  if Nat.eqb k 0 then Ok []
  else
    match dests with
    | E => Ok []
    | L _ dest => batch <- all_values items zero_key ;; Ok [(dest, batch)]
    | Nd d0 d1 =>
        let step (i : bool) : res (alloc_out D0 D1) :=
          let same_count := size (child d0 d1 i) in
          let other_count := size (child d0 d1 (negb i)) in
          let fallback : res (option (trie D0)) :=
            match items with
            | L ik _ => b <- bit_at ik depth ;; if Bool.eqb b i then Ok (Some items) else Ok None
            | _ => Ok None
            end in
          m <- match branch items i with
               | Some br => if is_empty_leaf br then fallback else Ok (Some br)
               | None => fallback
               end ;;
          match m with
          | None => Ok []
          | Some mi =>
              if same_count <=? k then
                vals <- all_values mi zero_key ;;
                let batch := match vals with
                             | [] => [match items with L _ d => d | _ => dz end]
                             | _ => vals end in
                sv <- dest_values (child d0 d1 i) ;;
                let out1 := map (fun d => (d, batch)) sv in
                if Nat.eqb same_count k || Nat.eqb other_count 0 then Ok out1
                else
                  let missing := k - same_count in
                  if other_count <=? missing then
                    ov <- dest_values (child d0 d1 (negb i)) ;;
                    Ok (out1 ++ map (fun d => (d, batch)) ov)
                  else
                    r <- alloc_at dz (child d0 d1 (negb i)) mi missing (S depth) ;;
                    Ok (out1 ++ r)
              else alloc_at dz (child d0 d1 i) mi k (S depth)
          end in
        r0 <- step false ;; r1 <- step true ;; Ok (r0 ++ r1)
    end.

Definition allocate_to_k_closest {D0 D1} (dz : D0) (items : trie D0) (dests : trie D1) (k : nat)
  : res (alloc_out D0 D1) :=
  if is_empty_leaf dests || is_empty_leaf items || Nat.eqb k 0 then Ok []
  else alloc_at dz dests items k 0.

(* ---- KeyspaceCovered ---------------------------------------------------- *)
(* the stack, top first.  Processing of one key p; [None]: `return false`. *)
Fixpoint covered_loop (n : nat) (p : bits) (stack : list bits) : res (list bits) :=
  match stack with
  | [] => Panic "index out of range [-1]"
  | top :: rest =>
      if Nat.eqb (length p) (length top) then
        if Nat.eqb (length top) 1 && bits_eqb top p then Ok rest
        else
          match length top with
          | O => Panic "slice bounds out of range [:-1]"
          | S l' =>
              match rest with
              | [] => Panic "index out of range [-1]"
              | _ => match n with
                     | O => Blocked "covered_loop: out of fuel"
                     | S n' => covered_loop n' (firstn l' p) rest
                     end
              end
          end
      else Ok (flip_last p :: stack)
  end.

Fixpoint covered_keys (ks : list bits) (stack : list bits) : res bool :=
  match ks with
  | [] => Ok (match stack with [] => true | _ => false end)
  | p :: ks' =>
      match stack with
      | [] => Panic "index out of range [-1]"
      | top :: _ =>
          if length p <? length top then Ok false
          else s <- covered_loop (S (length p)) p stack ;; covered_keys ks' s
      end
  end.

Definition keyspace_covered {D} (t : trie D) : res bool :=
  match t with
  | E => Ok false
  | L k _ => Ok (match k with [] => true | _ => false end)
  | Nd _ _ => ks <- all_keys t zero_key ;; covered_keys ks [[false]; [true]]
  end.

(* ---- RegionsFromPeers / extractMinimalRegions ---------------------------- *)
Fixpoint extract_minimal_regions {D} (t : trie D) (path : bits) (sz : nat) (order : bits)
  : res (list (bits * trie D)) :=
  match t with
  | E => Ok []
  | L _ _ => Ok [(path, t)]
  | Nd t0 t1 =>
      if (sz <=? size t0) && (sz <=? size t1) then
        b <- bit_at order (length path) ;;
        r0 <- extract_minimal_regions (child t0 t1 b) (path ++ [b]) sz order ;;
        r1 <- extract_minimal_regions (child t0 t1 (negb b)) (path ++ [negb b]) sz order ;;
        Ok (r0 ++ r1)
      else Ok [(path, t)]
  end.

(* the navigation loop `for i := range coveredPrefix`; [None]: `return nil` *)
Fixpoint navigate {D} (t : trie D) (covered : bits) : option (trie D) :=
  match covered with
  | [] => Some t
  | b :: covered' =>
      match t with
      | Nd t0 t1 =>
          match child t0 t1 b with
          | E => None
          | c => navigate c covered'
          end
      | _ => Some t          (* IsLeaf: break *)
      end
  end.

Definition regions_from_peers {D} (peers : list (entry D)) (sz : nat) (order covered : bits)
  : res (list (bits * trie D)) :=
  match peers with
  | [] => Ok []
  | _ =>
      t <- add_all E peers ;;
      match navigate t covered with
      | None => Ok []
      | Some t' => extract_minimal_regions t' covered sz order
      end
  end.

(* ---- AssignKeysToRegions ------------------------------------------------- *)
(* closestRegionPrefix: first region with the strictly largest cpl; `regions[0]` of an empty
   slice is unreachable (guarded by the caller) *)
Fixpoint closest_region_loop (rs : list bits) (h : bits) (best : bits) (best_cpl : Z) : bits :=
  match rs with
  | [] => best
  | p :: rs' =>
      let c := Z.of_nat (cpl p h) in
      if (best_cpl <? c)%Z then closest_region_loop rs' h p c
      else closest_region_loop rs' h best best_cpl
  end.
Definition closest_region_prefix (rs : list bits) (h : bits) : res bits :=
  match rs with
  | [] => Panic "index out of range [0]"
  | p0 :: _ => Ok (closest_region_loop rs h p0 (-1)%Z)
  end.

Definition assigned_prefix (rs : list bits) (h : bits) : res bits :=
  match find (fun p => is_prefix p h) rs with
  | Some p => Ok p
  | None => closest_region_prefix rs h
  end.

Fixpoint assign_all {D} (rs : list bits) (keys : list (entry D)) : res (list (bits * entry D)) :=
  match keys with
  | [] => Ok []
  | e :: keys' => p <- assigned_prefix rs (fst e) ;; l <- assign_all rs keys' ;; Ok ((p, e) :: l)
  end.

Fixpoint regions_keys {D} (rs : list bits) (asg : list (bits * entry D)) : res (list (bits * trie D)) :=
  match rs with
  | [] => Ok []
  | p :: rs' =>
      t <- add_all E (map snd (filter (fun x => bits_eqb (fst x) p) asg)) ;;
      l <- regions_keys rs' asg ;; Ok ((p, t) :: l)
  end.

(* regions are given by their prefixes; the result is the Keys trie of each region *)
Definition assign_keys_to_regions {D} (rs : list bits) (keys : list (entry D))
  : res (list (bits * trie D)) :=
  match rs with
  | [] => Ok []
  | _ => asg <- assign_all rs keys ;; regions_keys rs asg
  end.

(* ---- ShortestCoveredPrefix ----------------------------------------------- *)
(* [peers] are given sorted by kb.SortClosestPeers (done by the caller of the model: the
   harness passes the peers in the order Go sorted them; the theorems assume the order by
   distance).  The loop over the sorted peers: *)
Fixpoint scp_loop {D} (target : bits) (peers : list (entry D)) (i : nat)
         (min_cpl covered_cpl last : nat) : nat * nat :=
  match peers with
  | [] => (covered_cpl, last)
  | p :: peers' =>
      let c := cpl target (fst p) in
      if c <? min_cpl then scp_loop target peers' (S i) c (S c) i
      else scp_loop target peers' (S i) min_cpl covered_cpl last
  end.

Definition shortest_covered_prefix {D} (target : bits) (sorted_peers : list (entry D))
  : bits * list (entry D) :=
  match sorted_peers with
  | [] => ([], [])
  | [p] => if is_prefix target (fst p) then (fst p, [p]) else ([], [])
  | _ =>
      let '(cc, last) := scp_loop target sorted_peers 0 (length target) 0 0 in
      (firstn cc target, firstn last sorted_peers)
  end.
