(* C13 — client/server mode of one DHT node and its inbound DHT streams.
   Definitions only.  The enum decisions (auto mode x reachability -> target
   mode, initial mode, setMode dispatch, the per-message mode check, the
   subscription guards) are NOT written here: they are regenerated from the Go
   source into Gen/ModeTable.v on every run, so a changed `case` changes the
   subject of the theorems.

   What is transcribed (the code as it is):
     dht.go        New              : dht.auto = cfg.Mode; switch cfg.Mode; moveToServerMode when server
     dht.go        setMode          : whole body under dht.modeLk
     dht.go        moveToServerMode : dht.mode = server; SetStreamHandler for every served protocol
     dht.go        moveToClientMode : dht.mode = client; RemoveStreamHandler; then Reset of every
                                      inbound stream of a served protocol found in host.Network().Conns()
     subscriber_notifee.go          : the subscriber goroutine takes events one at a time, in order
     dht_net.go    handleNewStream / handleNewMessage : loop { locked mode read; ReadMsg; handler; write }
   What is abstracted:
     - the event bus is a FIFO queue per subscriber (go-libp2p eventbus: modelled, not verified);
     - the host only hands an inbound stream to the DHT while a handler is registered for its
       protocol (go-libp2p multistream dispatch: modelled, not verified).  A stream that was
       dispatched but whose handler goroutine has not reached its first mode read is [PStart];
     - a stream in protocol negotiation (handler already looked up by the host, protocol not yet set on
       the stream: [vis] = false) is not seen by moveToClientMode's reset loop; the host sets the
       protocol before it calls the handler (go-libp2p basic host: modelled, not verified);
     - ReadMsg on a stream that was Reset fails (EReadErr);
     - a message is either "good" (decodable, has a handler, handler and write succeed: handled,
       loop continues) or "bad" (handleNewMessage returns false: stream reset);
     - the idle timer (dhtStreamIdleTimeout) is not modelled;
     - several served protocols behave as one. *)
From Verif.Lib Require Import GoSem Bits.
From Verif.Gen Require Import ModeTable.

(* streams found in host.Network().Conns(): only [KInDHT] ones are served and
   reset by moveToClientMode (pset[s.Protocol()] && Direction == DirInbound) *)
Inductive skind : Set := KInDHT | KOutDHT | KInOther.
Definition skind_eqb (a b : skind) : bool :=
  match a, b with KInDHT, KInDHT | KOutDHT, KOutDHT | KInOther, KInOther => true | _, _ => false end.

(* where the handler goroutine of an inbound DHT stream stands *)
Inductive phase : Set :=
| PStart    (* top of the message loop: the next step is dht.getMode() *)
| PRead     (* the mode read returned server; blocked in r.ReadMsg() *)
| PDone     (* handleNewStream returned (stream closed or reset by it) *)
| PForeign. (* not an inbound DHT stream: no handler goroutine of ours *)
Definition phase_eqb (a b : phase) : bool :=
  match a, b with PStart, PStart | PRead, PRead | PDone, PDone | PForeign, PForeign => true | _, _ => false end.

Record stream := {
  sid : nat;
  kind : skind;
  ph : phase;
  vis : bool;                 (* the stream's protocol is set (basic host: SetProtocol precedes the handler call).
                                 While false the stream is still in protocol negotiation: the host has already
                                 looked the handler up, but moveToClientMode's pset[s.Protocol()] does not see it *)
  rst : bool;                 (* Reset() has been called on it (by the handler or by moveToClientMode) *)
  closed : bool;              (* Close() has been called on it by handleNewStream (orderly end) *)
  handled : nat;              (* messages for which the handler ran and the response was written *)
  last_read : option mode;    (* ghost: value returned by the latest dht.getMode() of its goroutine *)
  served : list (option mode) (* ghost: for every handled message, the mode its preceding mode read saw *)
}.

Record st := {
  auto : mode_opt;            (* dht.auto *)
  cur : mode;                 (* dht.mode *)
  handler : bool;             (* host has a stream handler for the served protocols *)
  queue : list reachability;  (* EvtLocalReachabilityChanged events emitted, not yet taken by the subscriber *)
  switching : bool;           (* setMode is inside moveToClientMode, after RemoveStreamHandler, before
                                 the stream resets; dht.modeLk is held *)
  streams : list stream
}.

Definition set_streams (s : st) (l : list stream) : st :=
  {| auto := auto s; cur := cur s; handler := handler s; queue := queue s; switching := switching s; streams := l |}.

Inductive event : Set :=
| EEmit (r : reachability)          (* an EvtLocalReachabilityChanged is emitted on the host's bus *)
| EProcess                          (* the subscriber takes the oldest queued event: handleLocalReachabilityChangedEvent,
                                       setMode up to its return or, for a demotion, up to just after RemoveStreamHandler *)
| ESetModeDone                      (* rest of moveToClientMode: reset inbound DHT streams; return; unlock *)
| ENewStream (s : nat) (k : skind) (neg : bool)
                                    (* a stream appears on a connection; for an inbound DHT stream the host has found the
                                       handler (dispatch to handleNewStream follows); neg: its protocol is not set yet *)
| EAnnounce (s : nat)               (* the host sets the protocol of a stream it is about to hand to its handler *)
| EModeRead (s : nat)               (* handler goroutine of s: dht.getMode() at the top of the loop *)
| EMessage (s : nat) (good : bool)  (* ReadMsg returns a request on s *)
| EReadErr (s : nat)                (* ReadMsg fails because s was reset *)
| EEOF (s : nat).                   (* ReadMsg returns io.EOF: orderly end *)

Definition find_stream (i : nat) (l : list stream) : option stream :=
  find (fun x => Nat.eqb (sid x) i) l.
Definition upd_stream (i : nat) (f : stream -> stream) (l : list stream) : list stream :=
  map (fun x => if Nat.eqb (sid x) i then f x else x) l.

Definition new_stream (i : nat) (k : skind) (neg : bool) : stream :=
  {| sid := i; kind := k; ph := (match k with KInDHT => PStart | _ => PForeign end);
     vis := (match k with KInDHT => negb neg | _ => true end);
     rst := false; closed := false; handled := 0; last_read := None; served := [] |}.

Definition with_ph (p : phase) (x : stream) : stream :=
  {| sid := sid x; kind := kind x; ph := p; vis := vis x; rst := rst x; closed := closed x; handled := handled x;
     last_read := last_read x; served := served x |}.
Definition with_rst (x : stream) : stream :=
  {| sid := sid x; kind := kind x; ph := ph x; vis := vis x; rst := true; closed := closed x; handled := handled x;
     last_read := last_read x; served := served x |}.
Definition with_closed (x : stream) : stream :=
  {| sid := sid x; kind := kind x; ph := ph x; vis := vis x; rst := rst x; closed := true; handled := handled x;
     last_read := last_read x; served := served x |}.
Definition with_vis (x : stream) : stream :=
  {| sid := sid x; kind := kind x; ph := ph x; vis := true; rst := rst x; closed := closed x; handled := handled x;
     last_read := last_read x; served := served x |}.
Definition with_read (m : mode) (x : stream) : stream :=
  {| sid := sid x; kind := kind x; ph := PRead; vis := vis x; rst := rst x; closed := closed x; handled := handled x;
     last_read := Some m; served := served x |}.
Definition with_handled (x : stream) : stream :=
  {| sid := sid x; kind := kind x; ph := PStart; vis := vis x; rst := rst x; closed := closed x; handled := S (handled x);
     last_read := last_read x; served := last_read x :: served x |}.

(* dht.go:834-842: every stream of a served protocol with Direction == DirInbound still
   present on a connection is Reset *)
Definition is_open_inbound (x : stream) : bool :=
  skind_eqb (kind x) KInDHT && vis x && negb (phase_eqb (ph x) PDone).
Definition demote_reset (x : stream) : stream := if is_open_inbound x then with_rst x else x.

(* what the subscriber goroutine does with one event (subscriber_notifee.go:70-76, 102-127; dht.go:789-844) *)
Definition process (s : st) (r : reachability) (rest : list reachability) : st :=
  if dispatches (auto s) then
    match set_mode_action (cur s) (reach_target (auto s) r) with
    | ActNone | ActError =>
        {| auto := auto s; cur := cur s; handler := handler s; queue := rest; switching := false; streams := streams s |}
    | Call_moveToServerMode =>
        {| auto := auto s; cur := move_to_server_sets; handler := true; queue := rest; switching := false; streams := streams s |}
    | Call_moveToClientMode =>
        {| auto := auto s; cur := move_to_client_sets; handler := false; queue := rest; switching := true; streams := streams s |}
    end
  else {| auto := auto s; cur := cur s; handler := handler s; queue := rest; switching := false; streams := streams s |}.

(* one atomic action; None = not enabled in this state *)
Definition step (s : st) (e : event) : option st :=
  match e with
  | EEmit r =>
      if subscribes (auto s)
      then Some {| auto := auto s; cur := cur s; handler := handler s; queue := queue s ++ [r];
                   switching := switching s; streams := streams s |}
      else Some s
  | EProcess =>
      if switching s then None   (* the subscriber goroutine is inside setMode *)
      else match queue s with
           | [] => None
           | r :: rest => Some (process s r rest)
           end
  | ESetModeDone =>
      if switching s
      then Some {| auto := auto s; cur := cur s; handler := handler s; queue := queue s; switching := false;
                   streams := map demote_reset (streams s) |}
      else None
  | ENewStream i k neg =>
      match find_stream i (streams s) with
      | Some _ => None            (* stream identities are fresh *)
      | None =>
          match k with
          | KInDHT => if handler s then Some (set_streams s (streams s ++ [new_stream i k neg]))
                      else Some s (* no handler registered: the host refuses the protocol, the DHT never sees it *)
          | _ => Some (set_streams s (streams s ++ [new_stream i k neg]))
          end
      end
  | EAnnounce i =>
      match find_stream i (streams s) with
      | Some x => if negb (vis x) && phase_eqb (ph x) PStart
                  then Some (set_streams s (upd_stream i with_vis (streams s))) else None
      | None => None
      end
  | EModeRead i =>
      if switching s then None    (* dht.modeLk is held by setMode *)
      else match find_stream i (streams s) with
           | Some x =>
               if phase_eqb (ph x) PStart && vis x then
                 if message_rejected (cur s)
                 then Some (set_streams s (upd_stream i (fun x => with_rst (with_ph PDone x)) (streams s)))
                      (* return false; handleNewStream: s.Reset() *)
                 else Some (set_streams s (upd_stream i (with_read (cur s)) (streams s)))
               else None
           | None => None
           end
  | EMessage i good =>
      match find_stream i (streams s) with
      | Some x =>
          if phase_eqb (ph x) PRead && negb (rst x) then
            if good then Some (set_streams s (upd_stream i with_handled (streams s)))
            else Some (set_streams s (upd_stream i (fun x => with_rst (with_ph PDone x)) (streams s)))
          else None
      | None => None
      end
  | EReadErr i =>
      match find_stream i (streams s) with
      | Some x =>
          if phase_eqb (ph x) PRead && rst x
          then Some (set_streams s (upd_stream i (with_ph PDone) (streams s)))
          else None
      | None => None
      end
  | EEOF i =>
      match find_stream i (streams s) with
      | Some x =>
          if phase_eqb (ph x) PRead && negb (rst x)
          then Some (set_streams s (upd_stream i (fun x => with_closed (with_ph PDone x)) (streams s)))
          else None
      | None => None
      end
  end.

Fixpoint run (s : st) (evs : list event) : option st :=
  match evs with
  | [] => Some s
  | e :: rest => match step s e with Some s' => run s' rest | None => None end
  end.

(* dht.go:239-253.  None: New returns "invalid dht mode". *)
Definition init (a : mode_opt) : option st :=
  match initial_mode a with
  | None => None
  | Some m =>
      let srv := initial_moves_to_server m in
      Some {| auto := a; cur := (if srv then move_to_server_sets else m); handler := srv;
              queue := []; switching := false; streams := [] |}
  end.

(* ---- specification vocabulary -------------------------------------------- *)

(* the reachability events emitted in a history, in order *)
Fixpoint emitted (evs : list event) : list reachability :=
  match evs with
  | [] => []
  | EEmit r :: rest => r :: emitted rest
  | _ :: rest => emitted rest
  end.

(* mode after the subscriber has processed the events rs, starting in mode m:
   an event whose target is the zero value leaves the mode as it is *)
Definition fold_mode (a : mode_opt) (m : mode) (rs : list reachability) : mode :=
  fold_left (fun m r => match reach_target a r with Some t => t | None => m end) rs m.

Definition quiescent (s : st) : Prop := queue s = [] /\ switching s = false.

Definition total_handled (s : st) : nat := fold_right (fun x n => handled x + n) 0 (streams s).
