(* Model of internal/net/message_manager.go (messageSenderImpl, peerMessageSender)
   and internal/ctx_mutex.go.  Definitions only.

   A concurrent component in the style of DESIGN.md 2.2: a state record and a
   deterministic [step : state -> event -> option state]; [None] = the event is
   not enabled.  One event = one atomic action of one goroutine.

   What is transcribed
   - messageSenderForPeer (:130-168, as repaired by d646d02: a failed Lock(ctx)
     in prepOrInvalidate no longer removes the sender from the map): the two
     critical sections under [smlk]
     are the atomic events [EStart] and [EAfterFail] (the map lock is held only
     around map reads/writes with no blocking inside, so each section is one
     atomic action; the lock itself is not a separate event).
   - CtxMutex.Lock (ctx_mutex.go:13-20): [ELock] (channel send succeeds, enabled
     iff the lock is free) and [ELockFail] (ctx.Done is ready).  When both are
     enabled Go's select picks either; both events are enabled in the model.
   - prepOrInvalidate / prep / invalidate (:177-218): [EPrep], [EDialOk],
     [EDialFail].
   - SendRequest / SendMessage loops (:225-314) with the [retry] flag, the
     [singleMes] counter and [streamReuseTries]: [EWriteOk], [EWriteFail],
     [ERead], [ETimeout], [EReadCtx].
   - ctxReadMsg (:320-344): the three select arms are [ERead] (errc),
     [EReadCtx] (ctx.Done) and [ETimeout] (timer).
   - OnDisconnect (:50-67): [EDisc] (critical section) and the asynchronous
     goroutine [EInval] (Lock; invalidate; Unlock -- no blocking in between, one
     atomic action) or [EInvDrop] (its Lock(ctx) failed).
   What is abstracted
   - the remote peer and the stream transport: per stream a FIFO [sm_pending]
     of requests written and not yet answered and a FIFO [sm_inbox] of replies
     sent and not yet read.  The remote answers requests in order, one reply
     per request, echoing the request id ([ERemAnswer]), or resets the stream
     ([ERemReset]).  It never sends unsolicited messages and does not answer
     SendMessage writes.
   - protobuf/msgio framing: a reply is [RGood id] or [RBad id] (undecodable).
   - Stream.Close returns nil.  Request ids are the thread (call) ids. *)
From Verif.Lib Require Import GoSem Bits.

(* ---- finite maps and position-indexed tables ---------------------------- *)
Definition fmap (A : Type) := list (nat * A).

Fixpoint mget {A} (m : fmap A) (k : nat) : option A :=
  match m with
  | [] => None
  | (k', v) :: m' => if Nat.eqb k k' then Some v else mget m' k
  end.

Fixpoint mset {A} (m : fmap A) (k : nat) (v : A) : fmap A :=
  match m with
  | [] => [(k, v)]
  | (k', v') :: m' => if Nat.eqb k k' then (k, v) :: m' else (k', v') :: mset m' k v
  end.

Fixpoint mdel {A} (m : fmap A) (k : nat) : fmap A :=
  match m with
  | [] => []
  | (k', v') :: m' => if Nat.eqb k k' then mdel m' k else (k', v') :: mdel m' k
  end.

Fixpoint upd {A} (l : list A) (i : nat) (v : A) : list A :=
  match l, i with
  | [], _ => []
  | _ :: l', O => v :: l'
  | x :: l', S i' => x :: upd l' i' v
  end.

(* ---- data ------------------------------------------------------------------ *)
Inductive kind := KReq | KMsg.                (* SendRequest | SendMessage *)
Inductive ctxk := CCancel | CDeadline.        (* context.Canceled | DeadlineExceeded *)
Inductive err :=
| EInvalid                 (* "message sender has been invalidated" *)
| EDial                    (* host.NewStream failed *)
| ECtxErr (k : ctxk)       (* ctx.Err() *)
| EWrite                   (* writeMsg failed *)
| EReadErr                 (* ReadMsg / Unmarshal failed *)
| ETimedOut.               (* ErrReadTimeout *)
Inductive result :=
| ROk (reply : option nat) (* Some id: the id echoed in the reply; None: SendMessage *)
| RErr (e : err)
| RPanic.                  (* nil stream dereference / Unlock of an unlocked mutex *)

(* [RBad id]: an undecodable reply; [id] (the request it answers) is ghost
   information for the proofs, the reader cannot see it *)
Inductive reply := RGood (id : nat) | RBad (id : nat).
Definition reply_id (r : reply) : nat := match r with RGood i => i | RBad i => i end.
Inductive cstate := COpen | CReset | CClosed.  (* what the client did to the stream *)

Record sender := {
  sd_peer : nat;
  sd_stream : option nat;   (* ms.s (and ms.r, always set together) *)
  sd_invalid : bool;        (* ms.invalid *)
  sd_single : nat;          (* ms.singleMes *)
  sd_lock : option nat }.   (* ms.lk: the thread holding it *)

Record stream := {
  sm_peer : nat;
  sm_owner : nat;             (* the sender record that opened it *)
  sm_cli : cstate;
  sm_dead : bool;             (* reset by the remote / transport *)
  sm_pending : list nat;      (* request ids written, not yet answered; FIFO *)
  sm_inbox : list reply }.    (* replies sent, not yet read; FIFO *)

(* where a call is *)
Inductive pc :=
| PGot (sd : nat)                 (* has ms; in ms.lk.Lock of SendRequest/SendMessage (:263/:226) *)
| PNew (sd : nat)                 (* created ms (:137-139); in ms.lk.Lock of prepOrInvalidate (:186) *)
| PPrepNew (sd : nat)             (* holds the lock in prepOrInvalidate, before prep (:191) *)
| PDialNew (sd : nat)             (* in host.NewStream called from prepOrInvalidate *)
| PFailed (sd : nat) (e : err)    (* prepOrInvalidate returned (true, e): ms invalidated (:141, :150) *)
| PLoop (sd : nat) (retry : bool) (* top of the for loop, lock held (:232/:269) *)
| PDial (sd : nat) (retry : bool) (* in host.NewStream called from the loop's prep *)
| PWrite (sd : nat) (retry : bool)(* prep ok, before writeMsg (:237/:274) *)
| PRead (sd : nat) (retry : bool) (* request written, in ctxReadMsg's select (:336) *)
| PDone (r : result).

Record thread := {
  t_peer : nat; t_kind : kind; t_pc : pc;
  t_ctx : option ctxk;       (* Some k: ctx is done with that error *)
  t_writes : nat }.          (* ghost: writeMsg calls made *)

Record state := {
  senders : list sender;     (* every peerMessageSender ever allocated, by allocation order *)
  streams : list stream;     (* every stream ever opened, by allocation order *)
  threads : fmap thread;
  smap : fmap nat;           (* strmap: peer -> sender index *)
  invq : list nat }.         (* OnDisconnect goroutines not yet run: sender indices *)

Definition init : state :=
  {| senders := []; streams := []; threads := []; smap := []; invq := [] |}.

Inductive event :=
| EStart (t p : nat) (k : kind)
| ELock (t : nat)
| ELockFail (t : nat)
| EPrep (t : nat)
| EDialOk (t : nat)
| EDialFail (t : nat)
| EAfterFail (t : nat)
| EWriteOk (t : nat)
| EWriteFail (t : nat)
| ERead (t : nat)
| ETimeout (t : nat)
| EReadCtx (t : nat)
| ECtx (t : nat) (k : ctxk)
| ERemAnswer (st : nat) (good : bool)
| ERemReset (st : nat)
| EDisc (p : nat)
| EInval (sd : nat)
| EInvDrop (sd : nat).

Definition streamReuseTries : nat := 3.   (* :223; tied to Gen by the harness constant check *)

(* ---- setters -------------------------------------------------------------- *)
Definition set_senders (s : state) (x : list sender) : state :=
  {| senders := x; streams := streams s; threads := threads s; smap := smap s; invq := invq s |}.
Definition set_streams (s : state) (x : list stream) : state :=
  {| senders := senders s; streams := x; threads := threads s; smap := smap s; invq := invq s |}.
Definition set_threads (s : state) (x : fmap thread) : state :=
  {| senders := senders s; streams := streams s; threads := x; smap := smap s; invq := invq s |}.
Definition set_smap (s : state) (x : fmap nat) : state :=
  {| senders := senders s; streams := streams s; threads := threads s; smap := x; invq := invq s |}.
Definition set_invq (s : state) (x : list nat) : state :=
  {| senders := senders s; streams := streams s; threads := threads s; smap := smap s; invq := x |}.

Definition th_pc (th : thread) (p : pc) : thread :=
  {| t_peer := t_peer th; t_kind := t_kind th; t_pc := p; t_ctx := t_ctx th; t_writes := t_writes th |}.
Definition th_ctx (th : thread) (k : ctxk) : thread :=
  {| t_peer := t_peer th; t_kind := t_kind th; t_pc := t_pc th; t_ctx := Some k; t_writes := t_writes th |}.
Definition th_wrote (th : thread) : thread :=
  {| t_peer := t_peer th; t_kind := t_kind th; t_pc := t_pc th; t_ctx := t_ctx th; t_writes := S (t_writes th) |}.

Definition sd_set_stream (x : sender) (o : option nat) : sender :=
  {| sd_peer := sd_peer x; sd_stream := o; sd_invalid := sd_invalid x; sd_single := sd_single x; sd_lock := sd_lock x |}.
Definition sd_set_lock (x : sender) (o : option nat) : sender :=
  {| sd_peer := sd_peer x; sd_stream := sd_stream x; sd_invalid := sd_invalid x; sd_single := sd_single x; sd_lock := o |}.
Definition sd_set_invalid (x : sender) : sender :=
  {| sd_peer := sd_peer x; sd_stream := sd_stream x; sd_invalid := true; sd_single := sd_single x; sd_lock := sd_lock x |}.
Definition sd_inc_single (x : sender) : sender :=
  {| sd_peer := sd_peer x; sd_stream := sd_stream x; sd_invalid := sd_invalid x; sd_single := S (sd_single x); sd_lock := sd_lock x |}.

Definition sm_set_cli (y : stream) (c : cstate) : stream :=
  {| sm_peer := sm_peer y; sm_owner := sm_owner y; sm_cli := c; sm_dead := sm_dead y;
     sm_pending := sm_pending y; sm_inbox := sm_inbox y |}.
Definition sm_set_queues (y : stream) (p : list nat) (i : list reply) : stream :=
  {| sm_peer := sm_peer y; sm_owner := sm_owner y; sm_cli := sm_cli y; sm_dead := sm_dead y;
     sm_pending := p; sm_inbox := i |}.
Definition sm_kill (y : stream) : stream :=
  {| sm_peer := sm_peer y; sm_owner := sm_owner y; sm_cli := sm_cli y; sm_dead := true;
     sm_pending := sm_pending y; sm_inbox := [] |}.

Definition put_thread (s : state) (t : nat) (th : thread) : state := set_threads s (mset (threads s) t th).
Definition put_sender (s : state) (sd : nat) (x : sender) : state := set_senders s (upd (senders s) sd x).
Definition put_stream (s : state) (st : nat) (y : stream) : state := set_streams s (upd (streams s) st y).

(* the client marks stream [st] (Reset / Close); no-op on an unknown index *)
Definition mark_stream (s : state) (st : nat) (c : cstate) : state :=
  match nth_error (streams s) st with
  | Some y => put_stream s st (sm_set_cli y c)
  | None => s
  end.

(* ---- pieces of the Go code ------------------------------------------------ *)
(* invalidate (:177-183) on sender record x with index sd *)
Definition invalidate (s : state) (x : sender) : state * sender :=
  let x1 := sd_set_invalid x in
  match sd_stream x with
  | Some st => (mark_stream s st CReset, sd_set_stream x1 None)
  | None => (s, x1)
  end.

(* "_ = ms.s.Reset(); ms.s = nil" (:238-239, :275-276, :289-290).  [None] when
   ms.s is nil: the Go code dereferences a nil interface and panics. *)
Definition reset_stream (s : state) (sd : nat) (x : sender) : option (state * sender) :=
  match sd_stream x with
  | Some st => Some (mark_stream s st CReset, sd_set_stream x None)
  | None => None
  end.

(* defer ms.lk.Unlock() and return r *)
Definition unlock_done (s : state) (t : nat) (th : thread) (sd : nat) (x : sender) (r : result) : state :=
  put_thread (put_sender s sd (sd_set_lock x None)) t (th_pc th (PDone r)).

Definition panic (s : state) (t : nat) (th : thread) : state :=
  put_thread s t (th_pc th (PDone RPanic)).

(* a failed write or read inside the loop.  [can_retry] is false when the error
   is context.Canceled on the read path (:291-294). *)
Definition fail_exchange (s : state) (t : nat) (th : thread) (sd : nat) (x : sender)
           (retry can_retry : bool) (e : err) : state :=
  match reset_stream s sd x with
  | None => panic s t th
  | Some (s1, x1) =>
      if retry || negb can_retry
      then unlock_done s1 t th sd x1 (RErr e)
      else put_thread (put_sender s1 sd x1) t (th_pc th (PLoop sd true))
  end.

(* successful end of an exchange (:250-258, :304-312) *)
Definition finish (s : state) (t : nat) (th : thread) (sd : nat) (x : sender)
           (retry : bool) (r : option nat) : state :=
  if Nat.ltb streamReuseTries (sd_single x)
  then match sd_stream x with
       | Some st => unlock_done (mark_stream s st CClosed) t th sd (sd_set_stream x None) (ROk r)
       | None => panic s t th
       end
  else if retry then unlock_done s t th sd (sd_inc_single x) (ROk r)
  else unlock_done s t th sd x (ROk r).

Definition ctx_err (th : thread) (dflt : err) : err :=
  match t_ctx th with Some k => ECtxErr k | None => dflt end.

(* the sender a pc refers to while holding its lock *)
Definition holds (p : pc) : option nat :=
  match p with
  | PPrepNew sd | PDialNew sd | PLoop sd _ | PDial sd _ | PWrite sd _ | PRead sd _ => Some sd
  | _ => None
  end.

(* ---- step ------------------------------------------------------------------ *)
Definition step (s : state) (e : event) : option state :=
  match e with
  | EStart t p k =>
      match mget (threads s) t with
      | Some _ => None
      | None =>
          let mk := fun c => {| t_peer := p; t_kind := k; t_pc := c; t_ctx := None; t_writes := 0 |} in
          match mget (smap s) p with
          | Some sd => Some (put_thread s t (mk (PGot sd)))
          | None =>
              let sd := length (senders s) in
              let x := {| sd_peer := p; sd_stream := None; sd_invalid := false; sd_single := 0; sd_lock := None |} in
              Some (put_thread (set_smap (set_senders s (senders s ++ [x])) (mset (smap s) p sd)) t (mk (PNew sd)))
          end
      end
  | ECtx t k =>
      match mget (threads s) t with
      | Some th => match t_ctx th with
                   | None => Some (put_thread s t (th_ctx th k))
                   | Some _ => None
                   end
      | None => None
      end
  | ELock t =>
      match mget (threads s) t with
      | Some th =>
          match t_pc th with
          | PGot sd =>
              match nth_error (senders s) sd with
              | Some x => match sd_lock x with
                          | None => Some (put_thread (put_sender s sd (sd_set_lock x (Some t))) t (th_pc th (PLoop sd false)))
                          | Some _ => None
                          end
              | None => None
              end
          | PNew sd =>
              match nth_error (senders s) sd with
              | Some x => match sd_lock x with
                          | None => Some (put_thread (put_sender s sd (sd_set_lock x (Some t))) t (th_pc th (PPrepNew sd)))
                          | Some _ => None
                          end
              | None => None
              end
          | _ => None
          end
      | None => None
      end
  | ELockFail t =>
      match mget (threads s) t with
      | Some th =>
          match t_ctx th with
          | None => None
          | Some k =>
              match t_pc th with
              | PGot sd => Some (put_thread s t (th_pc th (PDone (RErr (ECtxErr k)))))
              | PNew sd =>
                  (* prepOrInvalidate returns (false, err): ms was not invalidated and stays in
                     the map; messageSenderForPeer returns the error at once (:141-148) *)
                  Some (put_thread s t (th_pc th (PDone (RErr (ECtxErr k)))))
              | _ => None
              end
          end
      | None => None
      end
  | EPrep t =>
      match mget (threads s) t with
      | Some th =>
          match t_pc th with
          | PPrepNew sd =>
              match nth_error (senders s) sd with
              | Some x =>
                  if sd_invalid x
                  then (* prep fails; invalidate; unlock; return err *)
                    let (s1, x1) := invalidate s x in
                    Some (put_thread (put_sender s1 sd (sd_set_lock x1 None)) t (th_pc th (PFailed sd EInvalid)))
                  else match sd_stream x with
                       | Some _ => Some (put_thread (put_sender s sd (sd_set_lock x None)) t (th_pc th (PGot sd)))
                       | None => Some (put_thread s t (th_pc th (PDialNew sd)))
                       end
              | None => None
              end
          | PLoop sd r =>
              match nth_error (senders s) sd with
              | Some x =>
                  if sd_invalid x then Some (unlock_done s t th sd x (RErr EInvalid))
                  else match sd_stream x with
                       | Some _ => Some (put_thread s t (th_pc th (PWrite sd r)))
                       | None => Some (put_thread s t (th_pc th (PDial sd r)))
                       end
              | None => None
              end
          | _ => None
          end
      | None => None
      end
  | EDialOk t =>
      match mget (threads s) t with
      | Some th =>
          let st := length (streams s) in
          match t_pc th with
          | PDialNew sd =>
              match nth_error (senders s) sd with
              | Some x =>
                  let y := {| sm_peer := sd_peer x; sm_owner := sd; sm_cli := COpen; sm_dead := false;
                              sm_pending := []; sm_inbox := [] |} in
                  Some (put_thread (put_sender (set_streams s (streams s ++ [y])) sd
                                               (sd_set_lock (sd_set_stream x (Some st)) None))
                                   t (th_pc th (PGot sd)))
              | None => None
              end
          | PDial sd r =>
              match nth_error (senders s) sd with
              | Some x =>
                  let y := {| sm_peer := sd_peer x; sm_owner := sd; sm_cli := COpen; sm_dead := false;
                              sm_pending := []; sm_inbox := [] |} in
                  Some (put_thread (put_sender (set_streams s (streams s ++ [y])) sd (sd_set_stream x (Some st)))
                                   t (th_pc th (PWrite sd r)))
              | None => None
              end
          | _ => None
          end
      | None => None
      end
  | EDialFail t =>
      match mget (threads s) t with
      | Some th =>
          match t_pc th with
          | PDialNew sd =>
              match nth_error (senders s) sd with
              | Some x =>
                  let (s1, x1) := invalidate s x in
                  Some (put_thread (put_sender s1 sd (sd_set_lock x1 None)) t (th_pc th (PFailed sd (ctx_err th EDial))))
              | None => None
              end
          | PDial sd r =>
              match nth_error (senders s) sd with
              | Some x => Some (unlock_done s t th sd x (RErr (ctx_err th EDial)))
              | None => None
              end
          | _ => None
          end
      | None => None
      end
  | EAfterFail t =>
      match mget (threads s) t with
      | Some th =>
          match t_pc th with
          | PFailed sd e =>
              match mget (smap s) (t_peer th) with
              | Some cur =>
                  if Nat.eqb cur sd
                  then Some (put_thread (set_smap s (mdel (smap s) (t_peer th))) t (th_pc th (PDone (RErr e))))
                  else Some (put_thread s t (th_pc th (PGot cur)))
              | None => Some (put_thread s t (th_pc th (PDone (RErr e))))
              end
          | _ => None
          end
      | None => None
      end
  | EWriteOk t =>
      match mget (threads s) t with
      | Some th =>
          match t_pc th with
          | PWrite sd r =>
              match nth_error (senders s) sd with
              | Some x =>
                  match sd_stream x with
                  | None => Some (panic s t th)
                  | Some st =>
                      match nth_error (streams s) st with
                      | Some y =>
                          if sm_dead y then None      (* a write on a dead stream fails *)
                          else match sm_cli y with
                               | COpen =>
                                   let th1 := th_wrote th in
                                   match t_kind th with
                                   | KReq => Some (put_thread (put_stream s st (sm_set_queues y (sm_pending y ++ [t]) (sm_inbox y)))
                                                              t (th_pc th1 (PRead sd r)))
                                   | KMsg => Some (finish s t th1 sd x r None)
                                   end
                               | _ => None
                               end
                      | None => None
                      end
                  end
              | None => None
              end
          | _ => None
          end
      | None => None
      end
  | EWriteFail t =>
      match mget (threads s) t with
      | Some th =>
          match t_pc th with
          | PWrite sd r =>
              match nth_error (senders s) sd with
              | Some x => Some (fail_exchange s t (th_wrote th) sd x r true EWrite)
              | None => None
              end
          | _ => None
          end
      | None => None
      end
  | ERead t =>
      match mget (threads s) t with
      | Some th =>
          match t_pc th with
          | PRead sd r =>
              match nth_error (senders s) sd with
              | Some x =>
                  match sd_stream x with
                  | None => None
                  | Some st =>
                      match nth_error (streams s) st with
                      | Some y =>
                          if sm_dead y then Some (fail_exchange s t th sd x r true EReadErr)
                          else match sm_inbox y with
                               | [] => None
                               | RGood id :: rest =>
                                   Some (finish (put_stream s st (sm_set_queues y (sm_pending y) rest)) t th sd x r (Some id))
                               | RBad _ :: rest =>
                                   Some (fail_exchange (put_stream s st (sm_set_queues y (sm_pending y) rest)) t th sd x r true EReadErr)
                               end
                      | None => None
                      end
                  end
              | None => None
              end
          | _ => None
          end
      | None => None
      end
  | ETimeout t =>
      match mget (threads s) t with
      | Some th =>
          match t_pc th with
          | PRead sd r =>
              match nth_error (senders s) sd with
              | Some x => Some (fail_exchange s t th sd x r true ETimedOut)
              | None => None
              end
          | _ => None
          end
      | None => None
      end
  | EReadCtx t =>
      match mget (threads s) t with
      | Some th =>
          match t_pc th, t_ctx th with
          | PRead sd r, Some k =>
              match nth_error (senders s) sd with
              | Some x => Some (fail_exchange s t th sd x r
                                              (match k with CCancel => false | CDeadline => true end) (ECtxErr k))
              | None => None
              end
          | _, _ => None
          end
      | None => None
      end
  | ERemAnswer st good =>
      match nth_error (streams s) st with
      | Some y =>
          match sm_pending y with
          | [] => None
          | id :: rest =>
              let deliver := match sm_cli y with COpen => negb (sm_dead y) | _ => false end in
              Some (put_stream s st (sm_set_queues y rest
                      (if deliver then sm_inbox y ++ [if good then RGood id else RBad id] else sm_inbox y)))
          end
      | None => None
      end
  | ERemReset st =>
      match nth_error (streams s) st with
      | Some y => Some (put_stream s st (sm_kill y))
      | None => None
      end
  | EDisc p =>
      match mget (smap s) p with
      | Some sd => Some (set_invq (set_smap s (mdel (smap s) p)) (invq s ++ [sd]))
      | None => Some s
      end
  | EInval sd =>
      if existsb (Nat.eqb sd) (invq s)
      then match nth_error (senders s) sd with
           | Some x =>
               match sd_lock x with
               | None => let (s1, x1) := invalidate s x in
                         Some (set_invq (put_sender s1 sd x1) (filter (fun i => negb (Nat.eqb i sd)) (invq s)))
               | Some _ => None
               end
           | None => None
           end
      else None
  | EInvDrop sd =>
      if existsb (Nat.eqb sd) (invq s)
      then Some (set_invq s (filter (fun i => negb (Nat.eqb i sd)) (invq s)))
      else None
  end.

Fixpoint run (evs : list event) (s : state) : option state :=
  match evs with
  | [] => Some s
  | e :: rest => match step s e with Some s' => run rest s' | None => None end
  end.
