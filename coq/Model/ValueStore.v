(* Model of records/value_store.go (ValueStore) together with the three entry
   points of the root package that reach it: handlers.go handlePutValue /
   handleGetValue, routing.go PutValue (local part), dht.go getLocal/putLocal.
   Definitions only.

   Shared state = datastore + the 256 striped Put locks + the clock + the
   program counters of the running calls.  Every call is a small program
   counter machine whose atomic steps are exactly its lock operations and its
   datastore accesses; everything a goroutine computes between two such
   operations (Validate, Select, proto.Unmarshal, the key and age checks, the
   time stamp) is folded into the step that precedes it, because it touches no
   shared state.  [step] is deterministic; an event names the thread and the
   atomic action it performs.

   Abstractions (modelled, not verified):
   - a marshalled record is [BRec embedded-key value time-received]; bytes
     that proto.Unmarshal rejects are [BJunk n]; proto.Marshal is injective on
     these three fields, so bytes.Equal is structural equality;
   - TimeReceived is [Some ns] when internal.ParseRFC3339 accepts the string,
     [None] otherwise; the clock is nanoseconds as [N];
   - valueDsKey is injective in the record key, so the datastore is indexed by
     the record key directly; the value datastore holds no provider keys;
   - the validator is a pair of section variables, no law is assumed on them;
   - datastore errors other than ErrNotFound do not occur;
   - collectExpired sweeps one namespace (one Query); Query returns a snapshot
     in key order (the harness datastore sorts). *)
From Verif.Lib Require Import GoSem Bits.
Local Open Scope N_scope.

Definition key := list N.        (* the bytes of a record key *)
Definition value := N.           (* an opaque record value *)
Definition tid := nat.           (* goroutine identity *)

Fixpoint key_eqb (a b : key) : bool :=
  match a, b with
  | [], [] => true
  | x :: a', y :: b' => N.eqb x y && key_eqb a' b'
  | _, _ => false
  end.

(* lexicographic order on keys, a proper prefix first *)
Fixpoint key_leb (a b : key) : bool :=
  match a, b with
  | [], _ => true
  | _ :: _, [] => false
  | x :: a', y :: b' => if N.eqb x y then key_leb a' b' else N.ltb x y
  end.

(* value_store.go lockIndex: the last byte of the key, 0 for the empty key *)
Definition lock_index (k : key) : N := last k 0.

Inductive bytes :=
| BRec (rk : key) (v : value) (tr : option N)
| BJunk (j : N).

Definition opt_N_eqb (a b : option N) : bool :=
  match a, b with
  | Some x, Some y => N.eqb x y
  | None, None => true
  | _, _ => false
  end.

(* bytes.Equal *)
Definition bytes_eqb (a b : bytes) : bool :=
  match a, b with
  | BRec k v t, BRec k' v' t' => key_eqb k k' && N.eqb v v' && opt_N_eqb t t'
  | BJunk i, BJunk j => N.eqb i j
  | _, _ => false
  end.

(* ---- the datastore ------------------------------------------------------- *)
Definition store := list (key * bytes).

Fixpoint ds_get (k : key) (d : store) : option bytes :=
  match d with
  | [] => None
  | (k', b) :: d' => if key_eqb k' k then Some b else ds_get k d'
  end.

Fixpoint ds_put (k : key) (b : bytes) (d : store) : store :=
  match d with
  | [] => [(k, b)]
  | (k', b') :: d' => if key_eqb k' k then (k, b) :: d' else (k', b') :: ds_put k b d'
  end.

Fixpoint ds_del (k : key) (d : store) : store :=
  match d with
  | [] => []
  | (k', b') :: d' => if key_eqb k' k then ds_del k d' else (k', b') :: ds_del k d'
  end.

Fixpoint ds_insert (e : key * bytes) (l : store) : store :=
  match l with
  | [] => [e]
  | x :: l' => if key_leb (fst e) (fst x) then e :: l else x :: ds_insert e l'
  end.
(* Query: a snapshot of all entries, in key order *)
Definition ds_query (d : store) : store := fold_right ds_insert [] d.

(* ---- results, program counters ------------------------------------------- *)
Inductive err :=
| EInvalid       (* Validator.Validate failed *)
| ESelect        (* Validator.Select failed *)
| EOld           (* records.ErrOldRecord *)
| ERefused       (* "can't replace a newer value with an older value" *)
| ENoKey         (* handler: no key in the message *)
| ENilRec        (* handlePutValue: nil record *)
| EKeyMismatch.  (* handlePutValue: put key doesn't match record key *)

Inductive result :=
| ROk                                             (* the put was acknowledged *)
| RErr (e : err)
| RNone                                           (* Get: (nil, nil) *)
| RRec (rk : key) (v : value) (tr : option N)     (* Get: this record *)
| RGcDone.

(* what the goroutine does once ValueStore.Get / discardIfUnchanged is over *)
Inductive cont :=
| KGet                               (* Get called by handleGetValue / getLocal: return *)
| KLocalPut (v : value)              (* PutValue: compare with the old value, then putLocal *)
| KGC (rest : list (key * bytes)).   (* sweep: go on with the remaining query results *)

Inductive pc :=
(* ValueStore.Put(k, rec) with rec = (rk, v); Validate has already passed *)
| PLock (k rk : key) (v : value)              (* about to lock.Lock() *)
| PRead (k rk : key) (v : value)              (* holding; about to ds.Get in existingForSelect *)
| PWrite (k : key) (data : bytes)             (* holding; selected, stamped, marshalled; about to ds.Put *)
| PUnlock (k : key) (r : result) (wrote : option bytes)   (* holding; deferred Unlock; [wrote] is a ghost *)
(* ValueStore.Get(k) *)
| GRead (k : key) (c : cont)                  (* about to ds.Get, no lock *)
(* discardIfUnchanged(k, seen) *)
| DLock (k : key) (seen : bytes) (c : cont)
| DRead (k : key) (seen : bytes) (c : cont)   (* holding; about to re-read *)
| DDelete (k : key) (seen : bytes) (c : cont) (* holding; current == seen; about to ds.Delete *)
| DUnlock (k : key) (c : cont)                (* holding; deferred Unlock *)
(* collectExpired *)
| GCQuery
| Done (r : result).

Inductive call :=
| CPut (k rk : key) (v : value)                  (* putLocal(k, rec) with rec.Key = rk *)
| CGet (k : key)                                 (* getLocal(k) *)
| CHandlePut (mk : key) (r : option (key * value))   (* PUT_VALUE with message key mk and record (key, value) *)
| CHandleGet (mk : key)                          (* GET_VALUE *)
| CLocalPut (k : key) (v : value)                (* PutValue(k, v), local part *)
| CGC.                                           (* one collectExpired pass *)

Inductive action := ALock | AUnlock | ADsGet | ADsPut | ADsDelete | ADsQuery.

Inductive event :=
| ESpawn (t : tid) (c : call)
| EAct (t : tid) (a : action)
| ETick (d : N).

Record state := {
  st_ds : store;
  st_lock : N -> option tid;      (* putLocks: owner of each stripe *)
  st_now : N;
  st_thr : tid -> option pc }.

Definition init (d : store) (now : N) : state :=
  {| st_ds := d; st_lock := fun _ => None; st_now := now; st_thr := fun _ => None |}.

Definition action_of (p : pc) : option action :=
  match p with
  | PLock _ _ _ | DLock _ _ _ => Some ALock
  | PRead _ _ _ | GRead _ _ | DRead _ _ _ => Some ADsGet
  | PWrite _ _ => Some ADsPut
  | DDelete _ _ _ => Some ADsDelete
  | PUnlock _ _ _ | DUnlock _ _ => Some AUnlock
  | GCQuery => Some ADsQuery
  | Done _ => None
  end.

(* the stripe a goroutine holds at this program point *)
Definition holds (p : pc) : option key :=
  match p with
  | PRead k _ _ | PWrite k _ | PUnlock k _ _ | DRead k _ _ | DDelete k _ _ | DUnlock k _ => Some k
  | _ => None
  end.

Section Store.
Variable valid : key -> value -> bool.                  (* Validator.Validate(key, value) == nil *)
(* Validator.Select(key, [a; b]): Some true = index 0, Some false = another index, None = error *)
Variable sel : key -> value -> value -> option bool.
Variable max_age : N.                                   (* maxRecordAge in ns; 0 stands for "<= 0" *)

(* expired(): `time.Since(recvtime) > v.maxRecordAge`; a negative Since (receive
   time in the future) is not greater than a positive age, as with the truncated
   subtraction here *)
Definition expired (now : N) (tr : option N) : bool :=
  if N.eqb max_age 0 then false
  else match tr with
       | None => true
       | Some t0 => N.ltb max_age (now - t0)
       end.

(* Get: the three reasons to discard what was read under key k *)
Definition discardable (k : key) (b : bytes) (now : N) : bool :=
  match b with
  | BJunk _ => true
  | BRec rk _ tr => negb (key_eqb rk k) || expired now tr
  end.

(* existingForSelect: note that the stored record is validated under its own
   embedded key *)
Definition existing_for_select (o : option bytes) : option value :=
  match o with
  | Some (BRec rk v _) => if valid rk v then Some v else None
  | _ => None
  end.

(* sweep: the entries it hands to discardIfUnchanged *)
Definition gc_victim (now : N) (e : key * bytes) : bool :=
  match snd e with
  | BRec rk _ tr => key_eqb rk (fst e) && expired now tr
  | BJunk _ => false
  end.
Fixpoint gc_next (now : N) (l : list (key * bytes)) : pc :=
  match l with
  | [] => Done RGcDone
  | e :: rest => if gc_victim now e then DLock (fst e) (snd e) (KGC rest) else gc_next now rest
  end.

(* Get returned (nil, nil) *)
Definition after_absent (k : key) (c : cont) (now : N) : pc :=
  match c with
  | KGet => Done RNone
  | KLocalPut v => PLock k k v
  | KGC rest => gc_next now rest
  end.

(* Get returned the record (k, v, tr) *)
Definition after_found (k : key) (v : value) (tr : option N) (c : cont) (now : N) : pc :=
  match c with
  | KGet => Done (RRec k v tr)
  | KLocalPut nv =>
      (* routing.go:56-66 *)
      if N.eqb v nv then PLock k k nv
      else match sel k nv v with
           | None => Done (RErr ESelect)
           | Some true => PLock k k nv
           | Some false => Done (RErr ERefused)
           end
  | KGC rest => gc_next now rest     (* not reachable: the sweep never calls Get *)
  end.

(* the checks a call makes before its first lock operation or datastore access *)
Definition put_pc (k rk : key) (v : value) : pc :=
  if valid k v then PLock k rk v else Done (RErr EInvalid).

Definition start_pc (c : call) : pc :=
  match c with
  | CPut k rk v => put_pc k rk v
  | CGet k => GRead k KGet
  | CHandlePut mk r =>
      match mk with
      | [] => Done (RErr ENoKey)
      | _ => match r with
             | None => Done (RErr ENilRec)
             | Some (rk, v) => if key_eqb mk rk then put_pc rk rk v else Done (RErr EKeyMismatch)
             end
      end
  | CHandleGet mk => match mk with [] => Done (RErr ENoKey) | _ => GRead mk KGet end
  | CLocalPut k v => if valid k v then GRead k (KLocalPut v) else Done (RErr EInvalid)
  | CGC => GCQuery
  end.

Definition upd_thr (f : tid -> option pc) (t : tid) (p : pc) : tid -> option pc :=
  fun x => if Nat.eqb x t then Some p else f x.
Definition upd_lock (f : N -> option tid) (i : N) (o : option tid) : N -> option tid :=
  fun x => if N.eqb x i then o else f x.

Definition with_pc (s : state) (t : tid) (p : pc) : state :=
  {| st_ds := st_ds s; st_lock := st_lock s; st_now := st_now s; st_thr := upd_thr (st_thr s) t p |}.
Definition with_ds_pc (s : state) (d : store) (t : tid) (p : pc) : state :=
  {| st_ds := d; st_lock := st_lock s; st_now := st_now s; st_thr := upd_thr (st_thr s) t p |}.
Definition with_lock_pc (s : state) (i : N) (o : option tid) (t : tid) (p : pc) : state :=
  {| st_ds := st_ds s; st_lock := upd_lock (st_lock s) i o; st_now := st_now s;
     st_thr := upd_thr (st_thr s) t p |}.

(* Put after existingForSelect returned: Select, stamp a clone, marshal *)
Definition put_after_read (s : state) (k rk : key) (v : value) : pc :=
  match existing_for_select (ds_get k (st_ds s)) with
  | Some ev =>
      match sel k v ev with
      | None => PUnlock k (RErr ESelect) None
      | Some true => PWrite k (BRec rk v (Some (st_now s)))
      | Some false => PUnlock k (RErr EOld) None
      end
  | None => PWrite k (BRec rk v (Some (st_now s)))
  end.

(* Get after ds.Get returned *)
Definition get_after_read (s : state) (k : key) (c : cont) : pc :=
  match ds_get k (st_ds s) with
  | None => after_absent k c (st_now s)
  | Some b =>
      if discardable k b (st_now s) then DLock k b c
      else match b with
           | BRec _ v tr => after_found k v tr c (st_now s)
           | BJunk _ => DLock k b c
           end
  end.

Definition step_act (s : state) (t : tid) (p : pc) (a : action) : option state :=
  match p, a with
  | PLock k rk v, ALock =>
      match st_lock s (lock_index k) with
      | Some _ => None                      (* the goroutine stays blocked on the mutex *)
      | None => Some (with_lock_pc s (lock_index k) (Some t) t (PRead k rk v))
      end
  | PRead k rk v, ADsGet => Some (with_pc s t (put_after_read s k rk v))
  | PWrite k data, ADsPut => Some (with_ds_pc s (ds_put k data (st_ds s)) t (PUnlock k ROk (Some data)))
  | PUnlock k r _, AUnlock => Some (with_lock_pc s (lock_index k) None t (Done r))
  | GRead k c, ADsGet => Some (with_pc s t (get_after_read s k c))
  | DLock k seen c, ALock =>
      match st_lock s (lock_index k) with
      | Some _ => None
      | None => Some (with_lock_pc s (lock_index k) (Some t) t (DRead k seen c))
      end
  | DRead k seen c, ADsGet =>
      Some (with_pc s t (match ds_get k (st_ds s) with
                         | None => DUnlock k c
                         | Some cur => if bytes_eqb cur seen then DDelete k seen c else DUnlock k c
                         end))
  | DDelete k _ c, ADsDelete => Some (with_ds_pc s (ds_del k (st_ds s)) t (DUnlock k c))
  | DUnlock k c, AUnlock => Some (with_lock_pc s (lock_index k) None t (after_absent k c (st_now s)))
  | GCQuery, ADsQuery => Some (with_pc s t (gc_next (st_now s) (ds_query (st_ds s))))
  | _, _ => None
  end.

Definition step (s : state) (e : event) : option state :=
  match e with
  | ETick d => Some {| st_ds := st_ds s; st_lock := st_lock s; st_now := st_now s + d; st_thr := st_thr s |}
  | ESpawn t c =>
      match st_thr s t with
      | Some _ => None
      | None => Some (with_pc s t (start_pc c))
      end
  | EAct t a =>
      match st_thr s t with
      | None => None
      | Some p => step_act s t p a
      end
  end.

Fixpoint run (evs : list event) (s : state) : option state :=
  match evs with
  | [] => Some s
  | e :: rest => match step s e with Some s' => run rest s' | None => None end
  end.

End Store.

(* ---- a concrete validator: sequence numbers ----------------------------------
   Used by the examples and by the correspondence check (the harness registers
   the same validator under the namespace "v").  A value of n bytes is read as
   the little-endian number of its bytes plus 2^32 n; the validator only accepts
   four bytes [seq; tag; flags; owner], i.e. seq + 2^8 tag + 2^16 flags +
   2^24 owner + 2^34.  It is valid for a key of the form "/v/..." when flag bit
   0 is clear and its owner byte is 0 or equals the fourth byte of the key.  Select
   fails when flag bit 1 is set on either value, otherwise the higher sequence
   number wins and the first argument wins ties. *)
Definition v_seq (v : value) : N := v mod 256.
Definition v_flags (v : value) : N := (v / 65536) mod 256.
Definition v_owner (v : value) : N := (v / 16777216) mod 256.
Definition key_in_ns (k : key) : bool :=
  match k with
  | 47 :: 118 :: 47 :: _ => true
  | _ => false
  end.
Definition v_len (v : value) : N := v / 4294967296.
Definition seq_valid (k : key) (v : value) : bool :=
  key_in_ns k && N.eqb (v_len v) 4 && negb (N.testbit (v_flags v) 0)
  && (N.eqb (v_owner v) 0 || N.eqb (v_owner v) (nth 3 k 0)).
Definition seq_sel (k : key) (a b : value) : option bool :=
  if negb (key_in_ns k) then None
  else if N.testbit (v_flags a) 1 || N.testbit (v_flags b) 1 then None
  else Some (N.leb (v_seq b) (v_seq a)).
(* the plain valid value with sequence number n (tag, flags, owner = 0) *)
Definition seqv (n : N) : value := n + 17179869184.
