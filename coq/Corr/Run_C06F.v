(* C06, value-search run: corrective puts after SearchValue / GetValue on the
   standard and the accelerated (fullrt) client.

   The harness (harness/dht/c06f_test.go) reuses the scripted network of the C04
   harness; [f_c] is the C04 view of the run (delivery order of the answers, the
   stream, the result), [f_table] the responders in the client's routing table,
   [f_fixups] every PUT_VALUE the client handed to the network: recipient
   (responder index + 1; 0 = not a responder), value, "the message carries the
   requested key", "the request's context was still live when it reached the
   network" (a request issued on a context that is already done is not
   delivered by the real sender).

   Expected recipients: Model/ValueSearch.v [fixup_targets] (proved in C04:
   c04_fixup_targets) over the closest peers the search ended with. *)
From Verif.Lib Require Import GoSem Bits.
From Verif.Corr Require Export Run_C04.
Local Open Scope N_scope.

Record case6f := {
  f_c : case;
  f_table : list peer;
  f_fixups : list (N * val * bool * bool) }.

Fixpoint ins_N (x : N) (l : list N) : list N :=
  match l with
  | [] => [x]
  | y :: r => if N.leb x y then x :: l else y :: ins_N x r
  end.
Definition sort_N (l : list N) : list N := fold_right ins_N [] l.

Section Eval6F.
Variable f : case6f.
Let c := f_c f.

Definition delivered_resp (p : peer) : option resp :=
  match find (fun a => N.eqb (snd (fst a)) p) (c_arrivals c) with
  | Some a => Some (snd a)
  | None => None
  end.

(* the peers the closest-peers step ended with.
   standard client: the lookup result = the K nearest peers that are not
   unreachable; a peer is unreachable when its request failed or its record was
   for another key (the query function returns an error).  K = 20 > the number
   of responders, and a completed lookup (with its follow-up phase) has asked
   every peer of the table.
   accelerated client: GetClosestPeers on the crawled table, whatever the peers
   answered. *)
Definition rpc_failed (r : resp) : bool :=
  match accept (vvalid c) the_key r with RpcError => true | _ => false end.
Definition closest : list peer :=
  match c_client c with
  | CFullrt => f_table f
  | _ => filter (fun p => match delivered_resp p with Some r => negb (rpc_failed r) | None => false end) (f_table f)
  end.

Definition final_state : pv :=
  process_values (vsel c) the_key (c_quorum c)
    (local_of c (c_client c) ++ remote_arrivals (vvalid c) the_key (side c true)).

Definition expected_targets : list peer := fixup_targets closest final_state.   (* exact for the accelerated client *)

(* observed: recipients of live, well-formed puts *)
Definition obs_recipients : list peer :=
  map (fun x => fst (fst (fst x)) - 1) (filter (fun x => snd x) (f_fixups f)).
Definition same_set (a b : list N) : bool := list_eqb N.eqb (sort_N a) (sort_N b).

(* ---- the property on the implementation's own trace ------------------------------------ *)
(* the final value as the caller saw it *)
Definition observed_best : option val :=
  match c_op c with
  | OSearch => last (map Some (c_stream c)) None
  | _ => match c_result c with OFound v => Some v | _ => None end
  end.
(* the peers whose delivered answer carried exactly that value *)
Definition returned_best (b : val) (p : peer) : bool :=
  match delivered_resp p with
  | Some r => match accept (vvalid c) the_key r with RpcValue v => N.eqb v b | _ => false end
  | None => false
  end.
(* the search ran to its end: not stopped by the quorum, and (standard client) every
   responder's answer was processed; the accelerated client stops waiting for slow
   peers by itself (execOnMany), which is not an early end of the search *)
Definition search_completed : bool :=
  (match c_client c with CFullrt => true | _ => c_complete c end) && negb (pv_aborted final_state).

Definition subset (a b : list N) : bool := forallb (fun x => existsb (N.eqb x) b) a.
Fixpoint nodupb (l : list N) : bool :=
  match l with [] => true | x :: r => negb (existsb (N.eqb x) r) && nodupb r end.

(* who must / may receive the corrective put, given who returned [b].
   accelerated client: exactly the table peers that did not return it.
   standard client: the lookup's own result decides, and a request that fails
   after the lookup has terminated (the query function runs under the lookup's
   context, not the path's) no longer makes its peer unreachable: such a peer is
   still "returned by the lookup".  So: at least the peers that answered without
   error, at most the whole table; never a peer that returned the best value. *)
Definition bounds_ok (with_best : peer -> bool) : bool :=
  let must := filter (fun p => negb (with_best p)) closest in
  let may := match c_client c with
             | CFullrt => must
             | _ => filter (fun p => negb (with_best p)) (f_table f)
             end in
  nodupb obs_recipients && subset must obs_recipients && subset obs_recipients may.

Definition prop_ok : bool :=
  (* nothing but the requested key with the best value is ever put; no put to a non-responder *)
  forallb (fun x => let '(p, v, kok, _) := x in
                    kok && negb (N.eqb p 0) &&
                    match observed_best with Some b => N.eqb v b | None => false end) (f_fixups f)
  && (if search_completed then
        match observed_best with
        | Some b => bounds_ok (returned_best b)
        | None => match f_fixups f with [] => true | _ => false end
        end
      else true).

(* agreement with the model's [fixup_targets]: the model's peersWithBest instead of the observed value *)
Definition agrees : bool :=
  if search_completed
  then match pv_best final_state with
       | Some _ => bounds_ok (fun p => existsb (N.eqb p) (pv_with_best final_state))
       | None => match f_fixups f with [] => true | _ => false end
       end
  else match c_client c with
       | CFullrt => match obs_recipients with [] => true | _ => false end   (* stopped by the quorum: nothing is sent *)
       | _ => true
       end.
End Eval6F.

Definition verdict (f : case6f) : nat :=
  match c_client (f_c f), c_op (f_c f) with
  | CDual, _ | _, OPk => 1%nat       (* not produced by this run *)
  | _, _ => if negb (prop_ok f) then 2%nat else if agrees f then 0%nat else 1%nat
  end.

Fixpoint verdicts_from (i : nat) (cs : list case6f) : list (nat * nat) :=
  match cs with
  | [] => []
  | c :: rest => match verdict c with
                 | O => verdicts_from (S i) rest
                 | v => (i, v) :: verdicts_from (S i) rest
                 end
  end.
Definition verdicts := verdicts_from 0.
