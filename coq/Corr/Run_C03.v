(* C03 correspondence glue: the operation-level observations are evaluated
   directly (returned / no panic / nothing leaked / channel closed); the
   optimistic-provide counting is compared with Model/OptProvide.v. *)
From Verif.Lib Require Import GoSem.
From Verif.Model Require Import OptProvide.

Record case := {
  c_op : nat; c_K : nat; c_optimistic : bool; c_cancelled : bool; c_deadline : bool;
  c_rpc_total : nat;            (* ADD_PROVIDER RPCs issued in total *)
  c_rpc_before_return : nat;    (* of which completed before Provide returned *)
  i_returned : bool; i_panic : bool; i_leak : bool; i_closed : bool; i_prompt : bool }.

Definition prop_ok (c : case) : bool := i_returned c && negb (i_panic c) && negb (i_leak c) && i_closed c && i_prompt c.

(* optimistic provide, uncancelled, no deadline: Provide cannot return before the
   number of completions the model predicts were delivered (records stored early,
   while the lookup was still running, may all have completed before it returns) *)
Definition agrees (c : case) : bool :=
  if c_optimistic c && negb (c_cancelled c) && negb (c_deadline c) && Nat.eqb (c_op c) 8
  then match returns_after (c_K c) (c_rpc_total c) with
       | Ok n => Nat.leb n (c_rpc_before_return c) && Nat.leb (c_rpc_before_return c) (c_rpc_total c)
       | _ => negb (i_returned c)
       end
  else true.

Definition verdict (c : case) : nat := if negb (prop_ok c) then 2 else if agrees c then 0 else 1.

Fixpoint verdicts_from (i : nat) (cs : list case) : list (nat * nat) :=
  match cs with
  | [] => []
  | c :: rest => match verdict c with
                 | O => verdicts_from (S i) rest
                 | v => (i, v) :: verdicts_from (S i) rest
                 end
  end.
Definition verdicts := verdicts_from 0.
