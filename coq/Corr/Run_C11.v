(* Executable glue for the C11 correspondence check.

   A case is the list of driver steps the harness performed on the real
   messageSenderImpl and, after each step (at quiescence: synctest.Wait), what
   it could see.  [drive] maps a driver step to model events and then runs every
   enabled internal event to quiescence ([settle]), which is what the real code
   does between two synctest.Wait() calls.  Lock waiters are served in arrival
   order (Go's channel send queue is FIFO); the theorems do not depend on that
   choice -- they hold for every event list -- it only selects the event list
   that the deterministic harness run corresponds to. *)
From Verif.Lib Require Import GoSem Bits.
From Verif.Model Require Export MsgSender.

Inductive dstep :=
| DStart (t p : nat) (k : kind)
| DCancel (t : nat) (k : ctxk)
| DDial (t : nat) (ok : bool)
| DWrite (t : nat) (ok : bool)
| DAnswer (st : nat) (good : bool)
| DReset (st : nat)
| DTimeout (t : nat)
| DDisc (p : nat) (kill : bool).

Inductive status := SDial | SWrite | SBlocked | SDone (r : result).

Record stream_obs := { so_peer : nat; so_cli : cstate; so_dead : bool;
                       so_pending : list nat; so_inbox : list reply; so_reader : bool }.
Record obs := { o_threads : list (nat * status); o_streams : list stream_obs }.

Inductive waiter := WT (t : nat) | WI (sd : nat).
(* [cnow]: virtual time in units of 0.5 ms; [crs]: when each call's current read started *)
Record cst := { cm : state; cq : list waiter; cnow : N; crs : fmap N }.
Definition read_timeout : N := 20000.   (* dhtReadMessageTimeout = 10 s; the harness checks the constant *)

(* ---- which events are internal ------------------------------------------ *)
Definition is_waiting (p : pc) : bool := match p with PGot _ | PNew _ => true | _ => false end.

Definition thread_stream (s : state) (th : thread) : option (nat * stream) :=
  match holds (t_pc th) with
  | Some sd => match nth_error (senders s) sd with
               | Some x => match sd_stream x with
                           | Some st => match nth_error (streams s) st with Some y => Some (st, y) | None => None end
                           | None => None
                           end
               | None => None
               end
  | None => None
  end.

(* the internal event thread t can do on its own, if any (lock grants apart) *)
Definition internal_of (s : state) (t : nat) (th : thread) : option event :=
  match t_pc th with
  | PPrepNew _ | PLoop _ _ => Some (EPrep t)
  | PFailed _ _ => Some (EAfterFail t)
  | PDialNew _ | PDial _ _ => match t_ctx th with Some _ => Some (EDialFail t) | None => None end
  | PGot _ | PNew _ => match t_ctx th with Some _ => Some (ELockFail t) | None => None end
  | PRead _ _ =>
      match thread_stream s th with
      | Some (_, y) =>
          if sm_dead y then Some (ERead t)
          else match sm_inbox y with
               | _ :: _ => Some (ERead t)
               | [] => match t_ctx th with Some _ => Some (EReadCtx t) | None => None end
               end
      | None => None
      end
  | _ => None
  end.

Fixpoint first_internal (s : state) (ths : fmap thread) : option event :=
  match ths with
  | [] => None
  | (t, th) :: rest => match internal_of s t th with Some e => Some e | None => first_internal s rest end
  end.

Definition waiter_eqb (a b : waiter) : bool :=
  match a, b with WT x, WT y => Nat.eqb x y | WI x, WI y => Nat.eqb x y | _, _ => false end.

Definition lock_free (s : state) (sd : nat) : bool :=
  match nth_error (senders s) sd with
  | Some x => match sd_lock x with None => true | Some _ => false end
  | None => false
  end.

(* first waiter, in arrival order, whose lock is free *)
Fixpoint first_grant (s : state) (q : list waiter) : option (waiter * event) :=
  match q with
  | [] => None
  | WT t :: rest =>
      match mget (threads s) t with
      | Some th => match t_pc th with
                   | PGot sd | PNew sd => if lock_free s sd then Some (WT t, ELock t) else first_grant s rest
                   | _ => first_grant s rest
                   end
      | None => first_grant s rest
      end
  | WI sd :: rest => if lock_free s sd then Some (WI sd, EInval sd) else first_grant s rest
  end.

(* keep the queue in step with the state: drop waiters that stopped waiting,
   append threads that started to wait (ascending id) *)
Definition still_waiting (s : state) (w : waiter) : bool :=
  match w with
  | WT t => match mget (threads s) t with Some th => is_waiting (t_pc th) | None => false end
  | WI sd => existsb (Nat.eqb sd) (invq s)
  end.

Fixpoint ins_nat (x : nat) (l : list nat) : list nat :=
  match l with [] => [x] | y :: l' => if Nat.leb x y then x :: l else y :: ins_nat x l' end.
Definition sort_nat (l : list nat) : list nat := fold_right ins_nat [] l.

Definition requeue (s : state) (q : list waiter) : list waiter :=
  let q1 := filter (still_waiting s) q in
  let newt := filter (fun t => negb (existsb (waiter_eqb (WT t)) q1))
                     (sort_nat (map fst (filter (fun kv => is_waiting (t_pc (snd kv))) (threads s)))) in
  let newi := filter (fun sd => negb (existsb (waiter_eqb (WI sd)) q1)) (invq s) in
  q1 ++ map WT newt ++ map WI newi.

Definition apply_ev (c : cst) (e : event) : option cst :=
  match step (cm c) e with
  | Some s' =>
      (* a thread that took the lock leaves the queue even if it is waiting again afterwards *)
      let q := match e with
               | ELock t => filter (fun w => negb (waiter_eqb w (WT t))) (cq c)
               | EInval sd => filter (fun w => negb (waiter_eqb w (WI sd))) (cq c)
               | _ => cq c
               end in
      Some {| cm := s'; cq := requeue s' q; cnow := cnow c; crs := crs c |}
  | None => None
  end.

Fixpoint settle (fuel : nat) (c : cst) : option cst :=
  match fuel with
  | O => None
  | S f =>
      match first_internal (cm c) (threads (cm c)) with
      | Some e => match apply_ev c e with Some c' => settle f c' | None => None end
      | None =>
          match first_grant (cm c) (cq c) with
          | Some (_, e) => match apply_ev c e with Some c' => settle f c' | None => None end
          | None => Some c
          end
      end
  end.

Fixpoint apply_evs (c : cst) (es : list event) : option cst :=
  match es with
  | [] => Some c
  | e :: rest => match apply_ev c e with Some c' => apply_evs c' rest | None => None end
  end.

Fixpoint index_list {A} (i : nat) (l : list A) : list (nat * A) :=
  match l with [] => [] | x :: l' => (i, x) :: index_list (S i) l' end.

Definition thread_at_write (s : state) (t : nat) : option (bool) :=
  (* Some alive: thread t is before writeMsg and its stream is (not) writable *)
  match mget (threads s) t with
  | Some th => match t_pc th with
               | PWrite _ _ => match thread_stream s th with
                               | Some (_, y) => Some (negb (sm_dead y) && match sm_cli y with COpen => true | _ => false end)
                               | None => Some false
                               end
               | _ => None
               end
  | None => None
  end.

Definition events_of (s : state) (d : dstep) : option (list event) :=
  match d with
  | DStart t p k => Some [EStart t p k]
  | DCancel t k => Some [ECtx t k]
  | DDial t ok => Some [if ok then EDialOk t else EDialFail t]
  | DWrite t ok =>
      match thread_at_write s t with
      | Some alive => Some [if ok && alive then EWriteOk t else EWriteFail t]
      | None => None
      end
  | DAnswer st good => Some [ERemAnswer st good]
  | DReset st => Some [ERemReset st]
  | DTimeout t => Some []    (* the timer fires in [fire_due] *)
  | DDisc p kill =>
      let kills := if kill
                   then map (fun iy => ERemReset (fst iy))
                            (filter (fun iy => Nat.eqb (sm_peer (snd iy)) p &&
                                               match sm_cli (snd iy) with COpen => true | _ => false end)
                                    (index_list 0 (streams s)))
                   else [] in
      Some (kills ++ [EDisc p])
  end.

(* read timers: the reader whose deadline is the earliest among those that are due *)
Definition deadline (c : cst) (t : nat) : N :=
  match mget (crs c) t with Some r => (r + read_timeout)%N | None => 0%N end.
Definition is_reading (th : thread) : bool := match t_pc th with PRead _ _ => true | _ => false end.
Fixpoint earliest_due (c : cst) (ths : fmap thread) (best : option nat) : option nat :=
  match ths with
  | [] => best
  | (t, th) :: rest =>
      if is_reading th && N.leb (deadline c t) (cnow c)
      then match best with
           | Some b => if N.ltb (deadline c t) (deadline c b) then earliest_due c rest (Some t) else earliest_due c rest best
           | None => earliest_due c rest (Some t)
           end
      else earliest_due c rest best
  end.
Fixpoint fire_due (fuel : nat) (c : cst) : option cst :=
  match fuel with
  | O => None
  | S f =>
      match earliest_due c (threads (cm c)) None with
      | Some t => match apply_ev c (ETimeout t) with
                  | Some c1 => match settle 200 c1 with Some c2 => fire_due f c2 | None => None end
                  | None => None
                  end
      | None => Some c
      end
  end.

Definition set_now (c : cst) (n : N) : cst := {| cm := cm c; cq := cq c; cnow := n; crs := crs c |}.
Definition note_read (c : cst) (d : dstep) : cst :=
  match d with
  | DWrite t _ =>
      match mget (threads (cm c)) t with
      | Some th => if is_reading th then {| cm := cm c; cq := cq c; cnow := cnow c; crs := mset (crs c) t (cnow c) |} else c
      | None => c
      end
  | _ => c
  end.

(* one driver step of the harness: the action (a timeout step sleeps until just
   after the call's read deadline), quiescence, then 1 ms of virtual time *)
Definition drive (c : cst) (d : dstep) : option cst :=
  let c0 := match d with
            | DTimeout t => set_now c (N.max (cnow c) (deadline c t + 1))
            | _ => c
            end in
  match events_of (cm c0) d with
  | Some es =>
      match apply_evs c0 es with
      | Some c1 =>
          match settle 200 c1 with
          | Some c2 =>
              match fire_due 50 (note_read c2 d) with
              | Some c3 => fire_due 50 (set_now c3 (cnow c3 + 2))
              | None => None
              end
          | None => None
          end
      | None => None
      end
  | None => None
  end.

(* ---- observation of a model state ---------------------------------------- *)
Definition status_of (th : thread) : status :=
  match t_pc th with
  | PDialNew _ | PDial _ _ => SDial
  | PWrite _ _ => SWrite
  | PDone r => SDone r
  | _ => SBlocked
  end.

Fixpoint ins_thread (x : nat * status) (l : list (nat * status)) : list (nat * status) :=
  match l with [] => [x] | y :: l' => if Nat.leb (fst x) (fst y) then x :: l else y :: ins_thread x l' end.

Definition has_reader (s : state) (st : nat) : bool :=
  existsb (fun kv => match t_pc (snd kv) with
                     | PRead _ _ => match thread_stream s (snd kv) with
                                    | Some (st', _) => Nat.eqb st st'
                                    | None => false
                                    end
                     | _ => false
                     end) (threads s).

Definition observe (s : state) : obs :=
  {| o_threads := fold_right ins_thread [] (map (fun kv => (fst kv, status_of (snd kv))) (threads s));
     o_streams := map (fun iy =>
                         let y := snd iy in
                         match sm_cli y with
                         | COpen => {| so_peer := sm_peer y; so_cli := COpen; so_dead := sm_dead y;
                                       so_pending := sm_pending y; so_inbox := sm_inbox y;
                                       so_reader := has_reader s (fst iy) |}
                         | c => {| so_peer := sm_peer y; so_cli := c; so_dead := sm_dead y;
                                   so_pending := []; so_inbox := []; so_reader := false |}
                         end) (index_list 0 (streams s)) |}.

(* None: the model cannot follow the driver step (it is not enabled) *)
Fixpoint model_run (c : cst) (ds : list dstep) : list (option obs) :=
  match ds with
  | [] => []
  | d :: rest => match drive c d with
                 | Some c' => Some (observe (cm c')) :: model_run c' rest
                 | None => [None]
                 end
  end.

(* ---- equality ------------------------------------------------------------- *)
Fixpoint list_eqb {A} (eq : A -> A -> bool) (a b : list A) : bool :=
  match a, b with
  | [], [] => true
  | x :: a', y :: b' => eq x y && list_eqb eq a' b'
  | _, _ => false
  end.

Definition ctxk_eqb (a b : ctxk) : bool :=
  match a, b with CCancel, CCancel | CDeadline, CDeadline => true | _, _ => false end.
Definition err_eqb (a b : err) : bool :=
  match a, b with
  | EInvalid, EInvalid | EDial, EDial | EWrite, EWrite | EReadErr, EReadErr | ETimedOut, ETimedOut => true
  | ECtxErr x, ECtxErr y => ctxk_eqb x y
  | _, _ => false
  end.
Definition optnat_eqb (a b : option nat) : bool :=
  match a, b with Some x, Some y => Nat.eqb x y | None, None => true | _, _ => false end.
Definition result_eqb (a b : result) : bool :=
  match a, b with
  | ROk x, ROk y => optnat_eqb x y
  | RErr x, RErr y => err_eqb x y
  | RPanic, RPanic => true
  | _, _ => false
  end.
Definition status_eqb (a b : status) : bool :=
  match a, b with
  | SDial, SDial | SWrite, SWrite | SBlocked, SBlocked => true
  | SDone x, SDone y => result_eqb x y
  | _, _ => false
  end.
Definition cstate_eqb (a b : cstate) : bool :=
  match a, b with COpen, COpen | CReset, CReset | CClosed, CClosed => true | _, _ => false end.
Definition reply_eqb (a b : reply) : bool :=
  match a, b with RGood x, RGood y | RBad x, RBad y => Nat.eqb x y | _, _ => false end.
Definition stream_obs_eqb (a b : stream_obs) : bool :=
  Nat.eqb (so_peer a) (so_peer b) && cstate_eqb (so_cli a) (so_cli b) && Bool.eqb (so_dead a) (so_dead b)
  && list_eqb Nat.eqb (so_pending a) (so_pending b) && list_eqb reply_eqb (so_inbox a) (so_inbox b)
  && Bool.eqb (so_reader a) (so_reader b).
Definition obs_eqb (a b : obs) : bool :=
  list_eqb (fun x y => Nat.eqb (fst x) (fst y) && status_eqb (snd x) (snd y)) (o_threads a) (o_threads b)
  && list_eqb stream_obs_eqb (o_streams a) (o_streams b).

(* projection on what the property speaks about: the error class, which gate a
   call is parked at and the transport-level dead flag are dropped *)
Definition proj_status (x : status) : status :=
  match x with
  | SDone (RErr _) => SDone (RErr EReadErr)
  | SDone r => SDone r
  | _ => SBlocked
  end.
Definition proj_obs (o : obs) : obs :=
  {| o_threads := map (fun x => (fst x, proj_status (snd x))) (o_threads o);
     o_streams := map (fun y => {| so_peer := so_peer y; so_cli := so_cli y; so_dead := false;
                                   so_pending := so_pending y; so_inbox := so_inbox y; so_reader := so_reader y |})
                      (o_streams o) |}.

Definition optobs_eqb (proj : bool) (m : option obs) (i : obs) : bool :=
  match m with
  | Some o => if proj then obs_eqb (proj_obs o) (proj_obs i) else obs_eqb o i
  | None => false
  end.

Fixpoint all_eqb (proj : bool) (m : list (option obs)) (i : list obs) : bool :=
  match m, i with
  | [], [] => true
  | x :: m', y :: i' => optobs_eqb proj x y && all_eqb proj m' i'
  | _, _ => false
  end.

(* ---- the property, evaluated on the implementation's trace alone ----------- *)
Definition status_in (o : obs) (t : nat) : option status :=
  match find (fun x => Nat.eqb (fst x) t) (o_threads o) with Some x => Some (snd x) | None => None end.

(* P1: every reply handed to a caller carries the caller's own request id *)
Definition replies_match (o : obs) : bool :=
  forallb (fun x => match snd x with
                    | SDone (ROk (Some id)) => Nat.eqb id (fst x)
                    | SDone RPanic => false
                    | _ => true
                    end) (o_threads o).

(* P3 (idle_stream_clean on the implementation): a stream the client still
   considers usable carries at most one outstanding item, and only for a call
   that is blocked (in its read).  A stream left open with the request of a
   call that failed, timed out or is retrying is exactly a stream reused after
   a failed exchange, whose late reply the next request would consume. *)
Definition blocked_in (o : obs) (t : nat) : bool :=
  match status_in o t with Some SBlocked => true | _ => false end.
Definition stream_clean (o : obs) (y : stream_obs) : bool :=
  match so_cli y with
  | COpen =>
      Nat.leb (length (so_pending y) + length (so_inbox y)) 1
      && forallb (blocked_in o) (so_pending y)
      && forallb (fun r => blocked_in o (reply_id r) && so_reader y) (so_inbox y)
  | _ => true
  end.

(* P2: streams open at once to one peer.  Without a disconnect notification of
   that peer: at most one.  Each notification can orphan one sender record that
   is still finishing its exchange. *)
Definition count_open (o : obs) (p : nat) : nat :=
  length (filter (fun y => Nat.eqb (so_peer y) p && cstate_eqb (so_cli y) COpen) (o_streams o)).
Definition discs_of (p : nat) (ds : list dstep) : nat :=
  length (filter (fun d => match d with DDisc q _ => Nat.eqb p q | _ => false end) ds).
Definition peers_of (o : obs) : list nat := map so_peer (o_streams o).
Definition open_bound (seen : list dstep) (o : obs) : bool :=
  forallb (fun p => Nat.leb (count_open o p) (1 + discs_of p seen)) (peers_of o).

(* P4: client states only move away from Open, and nothing is ever written to a
   stream the client reset or closed (recorded pending lists of non-open streams
   are empty by construction of the observation, so this is the monotonicity) *)
Fixpoint cli_monotone (a b : list stream_obs) : bool :=
  match a, b with
  | [], _ => true
  | x :: a', y :: b' => (cstate_eqb (so_cli x) COpen || cstate_eqb (so_cli x) (so_cli y)) && cli_monotone a' b'
  | _ :: _, [] => false
  end.

Fixpoint prop_ok_from (seen : list dstep) (prev : list stream_obs) (ds : list dstep) (os : list obs) : bool :=
  match ds, os with
  | d :: ds', o :: os' =>
      let seen' := seen ++ [d] in
      replies_match o && forallb (stream_clean o) (o_streams o) && open_bound seen' o
      && cli_monotone prev (o_streams o)
      && prop_ok_from seen' (o_streams o) ds' os'
  | _, _ => true
  end.
Definition prop_ok (ds : list dstep) (os : list obs) : bool := prop_ok_from [] [] ds os.

Record case := { c_steps : list dstep; c_impl : list obs }.

Definition c0 : cst := {| cm := init; cq := []; cnow := 0; crs := [] |}.

(* 0 agree and the property holds on the trace; 2 the property fails on the
   implementation's trace, or the trace differs from the proved model on a
   property-relevant observable; 1 they differ elsewhere (error class, gate) *)
Definition verdict (c : case) : nat :=
  if negb (prop_ok (c_steps c) (c_impl c)) then 2
  else let m := model_run c0 (c_steps c) in
       if all_eqb false m (c_impl c) then 0
       else if all_eqb true m (c_impl c) then 1 else 2.

Fixpoint verdicts_from (i : nat) (cs : list case) : list (nat * nat) :=
  match cs with
  | [] => []
  | c :: rest => match verdict c with
                 | O => verdicts_from (S i) rest
                 | v => (i, v) :: verdicts_from (S i) rest
                 end
  end.
Definition verdicts := verdicts_from 0.
