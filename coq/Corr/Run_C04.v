(* Executable glue of the C04 correspondence check.

   The harness runs SearchValue / GetValue / GetPublicKey of the real standard,
   accelerated (fullrt) and dual clients against scripted responders and
   records the answers in the order in which they were delivered to the query
   function ([c_arrivals]; the boolean says WAN (true) or LAN (false) -- always
   WAN for the standard and accelerated clients), the values streamed
   ([c_stream]) and the result ([c_result]).  [expected] runs the model on the
   same delivery order; [monitor] evaluates the property on the observation
   alone. *)
From Verif.Lib Require Import GoSem Bits.
From Verif.Model Require Export ValueSearch.
Local Open Scope N_scope.

Inductive client := CStd | CFullrt | CDual.
Inductive opk := OSearch | OGet | OPk.
Inductive outcome :=
| ONotFound
| OFound (v : val)
| OFoundPk (matches : bool)      (* GetPublicKey returned a key; does it hash to the peer? *)
| OError.

Record case := {
  c_client : client;
  c_op : opk;
  c_now : N;
  c_quorum : nat;
  c_local : option val;
  c_node : resp;                              (* pk: the answer of the peer itself; RespErr if never delivered *)
  c_arrivals : list (bool * peer * resp);
  c_complete : bool;                          (* every responder's answer was delivered before the call returned *)
  c_stream : list val;
  c_result : outcome }.

Fixpoint list_eqb {A} (eq : A -> A -> bool) (a b : list A) : bool :=
  match a, b with
  | [], [] => true
  | x :: a', y :: b' => eq x y && list_eqb eq a' b'
  | _, _ => false
  end.

(* ---- instantiation ------------------------------------------------------------------ *)
(* value records: key 1 is the requested key, 2 another key *)
Definition the_key : vkey := 1.
Definition self : peer := 1000.

(* public keys: value 1 = the target's key, 2 = another peer's key, 3 = no key,
   4 = the target's key in another encoding (other bytes, the same key: two
   valid values between which PublicKeyValidator.Select does not distinguish);
   key 1 = /pk/<target>, key 2 = /pk/<other> *)
Definition pk_H (v : val) : option peer :=
  if N.eqb v 1 then Some 1 else if N.eqb v 2 then Some 2 else if N.eqb v 4 then Some 1 else None.
Definition pk_keyof (p : peer) : vkey := p.
Definition pk_sel (kk : vkey) (a b : val) : option nat := Some 0%nat.   (* record.PublicKeyValidator.Select *)

Section Eval.
Variable c : case.

Definition is_pk : bool := match c_op c with OPk => true | _ => false end.
Definition vvalid : vkey -> val -> bool :=
  if is_pk then pk_valid pk_H pk_keyof else c_valid (c_now c).
Definition vsel : vkey -> val -> val -> option nat := if is_pk then pk_sel else c_sel.

Definition side (w : bool) : list (peer * resp) :=
  map (fun a => (snd (fst a), snd a)) (filter (fun a => Bool.eqb (fst (fst a)) w) (c_arrivals c)).

Definition local_of (cl : client) : list (peer * val) :=
  match cl with
  | CFullrt => local_fullrt vvalid the_key self (c_local c)
  | _ => local_std vvalid the_key self (c_local c)
  end.

Definition stream_of (cl : client) (w : bool) : list val :=
  rev (pv_out (process_values vsel the_key (c_quorum c)
                 (local_of cl ++ remote_arrivals vvalid the_key (side w)))).

(* the dual client: both sub-searches advance in delivery order; every value a
   sub-search emits goes through the Parallel merge *)
Definition feed (m : option val * list val) (before after : pv) : option val * list val :=
  if Nat.ltb (length (pv_out before)) (length (pv_out after))
  then match pv_out after with v :: _ => merge_step vsel the_key m v | [] => m end
  else m.

Fixpoint dual_run (pw pl : pv) (m : option val * list val) (l : list (bool * peer * resp)) : list val :=
  match l with
  | [] => rev (snd m)
  | (w, p, r) :: rest =>
      match accept vvalid the_key r with
      | RpcValue v =>
          if w then let pw' := pv_step vsel the_key (c_quorum c) pw (p, v) in dual_run pw' pl (feed m pw pw') rest
          else let pl' := pv_step vsel the_key (c_quorum c) pl (p, v) in dual_run pw pl' (feed m pl pl') rest
      | _ => dual_run pw pl m rest
      end
  end.

Definition dual_stream : list val :=
  let p0 := process_values vsel the_key (c_quorum c) (local_of CDual) in
  let m0 := feed (feed (None, []) pv_init p0) pv_init p0 in    (* both sub-routers emit the shared local record *)
  dual_run p0 p0 m0 (c_arrivals c).

Definition expected_stream : list val :=
  match c_client c with
  | CDual => dual_stream
  | cl => stream_of cl true
  end.

Definition expected_get : option val :=
  match c_client c with
  | CDual => dual_get_value (get_value (stream_of CDual true)) (get_value (stream_of CDual false))
  | cl => get_value (stream_of cl true)
  end.

(* GetPublicKey succeeds iff the peer itself or one of the searches supplies the key *)
Definition expected_pk : bool :=
  let node := match pk_from_node pk_H pk_keyof 1 (c_node c) with Some _ => true | None => false end in
  let dht (cl : client) (w : bool) :=
      match get_value (stream_of cl w) with
      | Some v => match pk_H v with Some _ => true | None => false end
      | None => false
      end in
  match c_client c with
  | CStd => node || dht CStd true
  | CFullrt => dht CFullrt true               (* routing.GetPublicKey falls back to GetValue *)
  | CDual => node || dht CDual true || dht CDual false
  end.

Inductive mm := MOk | MStream | MResult | MErr | MQuorum.

(* standard client: the lookup asks every responder unless the quorum stops it,
   so a search that returned before all answers were in must have reached the
   quorum in the model too *)
Definition quorum_ok : bool :=
  match c_client c, c_op c with
  | CStd, OSearch | CStd, OGet =>
      c_complete c
      || pv_aborted (process_values vsel the_key (c_quorum c)
                       (local_of CStd ++ remote_arrivals vvalid the_key (side true)))
  | _, _ => true
  end.

Definition model_mm : mm :=
  match c_op c with
  | OSearch =>
      if list_eqb N.eqb (c_stream c) expected_stream
      then match c_result c with ONotFound => MOk | _ => MErr end
      else MStream
  | OGet =>
      match c_result c, expected_get with
      | OFound v, Some v' => if N.eqb v v' then MOk else MResult
      | ONotFound, None => MOk
      | OError, None => MErr
      | _, _ => MResult
      end
  | OPk =>
      match c_result c, expected_pk with
      | OFoundPk _, true => MOk
      | ONotFound, false => MOk
      | OError, false => MOk      (* which of the two paths' errors is reported depends on the order *)
      | _, _ => MResult
      end
  end.

(* ---- the property on the observation alone ----------------------------------------------- *)
(* the rank the validator of the check assigns (the sequence number; every public
   key has the same rank): byte-different values of equal rank exist *)
Definition vrank (v : val) : N := if is_pk then 0 else c_rank the_key v.

(* strictly improving: each streamed value differs from the previous one, Select
   prefers it to the previous one, and it is ranked STRICTLY above every value
   streamed before it -- a value that ties with an earlier one breaks this *)
Fixpoint improving_b (l : list val) : bool :=
  match l with
  | v :: ((v' :: _) as rest) =>
      negb (N.eqb v v') && match vsel the_key v v' with Some 1%nat => true | _ => false end
      && forallb (fun w => N.ltb (vrank v) (vrank w)) rest && improving_b rest
  | _ => true
  end.

Definition ge_b (f x : val) : bool :=
  (N.eqb f x || match vsel the_key f x with Some 0%nat => true | _ => false end) && N.leb (vrank x) (vrank f).

(* the values consumed by one search before it ended (quorum), all valid *)
Fixpoint consumed_b (st : pv) (l : list (peer * val)) : list val :=
  match l with
  | [] => []
  | a :: rest => if pv_aborted st then [] else snd a :: consumed_b (pv_step vsel the_key (c_quorum c) st a) rest
  end.
Definition supplied (w : bool) : list val :=
  consumed_b pv_init (local_std vvalid the_key self (c_local c) ++ remote_arrivals vvalid the_key (side w)).
Definition supplied_all : list val := supplied true ++ supplied false.

(* Select is total on the consumed values (no value with the Select-error flag) *)
Definition sel_total_on (l : list val) : bool :=
  forallb (fun a => forallb (fun b => match vsel the_key a b with Some _ => true | None => false end) l) l.

(* the values the final one must be at least as good as.  dual.GetValue is
   specified (C15) to return the WAN result when the WAN search succeeds and
   otherwise the LAN result, so it is only compared with the half it came from;
   everything else (single-client searches, the dual merged stream) with
   everything consumed. *)
Definition best_scope : list val :=
  match c_client c, c_op c with
  | CDual, OGet => match supplied true with [] => supplied false | w => w end
  | _, _ => supplied_all
  end.

Definition final_obs : option val :=
  match c_op c with
  | OSearch => get_value (c_stream c)
  | _ => match c_result c with OFound v => Some v | _ => None end
  end.

Definition monitor : bool :=
  match c_op c with
  | OPk =>
      match c_result c with
      | OFoundPk m => m
      | ONotFound | OError =>
          (* not found although the peer or a responder supplied the key *)
          negb (match pk_from_node pk_H pk_keyof 1 (c_node c) with Some _ => true | None => false end)
          && match supplied_all with [] => true | _ => false end
      | OFound _ => false
      end
  | _ =>
      forallb (vvalid the_key) (c_stream c)
      && improving_b (c_stream c)
      && match final_obs with
         | Some f =>
             vvalid the_key f
             && (if sel_total_on supplied_all then forallb (ge_b f) best_scope else true)
         | None => match supplied_all with [] => true | _ => false end
         end
  end.

End Eval.

(* 0: model and implementation agree, the property holds on the observation.
   2: an emitted / returned value is invalid (or a public key does not hash to
      the peer), the stream is not strictly improving, the final value is not
      at least as good as a valid value consumed before the search ended,
      not-found although a valid value was supplied; or the stream / result
      differs from the model's.
   1: only the kind of failure differs (an error instead of not-found), or the
      standard client's search ended before the quorum rule of the model says so. *)
Definition verdict (c : case) : nat :=
  if negb (monitor c) then 2
  else match model_mm c with
       | MOk => if quorum_ok c then 0 else 1
       | MErr | MQuorum => 1
       | MStream | MResult => 2
       end.

Fixpoint verdicts_from (i : nat) (cs : list case) : list (nat * nat) :=
  match cs with
  | [] => []
  | c :: rest => match verdict c with
                 | O => verdicts_from (S i) rest
                 | v => (i, v) :: verdicts_from (S i) rest
                 end
  end.
Definition verdicts := verdicts_from 0.
