(* C12 correspondence glue: the history of admission/eviction events the
   harness caused, with the routing table observed after each action. *)
From Verif.Lib Require Import GoSem.
From Verif.Model Require Export Lookup RtAdmission.
Local Open Scope N_scope.

Record case12 := {
  c_self : id;
  c_may_reject : bool;                    (* small bucket size: the table may refuse a peer (bucket full) *)
  c_rejected : list id;                   (* peers the node's routing-table filter rejects, for good *)
  c_steps : list (list rtev * list id);   (* events of one action; routing table after it *)
  i_panic : bool;
  i_refresh_answered_once : bool }.

Fixpoint ins_N (x : N) (l : list N) : list N :=
  match l with [] => [x] | y :: l' => if N.leb x y then x :: l else y :: ins_N x l' end.
Definition sort_N (l : list N) : list N := fold_right ins_N [] l.
Fixpoint list_eqb (a b : list N) : bool :=
  match a, b with [], [] => true | x :: a', y :: b' => N.eqb x y && list_eqb a' b' | _, _ => false end.

Definition admit_all (_ : list id) (_ : id) : bool := true.   (* K = 20, at most 10 peers: buckets never fill *)

(* model agreement: the table after each action *)
Fixpoint agrees_from (may_reject : bool) (s : rtstate) (steps : list (list rtev * list id)) : bool :=
  match steps with
  | [] => true
  | (evs, snapshot) :: rest =>
      let s' := rt_run admit_all s evs in
      (if may_reject
       then forallb (fun p => memN p (rt s')) snapshot      (* the table is a subset of what an all-admitting table holds *)
       else list_eqb (sort_N (rt s')) (sort_N snapshot))
      && agrees_from may_reject s' rest
  end.

(* the property on the trace: a member of a snapshot proved itself earlier
   (QueryOk or a successful probe of a peer announced as valid) and was not
   evicted since; self never a member *)
Definition rtev_eqb (a b : rtev) : bool :=
  match a, b with
  | PeerChange p v, PeerChange q w => N.eqb p q && Bool.eqb v w
  | ProbeDone p v, ProbeDone q w => N.eqb p q && Bool.eqb v w
  | QueryOk p, QueryOk q => N.eqb p q
  | QueryFail p v, QueryFail q w => N.eqb p q && Bool.eqb v w
  | PingFail p, PingFail q => N.eqb p q
  | PingOk p, PingOk q => N.eqb p q
  | _, _ => false
  end.
Definition evicts (e : rtev) (p : id) : bool :=
  match e with QueryFail q false | PingFail q | PeerChange q false => N.eqb q p | _ => false end.
Definition readmits (e : rtev) (p : id) : bool :=
  match e with QueryOk q | ProbeDone q true => N.eqb q p | _ => false end.

(* scanning the history backwards: the latest event about p that admits or evicts *)
Fixpoint last_verdict (hist_rev : list rtev) (p : id) : option bool :=
  match hist_rev with
  | [] => None
  | e :: r => if readmits e p then Some true else if evicts e p then Some false else last_verdict r p
  end.

Definition ev_peer (e : rtev) : id :=
  match e with PeerChange p _ | ProbeDone p _ | QueryOk p | QueryFail p _ | PingFail p | PingOk p => p end.

(* members proved themselves and were not evicted since; conversely (the table
   never rejects in these runs) a peer that answered and was not evicted since
   is still a member: failures caused by cancellation evict nobody *)
Fixpoint prop_from (may_reject : bool) (hist : list rtev) (self : id) (steps : list (list rtev * list id)) : bool :=
  match steps with
  | [] => true
  | (evs, snapshot) :: rest =>
      let h := hist ++ evs in
      forallb (fun p => negb (N.eqb p self) &&
                        match last_verdict (rev h) p with Some true => true | _ => false end) snapshot
      && (may_reject ||
          forallb (fun e => match last_verdict (rev h) (ev_peer e) with
                            | Some true => memN (ev_peer e) snapshot
                            | _ => true
                            end) h)
      && prop_from may_reject h self rest
  end.

(* a peer the routing-table filter rejects can only be a member because it answered a lookup
   query (which the filter does not concern) since it was last evicted - never through the
   admission probe *)
Fixpoint query_admitted (hist_rev : list rtev) (p : id) : bool :=
  match hist_rev with
  | [] => false
  | e :: r =>
      match e with
      | QueryOk q => if N.eqb q p then true else query_admitted r p
      | _ => if evicts e p then false else query_admitted r p
      end
  end.
Fixpoint filter_from (rejected : list id) (hist : list rtev) (steps : list (list rtev * list id)) : bool :=
  match steps with
  | [] => true
  | (evs, snapshot) :: rest =>
      let h := hist ++ evs in
      forallb (fun p => negb (memN p rejected) || query_admitted (rev h) p) snapshot
      && filter_from rejected h rest
  end.
Definition filter_ok (c : case12) : bool := filter_from (c_rejected c) [] (c_steps c).

Definition c12_prop_ok (c : case12) : bool :=
  negb (i_panic c) && i_refresh_answered_once c && filter_ok c &&
  prop_from (c_may_reject c) [] (c_self c) (c_steps c).
Definition c12_agrees (c : case12) : bool :=
  agrees_from (c_may_reject c) {| rt := []; probing := []; capacity := 256 |} (c_steps c).

Definition verdict (c : case12) : nat := if negb (c12_prop_ok c) then 2 else if c12_agrees c then 0 else 1.
Fixpoint verdicts_from (i : nat) (cs : list case12) : list (nat * nat) :=
  match cs with
  | [] => []
  | c :: rest => match verdict c with O => verdicts_from (S i) rest | v => (i, v) :: verdicts_from (S i) rest end
  end.
Definition verdicts := verdicts_from 0.
