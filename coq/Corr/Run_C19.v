(* Executable observation functions for the C19 correspondence check. *)
From Verif.Lib Require Import GoSem Bits.
From Verif.Model Require Import PrefixQueue ProvideQueue.

Inductive op :=
| OEnq (p : bits) (ks : list qkey)
| ODeq
| ODeqM (p : bits)
| ORemove (ks : list qkey)
| OClear
| ORestart            (* Persist into the datastore, DrainDatastore into a fresh queue *)
| OPersist            (* Persist into the datastore (which may hold an older snapshot) *)
| ODrain              (* restart without persisting: a fresh queue drains whatever the datastore holds *)
(* ReprovideQueue *)
| REnq (ps : list bits)
| RDeq
| RRemove (p : bits)
| RClear.

(* what the harness records after each operation *)
Inductive obs :=
| BPanic
| BNone                                   (* op without result / empty dequeue *)
| BPref (p : bits) (ids : list N)         (* Dequeue: prefix and sorted key ids *)
| BIds (ids : list N)                     (* DequeueMatching: sorted key ids *)
| BNum (n : nat)                          (* Clear count, rows left after drain *)
| BBool (b : bool).

Record step_obs := { so_res : obs; so_size : nat; so_regions : nat }.

Fixpoint ins_N (x : N) (l : list N) : list N :=
  match l with
  | [] => [x]
  | y :: l' => if N.leb x y then x :: l else y :: ins_N x l'
  end.
Definition sort_N (l : list N) : list N := fold_right ins_N [] l.
Definition ids_of (ks : list qkey) : list N := sort_N (map kid ks).

(* [s_ds]: the rows of the datastore the queue persists to; Persist replaces them all *)
Record st := { s_pv : pvq; s_rq : pq; s_ds : list row }.
Definition st0 : st := {| s_pv := pvq_empty; s_rq := pq_empty; s_ds := [] |}.

Definition step (s : st) (o : op) : res (st * obs) :=
  match o with
  | OEnq p ks => q <- enqueue (s_pv s) p ks ;; Ok ({| s_pv := q; s_rq := s_rq s; s_ds := s_ds s |}, BNone)
  | ODeq =>
      match dequeue (s_pv s) with
      | (q, None) => Ok ({| s_pv := q; s_rq := s_rq s; s_ds := s_ds s |}, BNone)
      | (q, Some (p, ks)) => Ok ({| s_pv := q; s_rq := s_rq s; s_ds := s_ds s |}, BPref p (ids_of ks))
      end
  | ODeqM p => r <- dequeue_matching (s_pv s) p ;;
               Ok ({| s_pv := fst r; s_rq := s_rq s; s_ds := s_ds s |}, BIds (ids_of (snd r)))
  | ORemove ks => q <- remove_keys (s_pv s) ks ;; Ok ({| s_pv := q; s_rq := s_rq s; s_ds := s_ds s |}, BNone)
  | OClear => let (q, n) := pvq_clear (s_pv s) in Ok ({| s_pv := q; s_rq := s_rq s; s_ds := s_ds s |}, BNum n)
  | ORestart => r <- drain pvq_empty (persist (s_pv s)) ;;
                Ok ({| s_pv := fst r; s_rq := s_rq s; s_ds := snd r |}, BNum (length (snd r)))
  | OPersist => Ok ({| s_pv := s_pv s; s_rq := s_rq s; s_ds := persist (s_pv s) |}, BNum (length (persist (s_pv s))))
  | ODrain => r <- drain pvq_empty (s_ds s) ;;
              Ok ({| s_pv := fst r; s_rq := s_rq s; s_ds := snd r |}, BNum (length (snd r)))
  | REnq ps => q <- push (s_rq s) ps ;; Ok ({| s_pv := s_pv s; s_rq := q; s_ds := s_ds s |}, BNone)
  | RDeq => match pop (s_rq s) with
            | (q, None) => Ok ({| s_pv := s_pv s; s_rq := q; s_ds := s_ds s |}, BNone)
            | (q, Some p) => Ok ({| s_pv := s_pv s; s_rq := q; s_ds := s_ds s |}, BPref p [])
            end
  | RRemove p => r <- pq_remove (s_rq s) p ;; Ok ({| s_pv := s_pv s; s_rq := fst r; s_ds := s_ds s |}, BBool (snd r))
  | RClear => let (q, n) := pq_clear (s_rq s) in Ok ({| s_pv := s_pv s; s_rq := q; s_ds := s_ds s |}, BNum n)
  end.

Definition is_reprovide_op (o : op) : bool :=
  match o with REnq _ | RDeq | RRemove _ | RClear => true | _ => false end.

Definition observe (s : st) (o : op) (b : obs) : step_obs :=
  if is_reprovide_op o
  then {| so_res := b; so_size := pq_size (s_rq s); so_regions := 0 |}
  else {| so_res := b; so_size := pvq_size (s_pv s); so_regions := pvq_regions (s_pv s) |}.

Fixpoint run (s : st) (ops : list op) : list step_obs :=
  match ops with
  | [] => []
  | o :: rest =>
      match step s o with
      | Ok (s', b) => observe s' o b :: run s' rest
      | _ => [{| so_res := BPanic; so_size := 0; so_regions := 0 |}]
      end
  end.

Fixpoint list_eqb {A} (eq : A -> A -> bool) (a b : list A) : bool :=
  match a, b with
  | [], [] => true
  | x :: a', y :: b' => eq x y && list_eqb eq a' b'
  | _, _ => false
  end.

Definition obs_eqb (a b : obs) : bool :=
  match a, b with
  | BPanic, BPanic => true
  | BNone, BNone => true
  | BPref p i, BPref q j => bits_eqb p q && list_eqb N.eqb i j
  | BIds i, BIds j => list_eqb N.eqb i j
  | BNum n, BNum m => Nat.eqb n m
  | BBool x, BBool y => Bool.eqb x y
  | _, _ => false
  end.
Definition step_obs_eqb (a b : step_obs) : bool :=
  obs_eqb (so_res a) (so_res b) && Nat.eqb (so_size a) (so_size b)
  && Nat.eqb (so_regions a) (so_regions b).

Record case := { c_ops : list op; c_impl : list step_obs }.

(* 0 = agrees, 2 = the implementation's trace differs from the proved model on an
   observable the property speaks about (every C19 observable is one). *)
Definition verdict (c : case) : nat :=
  if list_eqb step_obs_eqb (run st0 (c_ops c)) (c_impl c) then 0 else 2.

Fixpoint verdicts_from (i : nat) (cs : list case) : list (nat * nat) :=
  match cs with
  | [] => []
  | c :: rest => match verdict c with
                 | O => verdicts_from (S i) rest
                 | v => (i, v) :: verdicts_from (S i) rest
                 end
  end.
Definition verdicts := verdicts_from 0.

(* branch statistics used for the evidence: which model branches a case reached *)
Definition k (w : nat) (v : N) (i : N) : qkey := {| kbits := kb w v; kid := i |}.
