(* Executable observation functions for the C20 correspondence check. *)
From Verif.Lib Require Import GoSem Bits.
From Verif.Model Require Export Keystore ResetKeystore.

(* number of leading identifier bits the harness hands over *)
Definition keyW : nat := 20.
(* The remaining 236 bits of an identifier are not handed over.  They only matter to a
   query whose prefix is longer than keyW, and the only such query the harness makes is the
   complete identifier of a pool key; distinct keys have distinct identifiers (sha256, checked
   per pool), so for exactly these queries the tail can be represented by the key's identity. *)
Definition idW : nat := 16.
Definition mk (v : N) (i : N) : mhk := {| mbits := kb keyW v ++ kb idW i; mid := i |}.
Definition fullp (v : N) (i : N) : bits := kb keyW v ++ kb idW i.

(* ---- part 1: plain keystore -------------------------------------------- *)
Inductive op :=
| OPut (ks : list mhk) (f : fault)
| ODel (ks : list mhk) (f : fault)
| OEmpty (f : fault)
| OGet (p : bits)
| OCount (p : bits) (limit : Z)
| OContains (p : bits)
| ORestart              (* Close, then NewKeystore on the same datastore *)
| OCrash (back : nat).  (* the last [back] journal entries are lost, then NewKeystore *)

Inductive obs :=
| BErr
| BNone
| BKeys (ids : list N)     (* sorted identities *)
| BNum (z : Z)
| BBool (b : bool).

Record step_obs := { so_res : obs; so_size : Z }.

Fixpoint ins_N (x : N) (l : list N) : list N :=
  match l with
  | [] => [x]
  | y :: l' => if N.leb x y then x :: l else y :: ins_N x l'
  end.
Definition sort_N (l : list N) : list N := fold_right ins_N [] l.

Definition unknown_id : N := 999999.
Definition val_id (v : sval) : N := match v with VKey k => mid k | VSize _ => unknown_id end.

Definition step (pb bs : nat) (s : kst) (o : op) : kst * obs :=
  match o with
  | OPut ks f => match ks_put pb s ks f with
                 | (s', Some nw) => (s', BKeys (sort_N (map mid nw)))
                 | (s', None) => (s', BErr)
                 end
  | ODel ks f => match ks_delete pb s ks f with
                 | (s', true) => (s', BNone)
                 | (s', false) => (s', BErr)
                 end
  | OEmpty f => match ks_empty bs s f with
                | (s', true) => (s', BNone)
                | (s', false) => (s', BErr)
                end
  | OGet p => (s, match ks_get pb s p with Some vs => BKeys (sort_N (map val_id vs)) | None => BErr end)
  | OCount p l => (s, match ks_count pb s p l with Some n => BNum n | None => BErr end)
  | OContains p => (s, match ks_contains pb s p with Some b => BBool b | None => BErr end)
  | ORestart => (ks_restart s, BNone)
  | OCrash back => (ks_crash s back, BNone)
  end.

Fixpoint run (pb bs : nat) (s : kst) (ops : list op) : list step_obs :=
  match ops with
  | [] => []
  | o :: rest =>
      let (s', b) := step pb bs s o in
      {| so_res := b; so_size := k_size s' |} :: run pb bs s' rest
  end.

Fixpoint list_eqb {A} (eq : A -> A -> bool) (a b : list A) : bool :=
  match a, b with
  | [], [] => true
  | x :: a', y :: b' => eq x y && list_eqb eq a' b'
  | _, _ => false
  end.

Definition obs_eqb (a b : obs) : bool :=
  match a, b with
  | BErr, BErr => true
  | BNone, BNone => true
  | BKeys i, BKeys j => list_eqb N.eqb i j
  | BNum n, BNum m => Z.eqb n m
  | BBool x, BBool y => Bool.eqb x y
  | _, _ => false
  end.
Definition step_obs_eqb (a b : step_obs) : bool :=
  obs_eqb (so_res a) (so_res b) && Z.eqb (so_size a) (so_size b).

Record pcase := { p_pb : nat; p_bs : nat; p_ops : list op; p_impl : list step_obs }.

(* ---- the property itself, evaluated on the implementation's trace --------
   An executable set specification, independent of the model above: the stored
   set [S] (None = not determined: after an operation that returned an error,
   or after a crash that lost writes, until the next Get "" tells), what every
   operation must return, and Size = |S| after every step.  The result is the
   index and the kind of the first deviation. *)
Definition has_id (i : N) (l : list mhk) : bool := existsb (fun k => N.eqb (mid k) i) l.
Fixpoint dedup_ids (l : list mhk) (seen : list N) : list mhk :=
  match l with
  | [] => []
  | k :: r => if mem_N (mid k) seen then dedup_ids r seen else k :: dedup_ids r (mid k :: seen)
  end.
Definition set_add (s ks : list mhk) : list mhk :=
  s ++ dedup_ids (filter (fun k => negb (has_id (mid k) s)) ks) [].
Definition set_del (s ks : list mhk) : list mhk := filter (fun k => negb (has_id (mid k) ks)) s.
Definition ids_sorted (l : list mhk) : list N := sort_N (map mid l).
Definition lookup_ids (dict : list mhk) (ids : list N) : list mhk :=
  dedup_ids (filter (fun k => mem_N (mid k) ids) dict) [].

Record sst := { sp_set : option (list mhk); sp_dict : list mhk; sp_code : nat }.


Definition spec_step (st : sst) (o : op) (ob : step_obs) : sst :=
  let dict := match o with OPut ks _ | ODel ks _ => sp_dict st ++ ks | _ => sp_dict st end in
  (* (new set, deviation of the result) *)
  let '(s', bad) :=
    match o, so_res ob with
    | OPut ks _, BErr => (None, false)
    | OPut ks _, BKeys r =>
        match sp_set st with
        | Some s => (Some (set_add s ks),
                     negb (list_eqb N.eqb r (ids_sorted (dedup_ids (filter (fun k => negb (has_id (mid k) s)) ks) []))))
        | None => (None, false)
        end
    | ODel ks _, BErr => (None, false)
    | ODel ks _, BNone => (match sp_set st with Some s => Some (set_del s ks) | None => None end, false)
    | OEmpty _, BErr => (None, false)
    | OEmpty _, BNone => (Some [], false)
    | OGet p, BKeys r =>
        match sp_set st with
        | Some s => (Some s, negb (list_eqb N.eqb r (ids_sorted (filter (under p) s))))
        | None => match p with
                  | [] => (Some (lookup_ids dict r), negb (Nat.eqb (length (lookup_ids dict r)) (length r)))
                  | _ => (None, false)
                  end
        end
    | OCount p l, BNum n =>
        match sp_set st with
        | Some s => let m := Z.of_nat (length (filter (under p) s)) in
                    (Some s, negb (Z.eqb n (if (0 <? l)%Z then Z.min l m else m)))
        | None => (None, false)
        end
    | OContains p, BBool b =>
        match sp_set st with
        | Some s => (Some s, negb (Bool.eqb b (existsb (under p) s)))
        | None => (None, false)
        end
    | ORestart, BNone => (sp_set st, false)
    | OCrash back, BNone => (match back with O => sp_set st | _ => None end, false)
    | _, _ => (sp_set st, true)   (* a result of the wrong shape *)
    end in
  let bad_size := match s' with
                  | Some s => negb (Z.eqb (so_size ob) (Z.of_nat (length s)))
                  | None => false
                  end in
  {| sp_set := s'; sp_dict := dict; sp_code := if Nat.eqb (sp_code st) 0 then (if bad || bad_size then 2 else 0) else sp_code st |}.

Fixpoint spec_run (st : sst) (ops : list op) (obs : list step_obs) : nat :=
  match ops, obs with
  | o :: ops', ob :: obs' => spec_run (spec_step st o ob) ops' obs'
  | [], [] => sp_code st
  | _, _ => 2
  end.
Definition spec_verdict (c : pcase) : nat :=
  spec_run {| sp_set := Some []; sp_dict := []; sp_code := 0 |} (p_ops c) (p_impl c).

(* ---- part 2: resettable keystore ---------------------------------------- *)
Definition dk (pb : nat) (v i : N) : skey := dkey pb (mk v i).

Record rcase := {
  q_pb : nat;
  q_evs : list revent;                 (* the events the real run went through *)
  q_putres : list (list N);            (* result of every acknowledged Put, in order *)
  q_live : option (Z * list N);        (* Size and Get "" of the live keystore at the end *)
  q_crash : list (list N * Z) }.       (* keys and Size of a keystore reopened on every journal prefix *)

Fixpoint rrun_obs (pb : nat) (s : rst) (evs : list revent) : option (rst * list (list N)) :=
  match evs with
  | [] => Some (s, [])
  | e :: rest =>
      match rstep pb s e with
      | None => None
      | Some s' =>
          match rrun_obs pb s' rest with
          | None => None
          | Some (sf, obs) =>
              match e, r_wk s with
              | EPutSync, Some (_, Some nw) => Some (sf, sort_N (map mid nw) :: obs)
              | _, _ => Some (sf, obs)
              end
          end
      end
  end.

Definition reopen_obs (j : list gentry) (n : nat) : list N * Z :=
  let j' := firstn n j in (sort_N (map mid (reopen_keys j')), reopen_size j').

Definition pair_eqb (a b : list N * Z) : bool := list_eqb N.eqb (fst a) (fst b) && Z.eqb (snd a) (snd b).

Definition rverdict (c : rcase) : nat :=
  match rrun_obs (q_pb c) (ropen []) (q_evs c) with
  | None => 2
  | Some (s, res) =>
      let ok_res := list_eqb (list_eqb N.eqb) res (q_putres c) in
      let ok_live := match q_live c with
                     | None => true
                     | Some (z, ids) => Z.eqb z (r_size s) && list_eqb N.eqb ids (sort_N (map mid (keys_of (primary s))))
                     end in
      let ok_crash := list_eqb pair_eqb (map (reopen_obs (r_j s)) (seq 0 (S (length (r_j s))))) (q_crash c) in
      if ok_res && ok_live && ok_crash then 0 else 2
  end.

Inductive case := CaseP (c : pcase) | CaseR (c : rcase) | CaseSkip.

(* 0 = the trace meets the set specification and agrees with the model;
   1 = it meets the specification but differs from the model (only possible on
       operations with an injected failure, whose effect the property leaves open);
   2 = the property fails on the trace (specification violated, or the trace
       differs from the proved model where the specification says nothing). *)
Definition verdict (c : case) : nat :=
  match c with
  | CaseP c =>
      match spec_verdict c with
      | O => if list_eqb step_obs_eqb (run (p_pb c) (p_bs c) ks_new (p_ops c)) (p_impl c) then 0 else 1
      | v => v
      end
  | CaseR c => rverdict c
  | CaseSkip => 0
  end.

Fixpoint verdicts_from (i : nat) (cs : list case) : list (nat * nat) :=
  match cs with
  | [] => []
  | c :: rest => match verdict c with
                 | O => verdicts_from (S i) rest
                 | v => (i, v) :: verdicts_from (S i) rest
                 end
  end.
Definition verdicts := verdicts_from 0.
