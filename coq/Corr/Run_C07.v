(* Executable glue for the C07 correspondence check.

   The harness drives the real ProviderManager through its public API inside a
   testing/synctest bubble: AddProvider, GetProviders, time.Sleep (virtual time),
   Close, and "restart" (Close + NewProviderManager on the same datastore).  The
   background sweep is the real gcLoop on the real ticker: a sleep that crosses
   tick instants (manager start + i * cleanupInterval) is expanded here into
   Advance / Gc / Advance ... steps of the model.  Times are nanoseconds since
   the start of the bubble. *)
From Verif.Lib Require Import GoSem Bits.
From Verif.Model Require Import Providers.
From Verif.Corr Require Export Run_C07Close.   (* the concurrent (Close fence) cases *)
Local Open Scope N_scope.

Inductive hop :=
| HAdd (k : key) (p : peer)
| HGet (k : key)
| HSleep (d : N)
| HRestart
| HClose.

(* what the harness records for an operation *)
Inductive iobs :=
| IPanic
| INone                      (* sleep / restart / close *)
| IOk                        (* AddProvider returned nil *)
| IClosed                    (* ErrClosed *)
| IOther                     (* any other error *)
| IProvs (ps : list N).      (* GetProviders: peer ids, sorted, duplicates kept *)

Record step_obs := { so_res : iobs;
                     so_rows : list (N * N * option N);  (* datastore rows after the op, sorted by (key, peer) *)
                     so_late : bool }.                   (* the op ran on a closed manager and the datastore journal grew *)

Record scase := { c_cap : nat; c_validity : N; c_interval : N; c_garbage : list (key * peer);
                 c_ops : list hop; c_impl : list step_obs }.

(* ---- sorting ------------------------------------------------------------- *)
Fixpoint ins_N (x : N) (l : list N) : list N :=
  match l with
  | [] => [x]
  | y :: l' => if N.leb x y then x :: l else y :: ins_N x l'
  end.
Definition sort_N (l : list N) : list N := fold_right ins_N [] l.

Definition row3 := (N * N * option N)%type.
Definition row_leb (a b : row3) : bool :=
  let '(ka, pa, _) := a in let '(kb, pb, _) := b in
  N.ltb ka kb || (N.eqb ka kb && N.leb pa pb).
Fixpoint ins_row (x : row3) (l : list row3) : list row3 :=
  match l with
  | [] => [x]
  | y :: l' => if row_leb x y then x :: l else y :: ins_row x l'
  end.
Definition sort_rows (l : list row3) : list row3 := fold_right ins_row [] l.
Definition rows_of_disk (d : list row) : list row3 :=
  sort_rows (map (fun r => (r_key r, r_peer r, r_val r)) d).

Fixpoint list_eqb {A} (eq : A -> A -> bool) (a b : list A) : bool :=
  match a, b with
  | [], [] => true
  | x :: a', y :: b' => eq x y && list_eqb eq a' b'
  | _, _ => false
  end.
Definition optN_eqb (a b : option N) : bool :=
  match a, b with Some x, Some y => N.eqb x y | None, None => true | _, _ => false end.
Definition row3_eqb (a b : row3) : bool :=
  let '(ka, pa, va) := a in let '(kb, pb, vb) := b in N.eqb ka kb && N.eqb pa pb && optN_eqb va vb.
Definition iobs_eqb (a b : iobs) : bool :=
  match a, b with
  | IPanic, IPanic | INone, INone | IOk, IOk | IClosed, IClosed | IOther, IOther => true
  | IProvs x, IProvs y => list_eqb N.eqb x y
  | _, _ => false
  end.
Definition step_obs_eqb (a b : step_obs) : bool :=
  iobs_eqb (so_res a) (so_res b) && list_eqb row3_eqb (so_rows a) (so_rows b) && Bool.eqb (so_late a) (so_late b).

(* ---- expansion of a harness operation into model operations ---------------- *)
(* [tick]: instant of the next tick of the sweep ticker, None when there is no
   running ticker (interval <= 0, or manager closed). *)
Fixpoint expand_sleep (fuel : nat) (I nw : N) (tick : option N) (target : N) : list op * option N :=
  match fuel with
  | O => ([Advance (target - nw)], tick)
  | S f =>
      match tick with
      | Some tk =>
          if N.leb tk target
          then let (ops, tk') := expand_sleep f I tk (Some (tk + I)) target in
               (Advance (tk - nw) :: Gc :: ops, tk')
          else ([Advance (target - nw)], tick)
      | None => ([Advance (target - nw)], None)
      end
  end.

Definition new_tick (I nw : N) : option N := if N.eqb I 0 then None else Some (nw + I).

Definition expand (I nw : N) (tick : option N) (h : hop) : list op * option N :=
  match h with
  | HAdd k p => ([Add k p], tick)
  | HGet k => ([Get k], tick)
  | HSleep d => expand_sleep (if N.eqb I 0 then 0 else N.to_nat (d / I) + 2)%nat I nw tick (nw + d)
  | HRestart => ([Restart], new_tick I nw)
  | HClose => ([Close], None)
  end.

Definition to_iobs (r : result) : iobs :=
  match r with
  | RNone => INone
  | ROk => IOk
  | RClosed => IClosed
  | RProvs ps => IProvs (sort_N ps)
  end.

(* result of the last model operation of the expansion (the expansion of Add /
   Get / Restart / Close is one operation; a sleep has no result) *)
Fixpoint run_last (c : cfg) (s : pm) (ops : list op) (r : result) : pm * result :=
  match ops with
  | [] => (s, r)
  | o :: rest => let (s', r') := step c s o in run_last c s' rest r'
  end.

(* ---- the property, evaluated on the implementation's observations ----------- *)
Definition hop_peers (h : hop) : list N := match h with HAdd _ p => [p] | _ => [] end.
Definition hop_pairs (h : hop) : list (N * N) := match h with HAdd k p => [(k, p)] | _ => [] end.

Definition find_row (k p : N) (rows : list row3) : option (option N) :=
  match find (fun r : row3 => let '(k', p', _) := r in N.eqb k' k && N.eqb p' p) rows with
  | Some (_, _, v) => Some v
  | None => None
  end.

(* the datastore holds every record that is still valid, with the time of its
   most recent addition, and no decodable row that is not such an addition *)
Definition rows_ok (c : cfg) (sp : spec) (pairs : list (N * N)) (rows : list row3) : bool :=
  forallb (fun r : row3 => match r with
                    | (k, p, Some t) => optN_eqb (sp_last sp k p) (Some t)
                    | (_, _, None) => true
                    end) rows &&
  forallb (fun kp : N * N => let (k, p) := kp in
                     if spec_serves c sp k p
                     then match find_row k p rows with
                          | Some v => optN_eqb v (sp_last sp k p)
                          | None => false
                          end
                     else true) pairs.

Definition res_ok (c : cfg) (sp_before sp_after : spec) (peers : list N) (h : hop) (o : iobs) : bool :=
  match h with
  | HGet k => if sp_stopped sp_before then iobs_eqb o IClosed
              else iobs_eqb o (IProvs (filter (spec_serves c sp_after k) peers))
  | HAdd _ _ => if sp_stopped sp_before then iobs_eqb o IClosed else iobs_eqb o IOk
  | _ => iobs_eqb o INone
  end.

(* ---- one case ---------------------------------------------------------------- *)
Fixpoint go (c : cfg) (I : N) (peers : list N) (pairs : list (N * N))
            (s : pm) (sp : spec) (tick : option N) (hs : list hop) (impl : list step_obs)
  : bool * bool :=   (* (property holds on the implementation's trace, model = implementation) *)
  match hs, impl with
  | [], [] => (true, true)
  | h :: hs', io :: impl' =>
      let (ops, tick') := expand I (now s) tick h in
      let (s', r) := run_last c s ops RNone in
      let sp' := spec_run sp ops in
      let mo := {| so_res := to_iobs r; so_rows := rows_of_disk (disk s'); so_late := false |} in
      let p1 := res_ok c sp sp' peers h (so_res io) && rows_ok c sp' pairs (so_rows io) && negb (so_late io) in
      let m1 := step_obs_eqb mo io in
      let (p2, m2) := go c I peers pairs s' sp' tick' hs' impl' in
      (p1 && p2, m1 && m2)
  | _, _ => (false, false)    (* trace of another length: the implementation stopped early (panic) *)
  end.

Fixpoint dedup_N (l : list N) : list N :=   (* on a sorted list *)
  match l with
  | x :: ((y :: _) as l') => if N.eqb x y then dedup_N l' else x :: dedup_N l'
  | _ => l
  end.

Definition check (cs : scase) : bool * bool :=
  let c := {| cap := c_cap cs; validity := c_validity cs |} in
  let peers := dedup_N (sort_N (flat_map hop_peers (c_ops cs))) in
  let pairs := flat_map hop_pairs (c_ops cs) in
  go c (c_interval cs) peers pairs (init 0 (c_garbage cs)) (spec0 0) (new_tick (c_interval cs) 0)
     (c_ops cs) (c_impl cs).

(* 0 = model and implementation agree and the property holds on the trace;
   1 = they differ only outside the property (e.g. which expired rows are still on disk);
   2 = the property fails on the implementation's trace *)
Definition sverdict (cs : scase) : nat :=
  match check cs with
  | (true, true) => 0
  | (true, false) => 1
  | (false, _) => 2
  end.

(* a case is a sequential history (above) or a concurrent run on a gated
   datastore (Run_C07Close.v) *)
Inductive case := CSeq (c : scase) | CConc (c : ccase).
Definition verdict (cs : case) : nat :=
  match cs with CSeq c => sverdict c | CConc c => cverdict c end.

Fixpoint verdicts_from (i : nat) (cs : list case) : list (nat * nat) :=
  match cs with
  | [] => []
  | c :: rest => match verdict c with
                 | O => verdicts_from (S i) rest
                 | v => (i, v) :: verdicts_from (S i) rest
                 end
  end.
Definition verdicts := verdicts_from 0%nat.
