(* C14 correspondence glue.  A case is the abstract event list of one run of the
   real code (harness/*/c14_test.go, harness/c14lib): constructor outcome,
   operations begun and ended, Close called / returned by two threads with the
   goroutines of repository code that were still alive (blocked) at the first
   quiescent point after each return, and the end of the case.

   Every observed goroutine is mapped through the REGENERATED inventory
   (Gen/Goroutines.v: by the line of its `go` statement, else by the line range
   of the function it runs) to a start site and through Model/Lifecycle.v's
   table to a class; the model then says whether Close of the component under
   test awaits that class. *)
From Verif.Lib Require Import GoSem.
From Verif.Gen Require Import Goroutines.
From Verif.Model Require Export Lifecycle.
Local Open Scope string_scope.

Record gobs := { go_file : string; go_created : N; go_entry : N }.
Inductive opres := RVal | RErr | RClosed | RCtx | RPanic.
Inductive tev :=
| TCtor (ok : bool)
| TCtorPanic
| TOpBegin (i : nat)
| TOpEnd (i : nat) (r : opres)
| TCloseCall (t : nat)
| TCloseRet (t : nat) (live : list gobs)
| TClosePanic (t : nat)
| TEnd (live : list gobs) (hung : nat) (leak : bool).
Record case := { c_comp : comp; c_cfg : nat; c_trace : list tev }.

(* ---- observed goroutine -> start site -> class --------------------------------------------------- *)
Definition by_created (g : gobs) (s : gsite) : bool :=
  String.eqb (go_file g) (gs_file s) && negb (N.eqb (go_created g) 0) && N.eqb (go_created g) (gs_line s).
Definition by_body (g : gobs) (s : gsite) : bool :=
  String.eqb (go_file g) (gs_file s) && negb (N.eqb (gs_body_lo s) 0) &&
  N.leb (gs_body_lo s) (go_entry g) && N.leb (go_entry g) (gs_body_hi s).
Definition span (s : gsite) : N := gs_body_hi s - gs_body_lo s.
(* innermost enclosing body *)
Fixpoint best_body (g : gobs) (l : list gsite) (best : option gsite) : option gsite :=
  match l with
  | [] => best
  | s :: r =>
      if by_body g s
      then best_body g r (match best with
                          | Some b => if N.ltb (span s) (span b) then Some s else best
                          | None => Some s
                          end)
      else best_body g r best
  end.
Definition find_site (g : gobs) : option gsite :=
  match find (by_created g) sites with
  | Some s => Some s
  | None => best_body g sites None
  end.
Definition obs_class (g : gobs) : option gclass :=
  match find_site g with Some s => site_class s | None => None end.

Definition mem_class (c : gclass) (l : list gclass) : bool := existsb (gclass_eqb c) l.

(* own keystore: bit 0 of the configuration of the provider cases *)
Definition own_ks (c : case) : bool :=
  match c_comp c with CProvider | CProvDual => Nat.odd (c_cfg c) | _ => false end.

(* a live goroutine is acceptable after Close has returned iff it is known to the inventory and of a class
   the component's Close does not have to await *)
Definition live_ok (c : case) (g : gobs) : bool :=
  match obs_class g with
  | Some k => negb (mem_class k (awaited (c_comp c) (own_ks c)))
  | None => false
  end.

(* ---- the property on the trace ----------------------------------------------------------------------- *)
Definition ev_ok (c : case) (e : tev) : bool :=
  match e with
  | TCtorPanic | TClosePanic _ => false
  | TOpEnd _ RPanic => false
  | TCloseRet _ live => forallb (live_ok c) live
  | TEnd live hung leak => match live with [] => true | _ => false end && Nat.eqb hung 0 && negb leak
  | _ => true
  end.
Definition has_end (l : list tev) : bool := existsb (fun e => match e with TEnd _ _ _ => true | _ => false end) l.
Definition prop_ok (c : case) : bool := forallb (ev_ok c) (c_trace c) && has_end (c_trace c).

(* ---- what the model predicts beyond the property: operations on a closed instance ---------------------- *)
Definition fenced (k : comp) : bool :=
  match k with CKeystore | CResettable | CProvMgr | CProvider | CProvDual => true | _ => false end.
(* the harness numbers the operations it starts on the closed instance (after both Close calls have
   returned) from 1000: on a fenced component they must not succeed *)
Definition agrees (c : case) : bool :=
  if fenced (c_comp c) then
    forallb (fun e => match e with
                      | TOpEnd i RVal => Nat.ltb i 1000
                      | _ => true
                      end) (c_trace c)
  else true.

(* 0: the trace satisfies the property and the model's prediction; 1: only the prediction about calls on a
   closed instance differs; 2: the property fails on the trace. *)
Definition verdict (c : case) : nat := if negb (prop_ok c) then 2 else if agrees c then 0 else 1.

Fixpoint verdicts_from (i : nat) (cs : list case) : list (nat * nat) :=
  match cs with
  | [] => []
  | c :: rest => match verdict c with
                 | O => verdicts_from (S i) rest
                 | v => (i, v) :: verdicts_from (S i) rest
                 end
  end.
Definition verdicts := verdicts_from 0.
