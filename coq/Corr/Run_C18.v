(* Executable glue for the C18 correspondence check.

   A case is: two tries as dumped from the Go process after a build script ran on the real
   go-libdht trie ([c_s0], [c_s1]; [None] = the build panicked), the build scripts themselves
   (replayed on the model trie of Model/Trie.v), and a list of queries, each with the
   observation recorded from the real keyspace function.

   Per query:
     - [spec_ok q s0 s1 o] evaluates the SET-THEORETIC definition (over [entries] of the dumped
       tries, no trie algorithm involved) on the implementation's observation; [None] when the
       inputs are outside the documented preconditions (the definition is silent);
     - [model_obs q s0 s1] runs the Gallina transcription (Model/Keyspace.v) on the same input.
   Verdict of a query: 2 if the definition is violated by the implementation's result;
   else 1 if the transcription and the implementation differ; else 0.
   Verdict of a case: the maximum over its queries and the build comparison (1 when the model
   trie and the real trie differ in shape). *)
From Verif.Lib Require Import GoSem Bits.
From Verif.Model Require Export Trie.
From Verif.Model Require Import Keyspace.

Definition T := trie N.
Definition ent := (bits * N)%type.

Inductive bop :=
| BAdd (k : bits) (id : N)
| BAddMany (es : list ent)
| BRemove (k : bits)
| BPrune (k : bits).

Inductive query :=
| QKeys (order : bits)
| QFindPrefix (k : bits)
| QFindSubtrie (k : bits)
| QNext (k order : bits)
| QPrune (k : bits)
| QCoalesce
| QSubtract                                   (* s0 - s1 *)
| QGaps (target order : bits)
| QCovered
| QAlloc (r : nat)                            (* items = s0, dests = s1 *)
| QRegions (peers : list ent) (sz : nat) (order covered : bits)
| QAssign (rs : list bits) (keys : list ent)
| QSCP (target : bits) (sorted : list ent) (swarm : list ent)
| QSiblings (k : bits)
| QExtend (p : bits) (n : Z)
| QFlip (k : bits)
| QFirstFull (k order : bits)
| QIsPrefix (a b : bits)
| QKeyToBytes (k : bits)
| QSort (l : list bits) (order : bits).

Inductive obs :=
| OPanic
| OKeys (l : list bits)
| OKeyOk (k : bits) (ok : bool)
| OTrieOk (t : T) (ok : bool)
| OEntry (e : option ent)
| OTrie (t : T)
| OBool (b : bool)
| OAlloc (l : list (N * list N))              (* per destination, ascending; sorted item ids *)
| ORegions (l : list (bits * list N))         (* in the order returned; sorted ids *)
| OSCP (p : bits) (ids : list N)              (* sorted ids *)
| ONums (l : list N).

Record case := { c_b0 : list bop; c_s0 : option T;
                 c_b1 : list bop; c_s1 : option T;
                 c_qs : list (query * obs) }.

(* ---- equality tests ------------------------------------------------------ *)
Fixpoint list_eqb {A} (eq : A -> A -> bool) (a b : list A) : bool :=
  match a, b with
  | [], [] => true
  | x :: a', y :: b' => eq x y && list_eqb eq a' b'
  | _, _ => false
  end.
Definition ent_eqb (a b : ent) : bool := bits_eqb (fst a) (fst b) && N.eqb (snd a) (snd b).
Fixpoint trie_eqb (a b : T) : bool :=
  match a, b with
  | E, E => true
  | L k d, L k' d' => bits_eqb k k' && N.eqb d d'
  | Nd a0 a1, Nd b0 b1 => trie_eqb a0 b0 && trie_eqb a1 b1
  | _, _ => false
  end.
Definition opt_eqb {A} (eq : A -> A -> bool) (a b : option A) : bool :=
  match a, b with
  | None, None => true
  | Some x, Some y => eq x y
  | _, _ => false
  end.
Definition obs_eqb (a b : obs) : bool :=
  match a, b with
  | OPanic, OPanic => true
  | OKeys l, OKeys l' => list_eqb bits_eqb l l'
  | OKeyOk k ok, OKeyOk k' ok' => bits_eqb k k' && Bool.eqb ok ok'
  | OTrieOk t ok, OTrieOk t' ok' => trie_eqb t t' && Bool.eqb ok ok'
  | OEntry e, OEntry e' => opt_eqb ent_eqb e e'
  | OTrie t, OTrie t' => trie_eqb t t'
  | OBool x, OBool y => Bool.eqb x y
  | OAlloc l, OAlloc l' =>
      list_eqb (fun x y => N.eqb (fst x) (fst y) && list_eqb N.eqb (snd x) (snd y)) l l'
  | ORegions l, ORegions l' =>
      list_eqb (fun x y => bits_eqb (fst x) (fst y) && list_eqb N.eqb (snd x) (snd y)) l l'
  | OSCP p i, OSCP p' i' => bits_eqb p p' && list_eqb N.eqb i i'
  | ONums l, ONums l' => list_eqb N.eqb l l'
  | _, _ => false
  end.

(* ---- sorting of ids -------------------------------------------------------- *)
Fixpoint ins_N (x : N) (l : list N) : list N :=
  match l with
  | [] => [x]
  | y :: l' => if N.leb x y then x :: l else y :: ins_N x l'
  end.
Definition sort_N (l : list N) : list N := fold_right ins_N [] l.

(* ---- the model's observation ----------------------------------------------- *)
Definition of_res {A} (r : res A) (f : A -> obs) : obs :=
  match r with Ok a => f a | _ => OPanic end.

(* group (dest, batch) appends by destination: ascending destinations, sorted items;
   destinations without any item are dropped *)
Definition alloc_obs (out : alloc_out N N) : list (N * list N) :=
  let dests := sort_N (nodup N.eq_dec (map fst out)) in
  filter (fun x => match snd x with [] => false | _ => true end)
    (map (fun d => (d, sort_N (flat_map (fun x => if N.eqb (fst x) d then snd x else []) out))) dests).

Definition region_obs (l : list (bits * T)) : list (bits * list N) :=
  map (fun x => (fst x, sort_N (map snd (entries (snd x))))) l.

Definition model_obs (q : query) (s0 s1 : T) : obs :=
  match q with
  | QKeys order => of_res (all_keys s0 order) OKeys
  | QFindPrefix k =>   (* without a match the returned key is unspecified and not observed *)
      of_res (find_prefix_of_key s0 k) (fun r => OKeyOk (if snd r then fst r else []) (snd r))
  | QFindSubtrie k => of_res (find_subtrie s0 k) (fun r => OTrieOk (fst r) (snd r))
  | QNext k order => of_res (next_non_empty_leaf s0 k order) OEntry
  | QPrune k => of_res (prune_subtrie s0 k) OTrie
  | QCoalesce => OTrie (coalesce 0%N s0)
  | QSubtract => of_res (subtract_trie s0 s1) OTrie
  | QGaps target order => of_res (trie_gaps s0 target order) OKeys
  | QCovered => of_res (keyspace_covered s0) OBool
  | QAlloc r => of_res (allocate_to_k_closest 0%N s0 s1 r) (fun o => OAlloc (alloc_obs o))
  | QRegions peers sz order covered =>
      of_res (regions_from_peers peers sz order covered) (fun l => ORegions (region_obs l))
  | QAssign rs keys => of_res (assign_keys_to_regions rs keys) (fun l => ORegions (region_obs l))
  | QSCP target sorted _ =>
      let r := shortest_covered_prefix target sorted in OSCP (fst r) (sort_N (map snd (snd r)))
  | QSiblings k => OKeys (sibling_prefixes k)
  | QExtend p n => OKeys (extend_binary_prefix p n)
  | QFlip k => OKeys [flip_last k]
  | QFirstFull k order => of_res (first_full_key k order) (fun x => OKeys [x])
  | QIsPrefix a b => OBool (is_prefix a b)
  | QKeyToBytes k => ONums (key_to_bytes k)
  | QSort l order => OKeys (sort_by_order l order)
  end.

(* ---- set-theoretic definitions (no trie algorithm) -------------------------- *)
Definition memb (k : bits) (l : list bits) : bool := existsb (bits_eqb k) l.
Definition subsetb (a b : list bits) : bool := forallb (fun x => memb x b) a.
Definition set_eqb (a b : list bits) : bool := subsetb a b && subsetb b a.
Definition ememb (e : ent) (l : list ent) : bool := existsb (ent_eqb e) l.
Definition eset_eqb (a b : list ent) : bool :=
  forallb (fun x => ememb x b) a && forallb (fun x => ememb x a) b.
Fixpoint nodupN (l : list N) : bool :=
  match l with [] => true | x :: l' => negb (existsb (N.eqb x) l') && nodupN l' end.
Fixpoint nodupb (l : list bits) : bool :=
  match l with [] => true | x :: l' => negb (memb x l') && nodupb l' end.
Fixpoint pairwise {A} (f : A -> A -> bool) (l : list A) : bool :=
  match l with [] => true | x :: l' => forallb (f x) l' && pairwise f l' end.
Definition incomparable (a b : bits) : bool := negb (comparable a b).

(* the trie is well formed ([wf] of Proofs/KeyspaceBase.v): every leaf sits on the path spelled by
   its key and every inner node holds a key *)
Fixpoint wfb (path : bits) (t : T) : bool :=
  match t with
  | E => true
  | L k _ => is_prefix path k
  | Nd t0 t1 => wfb (path ++ [false]) t0 && wfb (path ++ [true]) t1 && (0 <? size t0 + size t1)
  end.
Definition maxlen (l : list bits) : nat := fold_right (fun k m => Nat.max (length k) m) 0 l.

(* "a before b in the order": at the first position where they differ a agrees with order *)
Fixpoint before (order a b : bits) : bool :=
  match a, b, order with
  | x :: a', y :: b', o :: order' =>
      if Bool.eqb x y then before order' a' b' else Bool.eqb x o
  | _, _, _ => false
  end.
Fixpoint sortedb (order : bits) (l : list bits) : bool :=
  match l with
  | a :: ((b :: _) as l') => before order a b && sortedb order l'
  | _ => true
  end.

(* XOR of two bit lists (as long as the shorter) and the order "a closer to k than b" *)
Fixpoint bxor (a b : bits) : bits :=
  match a, b with
  | x :: a', y :: b' => xorb x y :: bxor a' b'
  | _, _ => []
  end.
Definition closer (k a b : bits) : bool := bits_ltb (bxor a k) (bxor b k).

(* p is "full" w.r.t. the key set K: the keys of K under p tile the subtree of p *)
Fixpoint fullb (fuel : nat) (K : list bits) (p : bits) : bool :=
  if memb p K then true
  else if existsb (is_prefix p) K then        (* some key lies strictly below p *)
    match fuel with
    | O => false
    | S f => if fullb f K (p ++ [false]) then fullb f K (p ++ [true]) else false
    end
  else false.

(* all proper extensions q of p (p excluded) that are prefixes of some key *)
Definition prefixes_of (k : bits) : list bits :=
  map (fun n => firstn n k) (seq 0 (S (length k))).

Definition gaps_spec (K : list bits) (target : bits) : list bits :=
  let comparable_with_some p := existsb (comparable p) K in
  let cands := target :: flat_map (fun k => map flip_last (prefixes_of k)) K in
  filter (fun p => if is_prefix target p then
                     if comparable_with_some p then false
                     else if bits_eqb p target then true else comparable_with_some (removelast p)
                   else false)
         (nodup (list_eq_dec Bool.bool_dec) cands).

(* maximal full prefixes *)
Definition coalesce_spec (K : list bits) : list bits :=
  let f := S (maxlen K) in
  filter (fun p => if fullb f K p then match p with [] => true | _ => negb (fullb f K (removelast p)) end
                   else false)
         (nodup (list_eq_dec Bool.bool_dec) (flat_map prefixes_of K)).

(* [closer k a b] without building the XOR lists: at the first position where a and b differ,
   a agrees with k (equal lengths) -- the lexicographic order of (a xor k) and (b xor k) *)
Fixpoint closerb (k a b : bits) : bool :=
  match k, a, b with
  | z :: k', x :: a', y :: b' => if Bool.eqb x y then closerb k' a' b' else Bool.eqb x z
  | _, _, _ => false
  end.

(* [chosen] (entries of dests, identified by their id) are min(r,|dests|) distinct destinations,
   each closer to k than every destination not chosen *)
Definition has_id (i : N) (l : list ent) : bool := existsb (fun e => N.eqb (snd e) i) l.
Definition dest_set_ok (k : bits) (r : nat) (dests chosen : list ent) : bool :=
  Nat.eqb (length chosen) (Nat.min r (length dests)) && nodupN (map snd chosen) &&
  forallb (fun d => if has_id (snd d) chosen then true
                    else forallb (fun c => closerb k (fst c) (fst d)) chosen) dests.

Definition same_length (n : nat) (l : list bits) : bool := forallb (fun k => Nat.eqb (length k) n) l.

Definition cyclic_next (order : bits) (K : list ent) (k : bits) : option ent :=
  (* least element after k, else the least element *)
  let least (l : list ent) :=
    fold_left (fun acc e => match acc with
                            | None => Some e
                            | Some a => if before order (fst e) (fst a) then Some e else acc
                            end) l None in
  match least (filter (fun e => before order k (fst e)) K) with
  | Some e => Some e
  | None => least K
  end.

Definition spec_ok (q : query) (s0 s1 : T) (o : obs) : option bool :=
  let E0 := entries s0 in
  let K0 := keys_of s0 in
  let wf0 := wfb [] s0 in
  match q with
  | QKeys order =>
      if wf0 && (maxlen K0 <=? length order) then
        Some match o with
             | OKeys l => set_eqb l K0 && Nat.eqb (length l) (length K0) && sortedb order l
             | _ => false end
      else None
  | QFindPrefix k =>
      if wf0 then
        Some match o with
             | OKeyOk x ok =>
                 Bool.eqb ok (existsb (fun y => is_prefix y k) K0)
                 && (negb ok || (memb x K0 && is_prefix x k))
             | _ => false end
      else None
  | QFindSubtrie k =>
      if wf0 then
        Some match o with
             | OTrieOk t ok =>
                 Bool.eqb ok (existsb (is_prefix k) K0)
                 && (negb ok || eset_eqb (entries t) (filter (fun e => is_prefix k (fst e)) E0))
             | _ => false end
      else None
  | QNext k order =>
      if wf0 && (maxlen (k :: K0) <=? length order)
         && forallb (fun x => bits_eqb x k || incomparable x k) K0 then
        Some match o with
             | OEntry e => opt_eqb ent_eqb e (cyclic_next order E0 k)
             | _ => false end
      else None
  | QPrune k =>
      if wf0 then
        Some match o with
             | OTrie t => wfb [] t && eset_eqb (entries t) (filter (fun e => negb (is_prefix k (fst e))) E0)
             | _ => false end
      else None
  | QCoalesce =>
      if wf0 then
        Some match o with
             | OTrie t => wfb [] t && set_eqb (keys_of t) (coalesce_spec K0)
                          && Nat.eqb (length (keys_of t)) (length (coalesce_spec K0))
             | _ => false end
      else None
  | QSubtract =>
      if wf0 && wfb [] s1 && (maxlen K0 <=? 256) then
        Some match o with
             | OTrie t =>
                 wfb [] t &&
                 eset_eqb (entries t)
                   (filter (fun e => negb (existsb (fun y => is_prefix y (fst e)) (keys_of s1))) E0)
             | _ => false end
      else None
  | QGaps target order =>
      if wf0 && (maxlen (target :: K0) <=? length order) then
        Some match o with
             | OKeys l => let g := gaps_spec K0 target in
                          set_eqb l g && Nat.eqb (length l) (length g) && sortedb order l
             | _ => false end
      else None
  | QCovered =>
      if wf0 && (maxlen K0 <=? 256) then
        Some match o with
             | OBool b => Bool.eqb b (fullb (S (maxlen K0)) K0 [])
             | _ => false end
      else None
  | QAlloc r =>
      let K1 := keys_of s1 in
      let n := match K0 with k :: _ => length k | [] => 0 end in
      if wf0 && wfb [] s1 && same_length n K0 && same_length n K1 && (n <=? 256)
         && nodupN (map snd E0) && nodupN (map snd (entries s1)) then
        Some match o with
             | OAlloc l =>
                 (* destinations named are destinations, each once *)
                 forallb (fun x => existsb (fun e => N.eqb (snd e) (fst x)) (entries s1)) l
                 && nodupN (map fst l)
                 (* no item twice for one destination *)
                 && forallb (fun x => nodupN (snd x)) l
                 (* every item: its destinations are the min(r,|dests|) nearest *)
                 && forallb (fun it =>
                      let chosen := filter (fun e => existsb (fun x => if N.eqb (fst x) (snd e)
                                                                       then existsb (N.eqb (snd it)) (snd x)
                                                                       else false) l) (entries s1) in
                      dest_set_ok (fst it) r (entries s1) chosen) E0
                 (* nothing allocated that is not an item *)
                 && forallb (fun x => forallb (fun i => existsb (fun e => N.eqb (snd e) i) E0) (snd x)) l
             | _ => false end
      else None
  | QRegions peers sz order covered =>
      let PK := map fst peers in
      if (1 <=? sz) && same_length 256 PK && nodupb PK && (256 <=? length order)
         && forallb (is_prefix covered) PK && negb (Nat.eqb (length peers) 0)
         && nodupN (map snd peers) then
        Some match o with
             | ORegions l =>
                 let ps := map fst l in
                 pairwise incomparable ps && forallb (is_prefix covered) ps
                 && sortedb order ps
                 (* the prefixes tile the covered prefix *)
                 && fullb 257 ps covered
                 (* each region holds exactly the peers under its prefix *)
                 && forallb (fun x => list_eqb N.eqb (snd x)
                                (sort_N (map snd (filter (fun e => is_prefix (fst x) (fst e)) peers)))) l
                 (* at least sz peers per region whenever the total allows *)
                 && ((length peers <? sz) || forallb (fun x => sz <=? length (snd x)) l)
                 && ((sz <=? length peers) || Nat.eqb (length l) 1)
                 (* minimal: no region splits into two halves of at least sz *)
                 && forallb (fun x =>
                      negb ((sz <=? length (filter (fun e => is_prefix (fst x ++ [false]) (fst e)) peers))
                            && (sz <=? length (filter (fun e => is_prefix (fst x ++ [true]) (fst e)) peers)))) l
             | _ => false end
      else None
  | QAssign rs keys =>
      let KK := map fst keys in
      if negb (Nat.eqb (length rs) 0) && pairwise incomparable rs && nodupb KK
         && nodupN (map snd keys) then
        Some match o with
             | ORegions l =>
                 list_eqb bits_eqb (map fst l) rs
                 (* every key in exactly one region, the matching one, else one of maximal cpl *)
                 && forallb (fun e =>
                      let holders := filter (fun x => existsb (N.eqb (snd e)) (snd x)) l in
                      match holders with
                      | [x] =>
                          if existsb (fun p => is_prefix p (fst e)) rs then is_prefix (fst x) (fst e)
                          else forallb (fun p => cpl p (fst e) <=? cpl (fst x) (fst e)) rs
                      | _ => false
                      end) keys
                 && forallb (fun x => forallb (fun i => existsb (fun e => N.eqb (snd e) i) keys) (snd x)
                                      && nodupN (snd x)) l
             | _ => false end
      else None
  | QSCP target sorted swarm =>
      (* soundness: [sorted] are the nearest of the swarm (every swarm member outside is farther
         than every member inside), some peer does not match the whole target; then every swarm
         peer under the returned prefix is in the returned list, and the list is made of peers
         under the prefix *)
      let SK := map fst sorted in
      if same_length 256 (map fst swarm) && (2 <=? length sorted)
         && forallb (fun e => ememb e swarm) sorted
         && forallb (fun s => ememb s sorted || forallb (fun p => cpl target (fst s) <=? cpl target (fst p)) sorted) swarm
         && existsb (fun p => cpl target p <? length target) SK then
        Some match o with
             | OSCP p ids =>
                 is_prefix p target
                 && forallb (fun s => negb (is_prefix p (fst s)) || existsb (N.eqb (snd s)) ids) swarm
                 && forallb (fun i => existsb (fun s => N.eqb (snd s) i && is_prefix p (fst s)) sorted) ids
             | _ => false end
      else None
  (* the small helpers are their own definitions: the transcription is the definition *)
  | QSiblings _ | QExtend _ _ | QFlip _ | QIsPrefix _ _ | QKeyToBytes _ =>
      Some (obs_eqb (model_obs q s0 s1) o)
  | QFirstFull k order =>
      if (length k <=? 256) && (length k <=? length order) then Some (obs_eqb (model_obs q s0 s1) o) else None
  | QSort l order =>
      if pairwise incomparable l && (maxlen l <=? length order) then
        Some match o with
             | OKeys r => set_eqb r l && Nat.eqb (length r) (length l) && sortedb order r
             | _ => false end
      else None
  end.

(* ---- build scripts replayed on the model trie ------------------------------- *)
Definition bstep (t : T) (b : bop) : res T :=
  match b with
  | BAdd k id => r <- add t k id ;; Ok (fst r)
  | BAddMany es => r <- add_many t es ;; Ok (fst r)
  | BRemove k => r <- remove t k ;; Ok (fst r)
  | BPrune k => prune_subtrie t k
  end.
Fixpoint brun (t : T) (bs : list bop) : res T :=
  match bs with
  | [] => Ok t
  | b :: bs' => t' <- bstep t b ;; brun t' bs'
  end.

Definition build_agrees (bs : list bop) (s : option T) : bool :=
  match brun E bs, s with
  | Ok t, Some t' => trie_eqb t t'
  | Panic _, None => true
  | _, _ => false
  end.

Definition shape (s : option T) : T := match s with Some t => t | None => E end.

Definition qverdict (s0 s1 : T) (qo : query * obs) : nat :=
  let (q, o) := qo in
  let agrees := obs_eqb (model_obs q s0 s1) o in
  match spec_ok q s0 s1 o with
  | Some false => 2
  | _ => if agrees then 0
         else match o with
              | OPanic => 2      (* a panic where the (total) definition yields a value agrees with no set-theoretic definition *)
              | _ => 1
              end
  end.

Definition verdict (c : case) : nat :=
  let vb := if build_agrees (c_b0 c) (c_s0 c) && build_agrees (c_b1 c) (c_s1 c) then 0 else 1 in
  fold_left Nat.max (map (qverdict (shape (c_s0 c)) (shape (c_s1 c))) (c_qs c)) vb.

Fixpoint verdicts_from (i : nat) (cs : list case) : list (nat * nat) :=
  match cs with
  | [] => []
  | c :: rest => match verdict c with
                 | O => verdicts_from (S i) rest
                 | v => (i, v) :: verdicts_from (S i) rest
                 end
  end.
Definition verdicts := verdicts_from 0.
