(* Executable observation functions for the C10 correspondence check. *)
From Verif.Lib Require Import GoSem Bits.
From Verif.Gen Require Import Consts Dispatch.
From Verif.Model Require Export PeerRecord ClientRpc.
Local Open Scope Z_scope.

(* compact constructors used by the generated case files *)
Definition B (t : N) (l : Z) : bstr := {| b_tag := t; b_len := l |}.
Definition A (t : N) (l : Z) (ok : bool) : addr := {| a_tag := t; a_len := l; a_ok := ok |}.
Definition P (id : bstr) (addrs : list addr) (c : Z) : option apeer :=
  Some {| p_id := id; p_addrs := addrs; p_conn := c |}.
Definition PNil : option apeer := None.
Definition I (id : bstr) (addrs : list addr) : ainfo := {| ai_id := id; ai_addrs := addrs |}.
Definition R (k v : bstr) : arecord := {| r_key := k; r_value := v |}.
Definition M (ty : Z) (rec : option arecord) (closer provs : list (option apeer)) : amsg :=
  {| m_type := ty; m_record := rec; m_closer := closer; m_provs := provs |}.
Definition At (prep write : bool) (rd : read_ev) : attempt :=
  {| at_prep := prep; at_write := write; at_read := rd |}.

Inductive op :=
(* a ProtocolMessenger method on a scripted MessageSender *)
| ORpc (c : rpc) (rp : reply)
(* one response of a seed peer inside a real lookup: bucket size, own id, lookup
   key, tags of the ids the query filter accepts, maxForTable of the routing-table
   diversity filter (0: none configured), IP group of each decodable address of
   the response by address tag (computed by manet.ToIP + peerdiversity.IPGroupKey) *)
| OLookup (K : nat) (self target : bstr) (accept : list N) (limit : nat) (gm : list (N * N)) (rp : reply)
(* a ProtocolMessenger method over the real messageSenderImpl on scripted streams:
   the context is cancelled at [cancel] (virtual ns) *)
| OStream (c : rpc) (cancel : option Z) (a1 a2 : attempt).

Inductive obs :=
| BPanic
| BBlocked
| BOut (o : rpc_out)
| BHeard (h : option (list bstr))
| BStream (o : rpc_out) (e : option sr_err) (attempts : nat) (time : Z).

Definition accepts (l : list N) (n : ainfo) : bool := existsb (N.eqb (b_tag (ai_id n))) l.

Definition group_of (gm : list (N * N)) (a : addr) : option N :=
  match find (fun e => N.eqb (fst e) (a_tag a)) gm with Some e => Some (snd e) | None => None end.

Definition two_attempts (a1 a2 : attempt) (n : nat) : attempt :=
  match n with O => a1 | _ => a2 end.

Definition of_res {A} (r : res A) (f : A -> obs) : obs :=
  match r with Ok a => f a | Panic _ => BPanic | Blocked _ => BBlocked end.

Definition model (o : op) : obs :=
  match o with
  | ORpc c rp => of_res (run_rpc c rp) BOut
  | OLookup K self target accept limit gm rp =>
      of_res (lookup_heard_div K self target (accepts accept) (group_of gm) limit rp) BHeard
  | OStream c cancel a1 a2 =>
      of_res (rpc_over_stream c cancel (two_attempts a1 a2))
             (fun x => BStream (fst x)
                               (match sr_out (snd x) with inl e => Some e | inr _ => None end)
                               (sr_attempts (snd x)) (sr_time (snd x)))
  end.

(* ---- equality of observations ------------------------------------------ *)
Fixpoint list_eqb {A} (eq : A -> A -> bool) (a b : list A) : bool :=
  match a, b with
  | [], [] => true
  | x :: a', y :: b' => eq x y && list_eqb eq a' b'
  | _, _ => false
  end.
Definition opt_eqb {A} (eq : A -> A -> bool) (a b : option A) : bool :=
  match a, b with
  | None, None => true
  | Some x, Some y => eq x y
  | _, _ => false
  end.
Definition bstr_same (a b : bstr) : bool := N.eqb (b_tag a) (b_tag b) && (b_len a =? b_len b).
Definition addr_same (a b : addr) : bool :=
  N.eqb (a_tag a) (a_tag b) && (a_len a =? a_len b) && Bool.eqb (a_ok a) (a_ok b).
Definition ainfo_same (a b : ainfo) : bool :=
  bstr_same (ai_id a) (ai_id b) && list_eqb addr_same (ai_addrs a) (ai_addrs b).
Definition arecord_same (a b : arecord) : bool :=
  bstr_same (r_key a) (r_key b) && bstr_same (r_value a) (r_value b).
Definition cerr_eqb (a b : cerr) : bool :=
  match a, b with
  | ESend, ESend | ENotPut, ENotPut | EBadRecord, EBadRecord | EPingType, EPingType
  | ENoSelfAddrs, ENoSelfAddrs | EOther, EOther => true
  | _, _ => false
  end.
Definition sr_err_eqb (a b : sr_err) : bool :=
  match a, b with
  | SPrep, SPrep | SWrite, SWrite | SUnmarshal, SUnmarshal | SRead, SRead
  | SReadTimeout, SReadTimeout | SCanceled, SCanceled | SOutOfFuel, SOutOfFuel => true
  | _, _ => false
  end.
Definition rpc_out_eqb (a b : rpc_out) : bool :=
  match a, b with
  | OErr e, OErr f => cerr_eqb e f
  | ODone, ODone => true
  | OValue r p, OValue s q => opt_eqb arecord_same r s && list_eqb ainfo_same p q
  | OPeers p, OPeers q => list_eqb ainfo_same p q
  | OProvs p c, OProvs q d => list_eqb ainfo_same p q && list_eqb ainfo_same c d
  | _, _ => false
  end.
Definition obs_eqb (a b : obs) : bool :=
  match a, b with
  | BPanic, BPanic => true
  | BBlocked, BBlocked => true
  | BOut o, BOut p => rpc_out_eqb o p
  | BHeard h, BHeard g => opt_eqb (list_eqb bstr_same) h g
  | BStream o e n t, BStream p f m u =>
      rpc_out_eqb o p && opt_eqb sr_err_eqb e f && Nat.eqb n m && (t =? u)
  | _, _ => false
  end.

(* ---- the property, evaluated on what the implementation did ------------- *)
(* only decodable addresses, and the record they came in fits 8 KiB (counted
   with the smallest connection field) or carries no address at all *)
Definition info_ok (i : ainfo) : bool :=
  forallb a_ok (ai_addrs i) &&
  (match ai_addrs i with
   | [] => true
   | _ => base_size (ai_id i) 0 + addrs_cost (ai_addrs i) <=? MaxPeerRecordSize
   end).
Definition out_ok (o : rpc_out) : bool := forallb info_ok (infos_of o).

Definition op_wire (o : op) : bool :=
  match o with
  | ORpc _ rp => wire_reply rp
  | OLookup _ _ _ _ _ _ rp => wire_reply rp
  | OStream _ _ a1 a2 =>
      (match at_read a1 with RdMsg m => wire_msg m | _ => true end) &&
      (match at_read a2 with RdMsg m => wire_msg m | _ => true end)
  end.

(* a record for another key must be refused *)
Definition key_ok (c : rpc) (rm : option amsg) (o : rpc_out) : bool :=
  match c with
  | CGetValue key =>
      (match get_record rm with
       | Some rec => if bstr_eqb key (r_key rec) then true
                     else match o with OErr EBadRecord => true | _ => false end
       | None => true
       end) &&
      (match o with OValue (Some rec) _ => bstr_eqb key (r_key rec) | _ => true end)
  | _ => true
  end.

Definition prop_ok (o : op) (b : obs) : bool :=
  if negb (op_wire o) then true
  else
    match o, b with
    | _, BPanic => false
    | _, BBlocked => false
    | ORpc c rp, BOut out =>
        out_ok out && (match rp with RMsg rm => key_ok c rm out | RErr => true end)
    | OLookup K _ _ _ _ _ _, BHeard (Some h) => (length h <=? 2 * K)%nat
    | OLookup _ _ _ _ _ _ _, BHeard None => true
    | OStream c _ a1 a2, BStream out e n t =>
        out_ok out && (n <=? 2)%nat && (t <=? 2 * dhtReadMessageTimeout)
        && (match e, out with
            | Some _, OErr _ => true
            | Some _, ODone => match c with CPutProvider _ _ => true | _ => false end
            | Some _, _ => false
            | None, _ => true
            end)
    | _, _ => false
    end.

Record case := { c_op : op; c_impl : obs }.

(* 0 = model and implementation agree and the property holds on the trace;
   1 = they differ where the property says nothing (a reply the real sender cannot
       produce, or two different error classes);
   2 = the property fails on the implementation's observation, or the observation
       departs from the proved model on a reply the property quantifies over. *)
Definition verdict (c : case) : nat :=
  if negb (prop_ok (c_op c) (c_impl c)) then 2
  else if obs_eqb (model (c_op c)) (c_impl c) then 0
  else if negb (op_wire (c_op c)) then 1
  else match model (c_op c), c_impl c with
       | BOut (OErr _), BOut (OErr _) => 1
       | _, _ => 2
       end.

Fixpoint verdicts_from (i : nat) (cs : list case) : list (nat * nat) :=
  match cs with
  | [] => []
  | c :: rest => match verdict c with
                 | O => verdicts_from (S i) rest
                 | v => (i, v) :: verdicts_from (S i) rest
                 end
  end.
Definition verdicts := verdicts_from 0.
