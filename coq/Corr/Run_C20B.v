(* C20, bounded-buffer run: the ResettableKeystore with a reset buffer of 1-3 keys.
   The reset model of Model/ResetKeystore.v has an unbounded buffer (a Put is staged in
   one piece), so these runs are judged by the property's own final-state clause, evaluated
   on the implementation's observations only: after the reset returned and every Put
   returned, the live keystore - and a keystore reopened on the same datastore after
   Close - holds exactly

        (the supplied keys, if the reset completed | the previous keys, otherwise)
        + every key whose Put was acknowledged since the reset started,

   and its reported size is the number of keys.  Keys of Puts that returned an error
   may or may not be present. *)
From Verif.Lib Require Import GoSem.
Local Open Scope N_scope.

Record bcase := {
  b_ok : bool;                   (* ResetCids returned nil *)
  b_cancel_req : bool;           (* the reset's context was cancelled at some instant of the run *)
  b_old : list N;                (* keys stored before the reset *)
  b_new : list N;                (* keys supplied to the reset *)
  b_acked : list N;              (* keys of the Puts acknowledged after the reset had started *)
  b_maybe : list N;              (* keys of Puts that returned an error *)
  b_live : Z * list N;           (* Size and Get "" of the live keystore at the end *)
  b_reopen : Z * list N }.       (* the same of a keystore reopened after Close *)

Definition memb (x : N) (l : list N) : bool := existsb (N.eqb x) l.
Fixpoint nodupb (l : list N) : bool :=
  match l with [] => true | x :: r => negb (memb x r) && nodupb r end.

Definition expected (new : bool) (c : bcase) : list N := (if new then b_new c else b_old c) ++ b_acked c.

Definition state_is (new : bool) (c : bcase) (st : Z * list N) : bool :=
  let ids := snd st in
  nodupb ids
  && forallb (fun x => memb x ids) (expected new c)                                (* nothing acknowledged or supplied is missing *)
  && forallb (fun x => memb x (expected new c) || memb x (b_maybe c)) ids          (* nothing else is there *)
  && Z.eqb (fst st) (Z.of_nat (length ids)).                                       (* the reported size matches *)

(* Which of the two complete sets: the previous one when ResetCids returned an error, the new one
   when it returned nil and nobody cancelled.  A cancellation that arrives while the final swap is
   being carried out aborts the swap although ResetCids still returns nil (the worker's answer to
   opCleanup is not propagated); the property allows either complete set after a cancellation, so
   does this check - but the same one live and reopened. *)
Definition state_ok (c : bcase) : bool :=
  let both new := state_is new c (b_live c) && state_is new c (b_reopen c) in
  if b_ok c then (if b_cancel_req c then both true || both false else both true) else both false.

Definition verdict (c : bcase) : nat := if state_ok c then 0 else 2.

Fixpoint verdicts_from (i : nat) (cs : list bcase) : list (nat * nat) :=
  match cs with
  | [] => []
  | c :: rest => match verdict c with O => verdicts_from (S i) rest | v => (i, v) :: verdicts_from (S i) rest end
  end.
Definition verdicts := verdicts_from 0.
