From Verif.Lib Require Import GoSem.
From Verif.Corr Require Export Run_Lookup.

Definition verdict (c : case) : nat :=
  if negb (c02_prop_ok c) then 2 else if agrees c then 0 else 1.

Fixpoint verdicts_from (i : nat) (cs : list case) : list (nat * nat) :=
  match cs with
  | [] => []
  | c :: rest => match verdict c with
                 | O => verdicts_from (S i) rest
                 | v => (i, v) :: verdicts_from (S i) rest
                 end
  end.
Definition verdicts := verdicts_from 0.
