(* C03, accelerated-client run (harness/dht/c03f_test.go): value lookups of the accelerated and the
   dual client.  Nothing of these clients' goroutine structure is modelled; the run is exploration
   of the clauses "returns" and "work left in the background ends by itself within the operation's
   own timeouts or at Close" on the real code: [f_returned] the call returned without panic,
   [f_clean_end] the synctest bubble ended with no goroutine left blocked after Close and after every
   timer had fired. *)
From Verif.Lib Require Import GoSem.

Record fcase := { f_returned : bool; f_clean_end : bool }.
Definition verdict (c : fcase) : nat := if f_returned c && f_clean_end c then 0 else 2.
Fixpoint verdicts_from (i : nat) (cs : list fcase) : list (nat * nat) :=
  match cs with
  | [] => []
  | c :: rest => match verdict c with O => verdicts_from (S i) rest | v => (i, v) :: verdicts_from (S i) rest end
  end.
Definition verdicts := verdicts_from 0.
