(* Executable glue for the C08 correspondence check.

   The harness drives the real IpfsDHT.FindProvidersAsync (and the real
   dual.DHT.FindProvidersAsync over two such nodes) one released call at a time
   and records, in processing order, the events "side s read its provider store"
   and "side s processed this GET_PROVIDERS answer" (the provider list as the
   responder sent it; the injected shuffle is applied here).  The model folds
   the same events.

   A second harness (package fullrt) drives the real FullRT.FindProvidersAsync
   the same way: every GET_PROVIDERS request of execOnMany parks in a gated
   sender and the driver lets them return one at a time in a generated order,
   mixed with 500 ms ticks and a cancellation; those cases are [frt_case]s and
   are compared with Model/ProvSearchFrt.v. *)
From Verif.Lib Require Import GoSem Bits.
From Verif.Model Require Export ProvSearch ProvSearchFrt.
From Verif.Proofs Require Import ProvSearchProofs.

Inductive ev :=
| ELocal (side : nat)
| EAns (side : nat) (a : list entry).

Record side_in := { s_locals : list entry; s_store_err : bool }.

Record std_case := {
  c_dual : bool; c_count : Z; c_shuffle : nat; c_sides : list side_in;
  c_events : list ev;
  c_takes : option nat;        (* the consumer cancels after that many providers and stops receiving *)
  c_cancelled : bool;          (* the context was cancelled between two events *)
  (* observed *)
  c_yields : list entry; c_closed : bool; c_late_req : bool; c_bad : bool (* panic / wedged *) }.

(* the three shuffles the harness injects *)
Definition shuffle (mode : nat) (l : list entry) : list entry :=
  match mode with
  | 0 => l
  | 1 => rev l
  | _ => match l with [] => [] | x :: r => r ++ [x] end
  end.

(* per-side state: not started / running with a map / finished *)
Inductive sstate := SIdle | SRun (m : pmap) | SDone.

Fixpoint set_nth {A} (n : nat) (x : A) (l : list A) : list A :=
  match n, l with
  | _, [] => []
  | O, _ :: r => x :: r
  | S n', y :: r => y :: set_nth n' x r
  end.

(* one event: new side states, what the side sends, and whether the event is
   possible at all (an answer for a side that is not running is not) *)
Definition step_ev (sh : list entry -> list entry) (count : Z) (sides : list side_in)
           (st : list sstate) (e : ev) : list sstate * list entry * bool :=
  match e with
  | ELocal s =>
      match nth_error sides s, nth_error st s with
      | Some si, Some SIdle =>
          if s_store_err si then (set_nth s SDone st, [], true)
          else let '(m, y, early) := feed count [] (s_locals si) in
               (set_nth s (if early then SDone else SRun m) st, y, true)
      | _, _ => (st, [], false)
      end
  | EAns s a =>
      match nth_error st s with
      | Some (SRun m) => let '(m', y, _) := feed count m (sh a) in (set_nth s (SRun m') st, y, true)
      | _ => (st, [], false)
      end
  end.

Fixpoint run_evs (sh : list entry -> list entry) (count : Z) (sides : list side_in)
         (st : list sstate) (es : list ev) : list entry * bool :=
  match es with
  | [] => ([], true)
  | e :: rest =>
      let '(st', y, ok) := step_ev sh count sides st e in
      let (ys, ok') := run_evs sh count sides st' rest in
      (y ++ ys, ok && ok')
  end.

Definition model_yields (c : std_case) : list entry * bool :=
  let (arr, ok) := run_evs (shuffle (c_shuffle c)) (c_count c) (c_sides c)
                           (map (fun _ => SIdle) (c_sides c)) (c_events c) in
  let out := if c_dual c then dual_merge (c_count c) arr else arr in
  (match c_takes c with Some n => firstn n out | None => out end, ok).

(* ---- comparisons ------------------------------------------------------------- *)
Definition entry_eqb (a b : entry) : bool := N.eqb (fst a) (fst b) && Bool.eqb (snd a) (snd b).
Fixpoint list_eqb {A} (eq : A -> A -> bool) (a b : list A) : bool :=
  match a, b with
  | [], [] => true
  | x :: a', y :: b' => eq x y && list_eqb eq a' b'
  | _, _ => false
  end.
Definition mem_entry (e : entry) (l : list entry) : bool := existsb (entry_eqb e) l.
Definition mem_peer (p : N) (l : list entry) : bool := existsb (fun e => N.eqb (fst e) p) l.

(* ---- the property on the implementation's observations --------------------------- *)
(* everything a started side may legitimately yield: its local providers (when
   the store read succeeded) and the entries of the processed answers *)
Definition reported (c : std_case) : list entry :=
  flat_map (fun e => match e with
                     | ELocal s => match nth_error (c_sides c) s with
                                   | Some si => if s_store_err si then [] else s_locals si
                                   | None => []
                                   end
                     | EAns _ a => a
                     end) (c_events c).

Definition pattern_ok (dual : bool) (p : N) (ys : list entry) : bool :=
  match occ p ys with
  | [] => true
  | [_] => true
  | [(_, false); (_, true)] => negb dual
  | _ => false
  end.

Definition prop_ok (c : std_case) : bool :=
  let ys := c_yields c in
  (* sound *)
  forallb (fun y => mem_entry y (reported c)) ys &&
  (* count bound *)
  (if Z.ltb 0 (c_count c) then Z.leb (Z.of_nat (distinct ys)) (c_count c)
   else if Z.ltb (c_count c) 0 then match ys with [] => true | _ => false end else true) &&
  (* a peer is repeated only to add addresses (never, through the dual merge) *)
  forallb (fun y => pattern_ok (c_dual c) (fst y) ys) ys &&
  (* count = 0 and the consumer did not walk away: everything reported is yielded *)
  (if Z.eqb (c_count c) 0 && match c_takes c with None => true | Some n => Nat.ltb (length ys) n end
   then forallb (fun e => mem_peer (fst e) ys && (c_dual c || negb (snd e) || mem_entry (fst e, true) ys)) (reported c)
   else true) &&
  (* stops asking, channel closed, no panic, not wedged *)
  negb (c_late_req c) && c_closed c && negb (c_bad c).

(* 0 = model and implementation agree and the property holds on the trace;
   1 = they differ only outside the property; 2 = the property fails on the trace *)
Definition verdict_std (c : std_case) : nat :=
  if prop_ok c then
    let (ys, ok) := model_yields c in
    if ok && list_eqb entry_eqb ys (c_yields c) then 0 else 1
  else 2.

(* ---- accelerated client (FullRT) ---------------------------------------------------------- *)
Record frt_case := {
  f_count : Z; f_shuffle : nat;
  f_quarter : nat;             (* WithSuccessWaitFraction(f_quarter / 4) *)
  f_no_store : bool;           (* providers disabled / undefined key / the provider manager returns an error *)
  f_precancel : bool;          (* the context is cancelled before the provider store is read *)
  f_locals : list entry;       (* what the provider store returns, in that order *)
  f_npeers : nat;              (* how many peers GetClosestPeers has to return: min(bucket size, table size) *)
  f_arrivals : list arrival;   (* the driver's steps once the requests are parked *)
  f_takes : option nat;
  (* observed *)
  f_reqs : nat;                (* GET_PROVIDERS requests issued *)
  f_flags : list bool;         (* per step: an answer was delivered to the search on a live context (processed) *)
  f_yields : list entry; f_closed : bool; f_late_req : bool; f_bad : bool;
  f_slow : bool }.              (* the consumer stalled while answers were in progress: outside the model's granularity, property only *)

Definition frt_model (c : frt_case) : list entry * list bool :=
  frt_core (shuffle (f_shuffle c)) (f_no_store c) (f_precancel c) (f_count c) (f_locals c)
           (f_npeers c) (f_quarter c) (f_arrivals c) (f_takes c).

(* does the search get as far as asking peers *)
Definition frt_asks (c : frt_case) : bool :=
  negb (f_no_store c || f_precancel c || takes_reached (f_takes c) 0) &&
  let '(_, y0, early) := fr_feed (f_count c) [] (f_locals c) in
  negb (early || match f_takes c with Some t => Nat.ltb t (length y0) | None => false end).

(* the property on the implementation's own observations *)
Definition frt_reported (c : frt_case) : list entry :=
  (if f_no_store c || f_precancel c || takes_reached (f_takes c) 0 then [] else f_locals c) ++
  concat (delivered (f_arrivals c) (f_flags c)).

(* what must come out with count 0: the local providers and the answers processed on a live context *)
Definition frt_due (c : frt_case) : list entry :=
  (if f_no_store c || f_precancel c || takes_reached (f_takes c) 0 then [] else f_locals c) ++
  concat (processed (f_arrivals c) (f_flags c)).

Definition frt_prop_ok (c : frt_case) : bool :=
  let ys := f_yields c in
  (* sound *)
  forallb (fun y => mem_entry y (frt_reported c)) ys &&
  (* count bound *)
  (if Z.ltb 0 (f_count c) then Z.leb (Z.of_nat (length ys)) (f_count c)
   else if Z.ltb (f_count c) 0 then match ys with [] => true | _ => false end else true) &&
  (* no peer is ever repeated *)
  forallb (fun y => Nat.leb (length (occ (fst y) ys)) 1) ys &&
  (* count = 0 and the consumer did not walk away: every local provider and every
     provider named in a processed answer is yielded *)
  (if Z.eqb (f_count c) 0 && match f_takes c with None => true | Some n => Nat.ltb (length ys) n end
   then forallb (fun e => mem_peer (fst e) ys) (frt_due c)
   else true) &&
  (* nothing is asked once count providers were received, the channel is closed, no panic, not wedged *)
  negb (f_late_req c) && f_closed c && negb (f_bad c).

Definition verdict_frt (c : frt_case) : nat :=
  if frt_prop_ok c then
    if f_slow c then 0 else
    let (ys, fl) := frt_model c in
    if list_eqb entry_eqb ys (f_yields c) && list_eqb Bool.eqb fl (f_flags c) &&
       Nat.eqb (f_reqs c) (if frt_asks c then f_npeers c else 0)
    then 0 else 1
  else 2.

Inductive case := CStd (c : std_case) | CFrt (c : frt_case).

Definition verdict (c : case) : nat :=
  match c with CStd c => verdict_std c | CFrt c => verdict_frt c end.

Fixpoint verdicts_from (i : nat) (cs : list case) : list (nat * nat) :=
  match cs with
  | [] => []
  | c :: rest => match verdict c with
                 | O => verdicts_from (S i) rest
                 | v => (i, v) :: verdicts_from (S i) rest
                 end
  end.
Definition verdicts := verdicts_from 0.
