(* Executable glue for the C08 correspondence check.

   The harness drives the real IpfsDHT.FindProvidersAsync (and the real
   dual.DHT.FindProvidersAsync over two such nodes) one released call at a time
   and records, in processing order, the events "side s read its provider store"
   and "side s processed this GET_PROVIDERS answer" (the provider list as the
   responder sent it; the injected shuffle is applied here).  The model folds
   the same events. *)
From Verif.Lib Require Import GoSem Bits.
From Verif.Model Require Import ProvSearch.
From Verif.Proofs Require Import ProvSearchProofs.

Inductive ev :=
| ELocal (side : nat)
| EAns (side : nat) (a : list entry).

Record side_in := { s_locals : list entry; s_store_err : bool }.

Record case := {
  c_dual : bool; c_count : Z; c_shuffle : nat; c_sides : list side_in;
  c_events : list ev;
  c_takes : option nat;        (* the consumer cancels after that many providers and stops receiving *)
  c_cancelled : bool;          (* the context was cancelled between two events *)
  (* observed *)
  c_yields : list entry; c_closed : bool; c_late_req : bool; c_bad : bool (* panic / wedged *) }.

(* the three shuffles the harness injects *)
Definition shuffle (mode : nat) (l : list entry) : list entry :=
  match mode with
  | 0 => l
  | 1 => rev l
  | _ => match l with [] => [] | x :: r => r ++ [x] end
  end.

(* per-side state: not started / running with a map / finished *)
Inductive sstate := SIdle | SRun (m : pmap) | SDone.

Fixpoint set_nth {A} (n : nat) (x : A) (l : list A) : list A :=
  match n, l with
  | _, [] => []
  | O, _ :: r => x :: r
  | S n', y :: r => y :: set_nth n' x r
  end.

(* one event: new side states, what the side sends, and whether the event is
   possible at all (an answer for a side that is not running is not) *)
Definition step_ev (sh : list entry -> list entry) (count : Z) (sides : list side_in)
           (st : list sstate) (e : ev) : list sstate * list entry * bool :=
  match e with
  | ELocal s =>
      match nth_error sides s, nth_error st s with
      | Some si, Some SIdle =>
          if s_store_err si then (set_nth s SDone st, [], true)
          else let '(m, y, early) := feed count [] (s_locals si) in
               (set_nth s (if early then SDone else SRun m) st, y, true)
      | _, _ => (st, [], false)
      end
  | EAns s a =>
      match nth_error st s with
      | Some (SRun m) => let '(m', y, _) := feed count m (sh a) in (set_nth s (SRun m') st, y, true)
      | _ => (st, [], false)
      end
  end.

Fixpoint run_evs (sh : list entry -> list entry) (count : Z) (sides : list side_in)
         (st : list sstate) (es : list ev) : list entry * bool :=
  match es with
  | [] => ([], true)
  | e :: rest =>
      let '(st', y, ok) := step_ev sh count sides st e in
      let (ys, ok') := run_evs sh count sides st' rest in
      (y ++ ys, ok && ok')
  end.

Definition model_yields (c : case) : list entry * bool :=
  let (arr, ok) := run_evs (shuffle (c_shuffle c)) (c_count c) (c_sides c)
                           (map (fun _ => SIdle) (c_sides c)) (c_events c) in
  let out := if c_dual c then dual_merge (c_count c) arr else arr in
  (match c_takes c with Some n => firstn n out | None => out end, ok).

(* ---- comparisons ------------------------------------------------------------- *)
Definition entry_eqb (a b : entry) : bool := N.eqb (fst a) (fst b) && Bool.eqb (snd a) (snd b).
Fixpoint list_eqb {A} (eq : A -> A -> bool) (a b : list A) : bool :=
  match a, b with
  | [], [] => true
  | x :: a', y :: b' => eq x y && list_eqb eq a' b'
  | _, _ => false
  end.
Definition mem_entry (e : entry) (l : list entry) : bool := existsb (entry_eqb e) l.
Definition mem_peer (p : N) (l : list entry) : bool := existsb (fun e => N.eqb (fst e) p) l.

(* ---- the property on the implementation's observations --------------------------- *)
(* everything a started side may legitimately yield: its local providers (when
   the store read succeeded) and the entries of the processed answers *)
Definition reported (c : case) : list entry :=
  flat_map (fun e => match e with
                     | ELocal s => match nth_error (c_sides c) s with
                                   | Some si => if s_store_err si then [] else s_locals si
                                   | None => []
                                   end
                     | EAns _ a => a
                     end) (c_events c).

Definition pattern_ok (dual : bool) (p : N) (ys : list entry) : bool :=
  match occ p ys with
  | [] => true
  | [_] => true
  | [(_, false); (_, true)] => negb dual
  | _ => false
  end.

Definition prop_ok (c : case) : bool :=
  let ys := c_yields c in
  (* sound *)
  forallb (fun y => mem_entry y (reported c)) ys &&
  (* count bound *)
  (if Z.ltb 0 (c_count c) then Z.leb (Z.of_nat (distinct ys)) (c_count c)
   else if Z.ltb (c_count c) 0 then match ys with [] => true | _ => false end else true) &&
  (* a peer is repeated only to add addresses (never, through the dual merge) *)
  forallb (fun y => pattern_ok (c_dual c) (fst y) ys) ys &&
  (* count = 0 and the consumer did not walk away: everything reported is yielded *)
  (if Z.eqb (c_count c) 0 && match c_takes c with None => true | Some n => Nat.ltb (length ys) n end
   then forallb (fun e => mem_peer (fst e) ys && (c_dual c || negb (snd e) || mem_entry (fst e, true) ys)) (reported c)
   else true) &&
  (* stops asking, channel closed, no panic, not wedged *)
  negb (c_late_req c) && c_closed c && negb (c_bad c).

(* 0 = model and implementation agree and the property holds on the trace;
   1 = they differ only outside the property; 2 = the property fails on the trace *)
Definition verdict (c : case) : nat :=
  if prop_ok c then
    let (ys, ok) := model_yields c in
    if ok && list_eqb entry_eqb ys (c_yields c) then 0 else 1
  else 2.

Fixpoint verdicts_from (i : nat) (cs : list case) : list (nat * nat) :=
  match cs with
  | [] => []
  | c :: rest => match verdict c with
                 | O => verdicts_from (S i) rest
                 | v => (i, v) :: verdicts_from (S i) rest
                 end
  end.
Definition verdicts := verdicts_from 0.
