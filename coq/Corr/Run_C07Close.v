(* Executable glue for the concurrent (Close fence) cases of the C07
   correspondence check; imported by Run_C07.v.

   The harness runs N client goroutines, Close and the real gcLoop on a gated
   datastore: every datastore call parks until the driver releases it.  The
   driver performs one ACTION at a time (start client i / start Close / release
   the parked call of a thread / let the ticker fire) and then lets every
   goroutine run until nothing can move (all blocked: parked on the gate, in
   mu.Lock, in <-pm.closed, in the select of gcLoop, or returned).  At that
   point it records a SNAPSHOT: per client not-started / waiting / parked in
   datastore call o / returned ok / returned ErrClosed; the sweep goroutine
   parked in call o or not; Close not-started / waiting / returned.

   Here the model (Model/ProvidersClose.v) is run on the same actions: the
   action is one model step, then model threads are stepped until no thread
   that is not parked on a datastore call is enabled.  What Go leaves open (which
   waiter gets mu, which ready branch a select takes) is read off the
   implementation's next snapshot and given to the model as scheduling priority
   -- the model still only takes steps that are enabled in it, so every replayed
   run is a schedule of the model and the theorems of Props/C07.v apply to it.
   The snapshots are compared; the property is also evaluated on the
   implementation's snapshots alone. *)
From Verif.Lib Require Import GoSem Bits.
From Verif.Model Require Import ProvidersClose.

(* names under which the generated case files (which import Run_C07 only) write
   the model's constructors *)
Notation KPut := ProvidersClose.DPut.
Notation KQuery := ProvidersClose.DQuery.
Notation KDelete := ProvidersClose.DDelete.
Notation KOther := ProvidersClose.DOther.
Notation FOk := ProvidersClose.CROk.
Notation FClosed := ProvidersClose.CRClosed.
Notation WClient := ProvidersClose.TClient.
Notation WGc := ProvidersClose.TGc.

Inductive action :=
| AStart (i : nat)        (* go AddProvider / GetProviders of client i *)
| AClose                  (* go pm.Close() *)
| ARelease (t : tid)      (* release the parked datastore call of TClient i / TGc *)
| ATick.                  (* virtual time passes the next tick instant *)

Inductive cstat :=
| SNot                    (* not started *)
| SPend                   (* called, has not returned, not in a datastore call *)
| SPark (o : dsop)        (* parked in datastore call o *)
| SFin (r : cres)         (* returned nil / ErrClosed *)
| SOther.                 (* returned another error / panicked *)
Inductive xstat := XNot | XPend | XRet.

Record snap := { s_clients : list cstat; s_gc : option dsop; s_close : xstat }.
Record macro := { m_act : action; m_snap : snap }.

Record ccase := {
  cc_gets : list bool;              (* per client: true = GetProviders, false = AddProvider *)
  cc_progs : list (list dsop);      (* per client: the datastore calls it was seen to make *)
  cc_sweeps : list (list dsop);     (* per sweep: the datastore calls it was seen to make *)
  cc_ticks : nat;                   (* number of ATick actions *)
  cc_macros : list macro
}.

(* ---- equality ---------------------------------------------------------------------- *)
Definition dsop_eqb (a b : dsop) : bool :=
  match a, b with DPut, DPut | DQuery, DQuery | DDelete, DDelete | DOther, DOther => true | _, _ => false end.
Definition cres_eqb (a b : cres) : bool :=
  match a, b with CROk, CROk | CRClosed, CRClosed => true | _, _ => false end.
Definition cstat_eqb (a b : cstat) : bool :=
  match a, b with
  | SNot, SNot | SPend, SPend | SOther, SOther => true
  | SPark x, SPark y => dsop_eqb x y
  | SFin x, SFin y => cres_eqb x y
  | _, _ => false
  end.
Definition xstat_eqb (a b : xstat) : bool :=
  match a, b with XNot, XNot | XPend, XPend | XRet, XRet => true | _, _ => false end.
Fixpoint leqb {A} (eq : A -> A -> bool) (a b : list A) : bool :=
  match a, b with
  | [], [] => true
  | x :: a', y :: b' => eq x y && leqb eq a' b'
  | _, _ => false
  end.
Definition odsop_eqb (a b : option dsop) : bool :=
  match a, b with Some x, Some y => dsop_eqb x y | None, None => true | _, _ => false end.
Definition snap_eqb (a b : snap) : bool :=
  leqb cstat_eqb (s_clients a) (s_clients b) && odsop_eqb (s_gc a) (s_gc b) && xstat_eqb (s_close a) (s_close b).

(* ---- projection of a model state to a snapshot (None: not at a quiescent point) ----- *)
Definition cstat_of (c : client) : option cstat :=
  match c_pc c with
  | CInit => Some SNot
  | CLock => Some SPend
  | CDs (o :: _) => Some (SPark o)
  | CDone r => Some (SFin r)
  | _ => None
  end.
Fixpoint all_some {A} (l : list (option A)) : option (list A) :=
  match l with
  | [] => Some []
  | Some x :: r => match all_some r with Some r' => Some (x :: r') | None => None end
  | None :: _ => None
  end.
Definition snap_of (st : state) : option snap :=
  match all_some (map cstat_of (clients st)) with
  | None => None
  | Some cs =>
      match (match gc st with
             | GSelect | GExited => Some None
             | GDs (o :: _) => Some (Some o)
             | _ => None
             end),
            (match cl st with
             | XInit => Some XNot
             | XWait | XLock => Some XPend
             | XDone => Some XRet
             | _ => None
             end) with
      | Some g, Some x => Some {| s_clients := cs; s_gc := g; s_close := x |}
      | _, _ => None
      end
  end.

(* ---- running the model to the next quiescent point -------------------------------------- *)
Definition parked (st : state) (t : tid) : bool :=
  match t with
  | TClient i => match nth_error (clients st) i with
                 | Some c => match c_pc c with CDs (_ :: _) => true | _ => false end
                 | None => false
                 end
  | TGc => match gc st with GDs (_ :: _) => true | _ => false end
  | _ => false
  end.
(* steps only the driver takes: making a call, the timer *)
Definition driver_only (st : state) (t : tid) : bool :=
  match t with
  | TClient i => match nth_error (clients st) i with
                 | Some c => match c_pc c with CInit => true | _ => false end
                 | None => true
                 end
  | TClose => match cl st with XInit => true | _ => false end
  | TTimer => true
  | _ => false
  end.
Definition runnable (st : state) (t : tid) : bool :=
  enabled st t && negb (parked st t) && negb (driver_only st t).

Fixpoint quiesce (n : nat) (prio : list tid) (st : state) : state :=
  match n with
  | O => st
  | S k => match find (runnable st) prio with
           | Some t => quiesce k prio (exec st t)
           | None => st
           end
  end.

Fixpoint idx_where {A} (f : A -> bool) (i : nat) (l : list A) : list nat :=
  match l with
  | [] => []
  | x :: r => if f x then i :: idx_where f (S i) r else idx_where f (S i) r
  end.

Definition act_tid (a : action) : list tid :=
  match a with
  | AStart i => [TClient i]
  | AClose => [TClose]
  | ARelease t => [t]
  | ATick => []
  end.

(* scheduling priority read off the implementation's next snapshot: first the
   thread the driver acted on; the sweep goroutine (its select takes the tick
   branch iff it was then seen parked in a datastore call); the waiters that
   returned ok; Close if it returned; the waiters that returned ErrClosed; the
   waiter that was seen parked; then everything else *)
Definition prio (a : action) (s : snap) : list tid :=
  let cs := s_clients s in
  act_tid a
  ++ [TGc; match s_gc s with Some _ => TGcTick | None => TGcDone end]
  ++ map TClient (idx_where (cstat_eqb (SFin CROk)) 0 cs)
  ++ (match s_close s with XRet => [TClose] | _ => [] end)
  ++ map TClient (idx_where (cstat_eqb (SFin CRClosed)) 0 cs)
  ++ map TClient (idx_where (fun x => match x with SPark _ => true | _ => false end) 0 cs)
  ++ [TClose]
  ++ map TClient (seq 0 (length cs))
  ++ [TGcTick; TGcDone].

Definition all_threads (st : state) : list tid :=
  [TGc; TGcTick; TGcDone; TClose] ++ map TClient (seq 0 (length (clients st))).

(* the action itself: one model step that must be enabled; a release must find
   the thread parked on a datastore call *)
Definition do_action (st : state) (a : action) : option state :=
  match a with
  | AStart i => if driver_only st (TClient i) then step st (TClient i) else None
  | AClose => if driver_only st TClose then step st TClose else None
  | ARelease t => if parked st t then step st t else None
  | ATick => step st TTimer
  end.

(* (every action was possible in the model, every snapshot equal) *)
Fixpoint replay (st : state) (ms : list macro) : bool :=
  match ms with
  | [] => true
  | m :: rest =>
      match do_action st (m_act m) with
      | None => false
      | Some st1 =>
          let st2 := quiesce (S (fuel st1)) (prio (m_act m) (m_snap m)) st1 in
          match find (runnable st2) (all_threads st2), snap_of st2 with
          | None, Some s => snap_eqb s (m_snap m) && replay st2 rest
          | _, _ => false
          end
      end
  end.

(* ---- shapes of the operations (outside the property) ---------------------------------------- *)
Definition all_deletes (l : list dsop) : bool := forallb (dsop_eqb DDelete) l.
Definition prog_shape (is_get : bool) (p : list dsop) : bool :=
  if is_get then match p with [] => true | DQuery :: r => all_deletes r | _ => false end
  else match p with [] | [DPut] => true | _ => false end.   (* [] : the call never reached the datastore *)
Definition sweep_shape (p : list dsop) : bool :=
  match p with DQuery :: r => all_deletes r | _ => false end.
Fixpoint shapes_ok (gets : list bool) (progs : list (list dsop)) : bool :=
  match gets, progs with
  | [], [] => true
  | g :: gs, p :: ps => prog_shape g p && shapes_ok gs ps
  | _, _ => false
  end.

(* ---- the property on the implementation's snapshots ------------------------------------------- *)
Definition snap_parked (s : snap) : bool :=
  existsb (fun x => match x with SPark _ => true | _ => false end) (s_clients s)
  || match s_gc s with Some _ => true | None => false end.

(* [late]: the clients whose call was made after Close had returned *)
Definition late_ok (late : list nat) (s : snap) : bool :=
  forallb (fun i => match nth_error (s_clients s) i with
                    | Some SPend | Some (SFin CRClosed) => true
                    | _ => false
                    end) late.

Fixpoint prop_go (ret : bool) (late : list nat) (ms : list macro) : bool :=
  match ms with
  | [] => true
  | m :: rest =>
      let late' := match m_act m with AStart i => if ret then i :: late else late | _ => late end in
      let s := m_snap m in
      let ret' := xstat_eqb (s_close s) XRet in
      (* once returned, Close stays returned; at and after the return nothing is parked in
         (or arrives at) the datastore; calls made after the return report closed *)
      (if ret then ret' else true)
      && (if ret' then negb (snap_parked s) else true)
      && late_ok late' s
      && prop_go ret' late' rest
  end.

(* the run was driven to its end: every call returned, Close returned *)
Definition finished (ms : list macro) : bool :=
  match last (map (fun m => Some (m_snap m)) ms) None with
  | Some s => xstat_eqb (s_close s) XRet
              && forallb (fun x => match x with SFin _ => true | _ => false end) (s_clients s)
  | None => false
  end.

Definition prop_ok (c : ccase) : bool := prop_go false [] (cc_macros c) && finished (cc_macros c).

Definition model_ok (c : ccase) : bool :=
  shapes_ok (cc_gets c) (cc_progs c) && forallb sweep_shape (cc_sweeps c)
  && replay (init (cc_progs c) (map (@tl dsop) (cc_sweeps c)) (cc_ticks c)) (cc_macros c).

(* 0 = the snapshots are those of a run of the model and the property holds on them;
   1 = the property holds on the implementation's snapshots but they are not a run of the model;
   2 = the property fails on the implementation's snapshots *)
Definition cverdict (c : ccase) : nat :=
  if prop_ok c then (if model_ok c then 0 else 1) else 2.
