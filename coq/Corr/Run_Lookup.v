(* Common executable glue for the lookup family (C01, C02, C03): the case
   record written by harness/dht/lookup_test.go, the model's observables and
   the boolean form of the properties evaluated on the implementation's trace. *)
From Verif.Lib Require Import GoSem.
From Verif.Model Require Export Lookup.
From Verif.Model Require Import Followup.
Local Open Scope N_scope.

Record case := {
  c_cfg : config;
  c_seeds : list id;                 (* routing-table seeds, as the lookup heard them *)
  c_env : list (id * outcome);       (* scripted network; a peer not listed fails requests *)
  c_evs : list event;                (* releases chosen by the driver, in order *)
  c_cancelled_before_followup : bool;
  c_cancel_followup : option nat;    (* follow-up completions received before the context was cancelled *)
  c_universe : list id;              (* C02: all peers of an honest network ([] otherwise) *)
  c_full : bool;                     (* C02: every peer knows the whole network *)
  c_burst : bool;                    (* some answers were released two at a time: the order in which the lookup processes them is the scheduler's choice, so the run is judged by the property on its own trace only *)
  c_slow : list id;                  (* peers that have to be dialled first: the dial is a step of its own (released by the driver, succeeds) *)
  (* ---- observed on the real code ---- *)
  i_panic : bool;                    (* recovered panic / deadlock *)
  i_peers : list id; i_states : list pstate; i_closest : list id; i_completed : bool;
  i_events : list levent;
  i_requests : list id;              (* every request or dial the fake network saw *)
  (* the same lookup through the public GetClosestPeers on a fresh node (C02):
     returned peers, did it return an error, did the bucket refresh stamp move *)
  i_pub : option (list id * bool * option bool * bool);
  i_attempts : list id }.             (* every contact attempt: like i_requests, but a peer that is dialled first counts once per dial (also when the dial is aborted before the request is sent) *)

Definition env_of (l : list (id * outcome)) (p : id) : outcome :=
  match find (fun x => N.eqb (fst x) p) l with
  | Some x => snd x
  | None => OReqFail
  end.

(* ---- list utilities ------------------------------------------------------------ *)
Fixpoint list_eqb {A} (eq : A -> A -> bool) (a b : list A) : bool :=
  match a, b with
  | [], [] => true
  | x :: a', y :: b' => eq x y && list_eqb eq a' b'
  | _, _ => false
  end.
Fixpoint ins_N (x : N) (l : list N) : list N :=
  match l with
  | [] => [x]
  | y :: l' => if N.leb x y then x :: l else y :: ins_N x l'
  end.
Definition sort_N (l : list N) : list N := fold_right ins_N [] l.
Fixpoint nodupb (l : list N) : bool :=
  match l with
  | [] => true
  | x :: l' => negb (memN x l') && nodupb l'
  end.
Fixpoint strictly_ascending (key : N) (l : list N) : bool :=
  match l with
  | x :: ((y :: _) as l') => N.ltb (dist key x) (dist key y) && strictly_ascending key l'
  | _ => true
  end.
(* multiset inclusion: every element of a, with multiplicity, occurs in b *)
Fixpoint remove_one (x : N) (l : list N) : option (list N) :=
  match l with
  | [] => None
  | y :: l' => if N.eqb x y then Some l'
               else match remove_one x l' with Some r => Some (y :: r) | None => None end
  end.
Fixpoint msub (a b : list N) : option (list N) :=   (* b minus a, if a is included *)
  match a with
  | [] => Some b
  | x :: a' => match remove_one x b with Some b' => msub a' b' | None => None end
  end.

Definition pstate_list_eqb := list_eqb pstate_eqb.
Definition reason_eqb (a b : reason) : bool :=
  match a, b with
  | Stopped, Stopped | Cancelled, Cancelled | Starvation, Starvation | Completed, Completed => true
  | _, _ => false
  end.
Definition levent_eqb (a b : levent) : bool :=
  match a, b with
  | EvReq c p, EvReq c' p' => N.eqb c c' && N.eqb p p'
  | EvResp c h q u, EvResp c' h' q' u' =>
      N.eqb c c' && list_eqb N.eqb h h' && list_eqb N.eqb q q' && list_eqb N.eqb u u'
  | EvTerm r, EvTerm r' => reason_eqb r r'
  | _, _ => false
  end.

(* ---- the model's run --------------------------------------------------------------- *)
Record mobs := {
  m_ok : bool;                 (* the model accepted the schedule and did not panic *)
  m_res : lresult; m_events : list levent; m_requests : list id; m_reason : option reason }.

(* the follow-up wait loop (Model/Followup.v) driven by what the harness did: the j-th completion makes
   the stop function true (StopAfterFollowups j), the context is cancelled after k completions *)
Fixpoint followup_events (fuel done : nat) (stop_at cancel_at : option nat) : list fevent :=
  match fuel with
  | O => []
  | S f =>
      match cancel_at with
      | Some k => if Nat.eqb k done then [FCancel] ++ followup_drain f else
                  FDone (match stop_at with Some j => Nat.leb j (S done) | None => false end)
                  :: followup_events f (S done) stop_at cancel_at
      | None => FDone (match stop_at with Some j => Nat.leb j (S done) | None => false end)
                :: followup_events f (S done) stop_at cancel_at
      end
  end
with followup_drain (fuel : nat) : list fevent :=
  match fuel with O => [] | S f => FDone false :: followup_drain f end.

Fixpoint frun_prefix (s : fstate) (evs : list fevent) : fstate :=
  match evs with
  | [] => s
  | e :: r => match fstep s e with Some s' => frun_prefix s' r | None => s end
  end.

Definition followup_completed (c : case) (n : nat) (completed0 : bool) : bool :=
  let stop_at := match cStop (c_cfg c) with StopAfterFollowups j => Some j | _ => None end in
  f_completed (frun_prefix (finit n completed0) (followup_events (2 * n + 2) 0 stop_at (c_cancel_followup c))).

Definition model_obs (c : case) : mobs :=
  match run_search (c_cfg c) (env_of (c_env c)) (c_seeds c) (c_evs c) with
  | RDone s =>
      let (r0, fr) := followup (c_cfg c) s (c_cancelled_before_followup c) (c_cancel_followup c) in
      let r := match fr with
               | [] => r0
               | _ => {| r_peers := r_peers r0; r_states := r_states r0; r_closest := r_closest r0;
                         r_completed := followup_completed c (length fr) (r_completed (construct_result (c_cfg c) s)) |}
               end in
      {| m_ok := true; m_res := r; m_events := evlog s; m_requests := reqs s ++ fr; m_reason := term s |}
  | _ => {| m_ok := false;
            m_res := {| r_peers := []; r_states := []; r_closest := []; r_completed := false |};
            m_events := []; m_requests := []; m_reason := None |}
  end.

Definition has_cancel (evs : list event) : bool :=
  existsb (fun e => match e with Cancel => true | _ => false end) evs.

(* after a cancellation the terminate event races with the context: compare modulo a trailing EvTerm Cancelled *)
Definition strip_cancel_term (l : list levent) : list levent :=
  match rev l with
  | EvTerm Cancelled :: r => rev r
  | _ => l
  end.

(* the requests the network saw.  The model counts a request when it is spawned; a peer that
   has to be dialled first gets the request only after its dial, which a termination or a
   cancellation in between aborts: for these peers the network may have seen fewer requests
   than were spawned, for all others exactly the same ones. *)
Definition countN (p : N) (l : list N) : nat := length (filter (N.eqb p) l).
Definition requests_agree (slow mreq ireq : list N) : bool :=
  let fast l := filter (fun p => negb (memN p slow)) l in
  list_eqb N.eqb (sort_N (fast mreq)) (sort_N (fast ireq))
  && forallb (fun p => Nat.leb (countN p ireq) (countN p mreq)) (filter (fun p => memN p slow) ireq).

Definition agrees (c : case) : bool :=
  let m := model_obs c in
  c_burst c ||
  m_ok m && negb (i_panic c)
  && list_eqb N.eqb (r_peers (m_res m)) (i_peers c)
  && pstate_list_eqb (r_states (m_res m)) (i_states c)
  && list_eqb N.eqb (r_closest (m_res m)) (i_closest c)
  && Bool.eqb (r_completed (m_res m)) (i_completed c)
  && list_eqb levent_eqb (strip_cancel_term (m_events m)) (strip_cancel_term (i_events c))
  && requests_agree (c_slow c) (m_requests m) (i_requests c).

(* ---- the property, evaluated on what the implementation did ------------------------- *)
Definition term_count (evs : list levent) : nat :=
  length (filter (fun e => match e with EvTerm _ => true | _ => false end) evs).

(* the K nearest learned, non-failed peers according to the implementation's own events *)
Definition expected_result (c : case) : list id :=
  let cfg := c_cfg c in
  let learned := dedupN (filter (fun p => negb (N.eqb p (cSelf cfg))) (c_seeds c ++ resp_heard (i_events c))) in
  let failed := resp_failed (i_events c) in
  firstn (cK cfg) (sort_dist (cKey cfg) (filter (fun p => negb (memN p failed)) learned)).

(* C01, clauses 1-5 on the returned list *)
Definition c01_result_ok (c : case) : bool :=
  let cfg := c_cfg c in
  let key := cKey cfg in
  let learned := dedupN (filter (fun p => negb (N.eqb p (cSelf cfg))) (c_seeds c ++ resp_heard (i_events c))) in
  let failed := resp_failed (i_events c) in
  let alive := filter (fun p => negb (memN p failed)) learned in
  Nat.leb (length (i_peers c)) (cK cfg)
  && nodupb (i_peers c)
  && negb (memN (cSelf cfg) (i_peers c))
  && strictly_ascending key (i_peers c)
  && forallb (fun p => memN p learned) (i_peers c)
  && forallb (fun p => negb (memN p failed)) (i_peers c)
  && list_eqb N.eqb (i_peers c) (firstn (cK cfg) (sort_dist key alive)).

(* C01, clause 6: the published events agree with what the network was asked and answered *)
Definition c01_event_ok (c : case) (e : levent) : bool :=
  match e with
  | EvResp cause h q u =>
      if N.eqb cause (cSelf (c_cfg c)) then list_eqb N.eqb h (c_seeds c) && match q, u with [], [] => true | _, _ => false end
      else match q, u with
           | [p], [] => N.eqb p cause &&
                        match env_of (c_env c) cause with
                        | OAnswer closer => list_eqb N.eqb h (process_response (c_cfg c) closer)
                        | _ => false
                        end
           | [], [p] => N.eqb p cause &&
                        match h with [] => true | _ => false end &&
                        (has_cancel (c_evs c) ||
                         match env_of (c_env c) cause with OAnswer _ => false | _ => true end)
           | _, _ => false
           end
  | _ => true
  end.
Definition c01_events_ok (c : case) : bool :=
  forallb (c01_event_ok c) (i_events c)
  && match msub (req_peers (i_events c)) (i_attempts c) with
     | Some rest => forallb (fun p => memN p (i_peers c)) rest     (* the remainder are follow-up requests *)
     | None => false
     end
  && (has_cancel (c_evs c) ||
      (Nat.eqb (term_count (i_events c)) 1 &&
       match rev (i_events c) with EvTerm _ :: _ => true | _ => false end)).

Definition c01_prop_ok (c : case) : bool := negb (i_panic c) && c01_result_ok c && c01_events_ok c.

(* ---- C02 on the implementation's trace ------------------------------------------------------------ *)
Definition uncancelled (c : case) : bool :=
  negb (has_cancel (c_evs c)) && negb (c_cancelled_before_followup c) &&
  match c_cancel_followup c with None => true | Some _ => false end.

Definition impl_reason (c : case) : option reason :=
  match rev (i_events c) with EvTerm r :: _ => Some r | _ => None end.

(* convergence: the globally nearest peer first; the K globally nearest when everybody knows everybody *)
Definition c02_convergence_ok (c : case) : bool :=
  match c_universe c with
  | [] => true
  | _ =>
      if negb (uncancelled c) then true else
      let sorted := sort_dist (cKey (c_cfg c)) (c_universe c) in
      match sorted, i_peers c with
      | g :: _, m :: _ => N.eqb g m
      | _, _ => false
      end &&
      (if c_full c then list_eqb N.eqb (i_peers c) (firstn (cK (c_cfg c)) sorted) else true)
  end.

(* the end condition, read off the implementation's own events *)
Definition c02_end_ok (c : case) : bool :=
  if negb (uncancelled c) then true else
  match impl_reason c with
  | Some Completed | Some Starvation =>
      let cfg := c_cfg c in
      let learned := dedupN (filter (fun p => negb (N.eqb p (cSelf cfg))) (c_seeds c ++ resp_heard (i_events c))) in
      let failed := resp_failed (i_events c) in
      let queried := resp_queried (i_events c) in
      let alive := sort_dist (cKey cfg) (filter (fun p => negb (memN p failed)) learned) in
      forallb (fun p => memN p queried) (firstn (cBeta cfg) alive)
      || forallb (fun p => memN p queried || memN p failed) learned
  | _ => true
  end.

(* a completed lookup has sent the request to every peer it returns *)
Definition c02_contacted_ok (c : case) : bool :=
  if i_completed c then forallb (fun p => memN p (i_requests c)) (i_peers c) else true.

(* GetClosestPeers (a second run of the same scenario through the public call): an error exactly
   when that run was cancelled; side effects exactly when completed and not cancelled; the same
   peers as the internal run when neither was cancelled.  The two runs are driven by the same
   script, but goroutines that become runnable together may reach the network in either order, so
   the cancellation instant (a step count) can fall inside one run and after the end of the other:
   [pub_cancelled] is what happened in the public run itself. *)
Definition c02_public_ok (c : case) : bool :=
  match i_pub c with
  | None => true
  | Some (peers, err, moved, pub_cancelled) =>
      Bool.eqb err pub_cancelled &&
      (if pub_cancelled then match moved with Some mv => negb mv | None => true end
       else if uncancelled c then
         list_eqb N.eqb peers (i_peers c) &&
         match moved with   (* None: the key's bucket is outside the range the routing table reports *)
         | Some mv => Bool.eqb mv (gcp_side_effects false {| r_peers := i_peers c; r_states := i_states c; r_closest := i_closest c; r_completed := i_completed c |})
         | None => true
         end
       else true)
  end.

Definition c02_prop_ok (c : case) : bool :=
  negb (i_panic c) && c02_convergence_ok c && c02_end_ok c && c02_contacted_ok c && c02_public_ok c.
