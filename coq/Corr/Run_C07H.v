(* C07, handler run: what an accepted inbound ADD_PROVIDER stores is returned by every
   later GET_PROVIDERS for the key (harness/dht/c07h_test.go: real node, real handlers,
   real ProviderManager and peerstore; no time passes, so nothing expires).

   Addresses are abstracted to their class: 0 public, 1 private, 2 loopback; the node's
   address filter is none (0) or public-only (1).  Acceptance of an announcement:
   Model/Providers.v [handle_add_provider] (theorem c07_add_provider_gate). *)
From Verif.Lib Require Import GoSem Bits.
From Verif.Model Require Export Providers.
Local Open Scope N_scope.

Inductive hop :=
| HAdd (sender : N) (keylen : nat) (pis : list pinfo) (ok : bool)   (* observed: the handler returned no error *)
| HPs (p : N) (class : N)                                           (* the peerstore learns an address of p *)
| HGet (ok : bool) (ids : list N).                                  (* observed: provider ids of the response, sorted *)

Record hcase := { h_filter : nat; h_ops : list hop }.

Definition filt (f : nat) (class : N) : bool := match f with O => true | _ => N.eqb class 0 end.

Fixpoint ins_N (x : N) (l : list N) : list N :=
  match l with [] => [x] | y :: r => if N.leb x y then x :: l else y :: ins_N x r end.
Definition sort_N (l : list N) : list N := fold_right ins_N [] l.
Fixpoint list_eqb (a b : list N) : bool :=
  match a, b with [], [] => true | x :: a', y :: b' => N.eqb x y && list_eqb a' b' | _, _ => false end.
Definition mem (x : N) (l : list N) : bool := existsb (N.eqb x) l.
Fixpoint add_all (l : list N) (s : list N) : list N :=
  match l with [] => s | x :: r => add_all r (if mem x s then s else x :: s) end.

(* code: 0 agree; 1 the handler's verdict on an announcement differs from the gate model;
   2 a query does not return exactly the providers accepted so far (the property) *)
Fixpoint run (f : nat) (stored : list N) (ops : list hop) : nat :=
  match ops with
  | [] => 0
  | HAdd sender keylen pis ok :: rest =>
      let '(res, calls) := handle_add_provider (filt f) true sender keylen pis in
      let accepted := match res with GStored => true | _ => false end in
      if Bool.eqb accepted ok
      then run f (add_all (map fst calls) stored) rest
      else 1
  | HPs _ _ :: rest => run f stored rest
  | HGet ok ids :: rest =>
      if ok && list_eqb ids (sort_N stored) then run f stored rest else 2
  end.

Definition verdict (c : hcase) : nat := run (h_filter c) [] (h_ops c).

Fixpoint verdicts_from (i : nat) (cs : list hcase) : list (nat * nat) :=
  match cs with
  | [] => []
  | c :: rest => match verdict c with O => verdicts_from (S i) rest | v => (i, v) :: verdicts_from (S i) rest end
  end.
Definition verdicts := verdicts_from 0.
