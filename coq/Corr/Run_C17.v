(* Executable glue of the C17 correspondence check.  One [case] type for the two Go
   harnesses (harness/buffered/c17_test.go, harness/provider/c17_test.go):

     CBuf   the real buffered wrapper over a recording wrapped provider: the calls it made
            must be those of the (repaired) primary model of Model/Buffered.v and their
            effect the one of one-by-one execution; CBufReal: the same over the real
            SweepingProvider, judged on which keys were advertised / kept;
     CTrace a trace recorded from the real SweepingProvider, judged by the verified
            monitor [accepts] of Model/Sweep.v (accepts_sound in Proofs/SweepProofs.v);
     CPure  the pure pipeline pieces (schedule arithmetic, schedule trie, exploration loop)
            compared with their transcription.

   Verdict codes: 0 agree and property holds; 1 differs only outside the property;
   >= 2 property fails on what the implementation did (each code is documented at its
   definition; props/C17.py maps codes to known-finding keys). *)
From Verif.Lib Require Import GoSem Bits.
From Verif.Model Require Export Buffered Sweep.
From Verif.Model Require Import Trie Keyspace.
Local Open Scope N_scope.

Fixpoint list_eqb {A} (eq : A -> A -> bool) (a b : list A) : bool :=
  match a, b with
  | [], [] => true
  | x :: a', y :: b' => eq x y && list_eqb eq a' b'
  | _, _ => false
  end.
Fixpoint ins_N (x : N) (l : list N) : list N :=
  match l with
  | [] => [x]
  | y :: l' => if N.leb x y then x :: l else y :: ins_N x l'
  end.
Definition sort_N (l : list N) : list N := fold_right ins_N [] l.

(* ================= CBuf ================================================================= *)
(* One segment: the harness parks the worker inside ProvideOnce(primer) of the wrapped
   provider, enqueues [ops] (one queue item per key), optionally closes the wrapper and
   reopens it on the same datastore, and lets the worker drain the queue. *)
Record bseg := { sg_primer : N; sg_ops : list bop; sg_restart : bool }.

(* the StopProviding list comes out of a Go map: compare sorted *)
Definition norm_call (c : icall) : icall :=
  match c with IStop l => IStop (sort_N l) | _ => c end.
Definition icall_eqb (a b : icall) : bool :=
  match a, b with
  | IStart f l, IStart g m => Bool.eqb f g && list_eqb N.eqb l m
  | IOnce l, IOnce m => list_eqb N.eqb l m
  | IStop l, IStop m => list_eqb N.eqb l m
  | _, _ => false
  end.

(* The batches of one segment.  TRUSTED dependency quirk, transcribed: after a reopen the
   items are in the datastore, and go-dsqueue v0.2.0 GetN(n) returns the head item plus
   readDatastore(n-1), whose query Limit 0 (n = 1) means "no limit": with batchSize 1 the
   worker receives everything that was persisted as ONE batch. *)
Definition seg_batches (n : nat) (s : bseg) : list (list bop) :=
  [BOnce (sg_primer s)] ::
  (if sg_restart s && Nat.eqb n 1
   then match sg_ops s with [] => [] | ops => [ops] end
   else chunks n (sg_ops s)).
Definition seg_expected (n : nat) (s : bseg) : list icall := flat_map batch_calls (seg_batches n s).
Definition buf_expected (n : nat) (segs : list bseg) : list icall := flat_map (seg_expected n) segs.
(* what the FORMER protocols (before /repo 7d0480f, b36ad55) would have called: only used to
   name the symptom of a failing case, never accepted *)
Definition buf_expected_old (n : nat) (segs : list bseg) : list icall :=
  flat_map (fun s => flat_map old_batch_calls (seg_batches n s)) segs.

Definition seg_all_ops (s : bseg) : list bop := BOnce (sg_primer s) :: sg_ops s.
Definition buf_all_ops (segs : list bseg) : list bop := flat_map seg_all_ops segs.

Definition op_keys (o : bop) : list N :=
  match o with BOnce k | BStart k | BForce k | BStop k => [k] | BBad => [] end.

(* 0: the wrapper made exactly the calls of the model and their effect is the one of
   one-by-one execution.  1: same effect, other calls.  >= 2: the effect differs from
   one-by-one execution (the property fails); 5: ... and the calls are those of the former
   protocol dropping a batch with an undecodable item; 4: ... those of the former protocol
   with the single, last stop group (ProvideOnce after StopProviding cancelled); 2: other. *)
Definition buf_verdict (n : nat) (ks0 : list N) (segs : list bseg) (impl : list icall) (panicked : bool) : nat :=
  if panicked then 3%nat else
  let ops := buf_all_ops segs in
  let univ := ks0 ++ flat_map op_keys ops in
  let s0 := {| ks := ks0; pend := [] |} in
  let s_seq := i_run s0 (seq_calls ops) in
  let s_b := i_run s0 impl in
  let agree := list_eqb icall_eqb (map norm_call (buf_expected n segs)) (map norm_call impl) in
  let as_old := list_eqb icall_eqb (map norm_call (buf_expected_old n segs)) (map norm_call impl) in
  (* the keystore holds the same keys as after one-by-one execution *)
  let ks_ok := forallb (fun k => Bool.eqb (memN k (ks s_seq)) (memN k (ks s_b))) univ in
  (* a key that one-by-one execution leaves waiting to be advertised is waiting, or kept
     (then the schedule advertises it), after the batched execution *)
  let adv_ok := forallb (fun k => implb (memN k (pend s_seq)) (memN k (pend s_b) || memN k (ks s_b))) univ in
  if ks_ok && adv_ok then (if agree then 0 else 1)%nat
  else if as_old && negb (valid_ops ops) then 5%nat
  else if as_old then 4%nat
  else 2%nat.

(* CBufReal: the wrapped provider is the real SweepingProvider (online).  Between two
   segments the harness lets virtual time pass, so everything queued is advertised.
   Reference: one-by-one execution without worker progress inside a segment (the least
   any interleaving of the one-by-one calls with the workers advertises). *)
Fixpoint seq_segs (s : inner) (must : list N) (segs : list bseg) : inner * list N :=
  match segs with
  | [] => (s, must)
  | g :: rest =>
      let s' := i_run s (seq_calls (seg_all_ops g)) in
      (* keys already kept before the batch are advertised by the schedule
         (c17_buffered_advertises_all_partial: "... or kept before the batch") *)
      let owed := filter (fun k => negb (memN k (ks s))) (pend s') in
      seq_segs {| ks := ks s'; pend := [] |} (must ++ owed) rest
  end.

Definition bufreal_verdict (n : nat) (ks0 : list N) (segs : list bseg) (advertised kept : list N) (panicked : bool) : nat :=
  if panicked then 3%nat else
  let ops := buf_all_ops segs in
  let univ := ks0 ++ flat_map op_keys ops in
  let (s_seq, must) := seq_segs {| ks := ks0; pend := [] |} [] segs in
  let ks_ok := forallb (fun k => Bool.eqb (memN k (ks s_seq)) (memN k kept)) univ in
  let adv_ok := forallb (fun k => memN k advertised || memN k kept) must in
  if ks_ok && adv_ok then 0%nat
  else if negb ks_ok && negb (valid_ops ops) then 5%nat   (* symptom of the former batch drop *)
  else if ks_ok && negb (forallb no_once_after_stop (flat_map (seg_batches n) segs)) then 4%nat
                                                          (* symptom of the former single stop group *)
  else 2%nat.

(* ================= CTrace ================================================================= *)
(* 0: the trace is accepted, hence (accepts_sound) satisfies Level0.
   21: a message went to a peer outside the K nearest / with wrong addresses;
   22: a kept key was not re-advertised in time; 23: a stopped key was advertised again;
   24: a ProvideOnce key was not advertised. *)
Definition with_D (p : params) (d : N) : params :=
  {| p_r := p_r p; p_K := p_K p; p_D := d; p_G := p_G p; p_W := p_W p; p_end := p_end p |}.
(* [d2] = D + half an interval.  25: clause 2 fails for D = interval + allowed delay but every
   kept key was advertised at least every D + interval/2: advertisements come late (the
   allowed delay is not enforced when scheduled regions are merged into a coarser prefix),
   no cycle is skipped.  22: a key waited even longer. *)
Definition trace_verdict (p : params) (d2 : N) (tr : trace) (panicked : bool) : nat :=
  if panicked then 3%nat else
  match accepts_code p tr with
  | O => 0%nat
  | 2%nat => if Nat.eqb (accepts_code (with_D p d2) tr) 0 then 25%nat else 22%nat
  | c => (20 + c)%nat
  end.

(* ================= CSched: schedule arithmetic and schedule trie ============================ *)
Fixpoint ins_bits (x : bits * N) (l : list (bits * N)) : list (bits * N) :=
  match l with
  | [] => [x]
  | y :: l' => if bits_ltb (fst x) (fst y) then x :: l else y :: ins_bits x l'
  end.
Definition sort_entries_b (l : list (bits * N)) : list (bits * N) := fold_right ins_bits [] l.

Definition sched_run (I : N) (order : bits) (adds : list bits) : res (trie N) :=
  fold_left (fun acc p => t <- acc ;; sched_add t p (reprovide_time I order p)) adds (Ok E).

Definition entry_eqb (a b : bits * N) : bool := bits_eqb (fst a) (fst b) && N.eqb (snd a) (snd b).

Definition sched_verdict (I : N) (order : bits) (times : list (bits * N)) (tbs : list (N * N * N))
           (adds : list bits) (ents : list (bits * N)) (panicked : bool) : nat :=
  if panicked then 3%nat else
  let t_ok := forallb (fun x => N.eqb (reprovide_time I order (fst x)) (snd x)) times in
  (* the offsets lie inside the cycle *)
  let r_ok := forallb (fun x => N.ltb (snd x) I) times in
  let b_ok := forallb (fun x => match x with (f, t, v) => N.eqb (time_between I f t) v && N.leb 1 v && N.leb v I end) tbs in
  let s_ok := match sched_run I order adds with
              | Ok t => list_eqb entry_eqb (sort_entries_b (entries t)) (sort_entries_b ents)
              | _ => false
              end in
  if t_ok && r_ok && b_ok && s_ok then 0%nat
  else if negb (t_ok && r_ok) then 31%nat else if negb b_ok then 32%nat else 33%nat.

(* ================= the case type =========================================================== *)
Inductive case :=
| CBuf (batch_size : nat) (ks0 : list N) (segs : list bseg) (impl : list icall) (panicked : bool)
| CBufReal (batch_size : nat) (ks0 : list N) (segs : list bseg) (advertised kept : list N) (panicked : bool)
| CTrace (p : params) (d2 : N) (tr : trace) (panicked : bool)
| CSched (I : N) (order : bits) (times : list (bits * N)) (tbs : list (N * N * N))
         (adds : list bits) (ents : list (bits * N)) (panicked : bool).

Definition verdict (c : case) : nat :=
  match c with
  | CBuf n ks0 segs impl p => buf_verdict n ks0 segs impl p
  | CBufReal n ks0 segs adv kept p => bufreal_verdict n ks0 segs adv kept p
  | CTrace p d2 tr panicked => trace_verdict p d2 tr panicked
  | CSched iv order times tbs adds ents p => sched_verdict iv order times tbs adds ents p
  end.

Fixpoint verdicts_from (i : nat) (cs : list case) : list (nat * nat) :=
  match cs with
  | [] => []
  | c :: rest => match verdict c with
                 | O => verdicts_from (S i) rest
                 | v => (i, v) :: verdicts_from (S i) rest
                 end
  end.
Definition verdicts := verdicts_from 0.
