(* Executable observation functions for the C09 correspondence check. *)
From Verif.Lib Require Import GoSem Bits.
From Verif.Gen Require Import Consts Dispatch.
From Verif.Model Require Export PeerRecord Handlers.
Local Open Scope Z_scope.

(* compact constructors used by the generated case files *)
Definition B (t : N) (l : Z) : bstr := {| b_tag := t; b_len := l |}.
Definition A (t : N) (l : Z) (ok : bool) : addr := {| a_tag := t; a_len := l; a_ok := ok |}.
Definition Pr (id : bstr) (addrs : list addr) (c : Z) : apeer :=
  {| p_id := id; p_addrs := addrs; p_conn := c |}.
Definition P (id : bstr) (addrs : list addr) (c : Z) : option apeer := Some (Pr id addrs c).
Definition PNil : option apeer := None.
Definition I (id : bstr) (addrs : list addr) : ainfo := {| ai_id := id; ai_addrs := addrs |}.
Definition R (k v : bstr) : arecord := {| r_key := k; r_value := v |}.
Definition RP (id : bstr) (kad : N) : rpeer := {| rp_id := id; rp_kad := kad |}.
Definition Q (ty : Z) (key : bstr) (kad : N) (cluster : Z) (rec : option arecord)
           (closer provs : list (option apeer)) : request :=
  {| q_type := ty; q_key := key; q_kad := kad; q_cluster := cluster; q_record := rec;
     q_closer := closer; q_provs := provs |}.
Definition Rs (ty : Z) (key : bstr) (cluster : Z) (rec : option arecord) (closer provs : list apeer)
  : response :=
  {| s_type := ty; s_key := key; s_cluster := cluster; s_record := rec; s_closer := closer; s_provs := provs |}.
Definition Nd (self : bstr) (server values providers : bool) (K : nat) (rt : list rpeer)
           (pstore : list (bstr * list addr)) (connected : list bstr) (flt : option (list N))
           (value : option arecord) (value_err put_ok : bool) (provs : list ainfo)
           (provs_err add_fail : bool) : node :=
  {| n_self := self; n_server := server; n_values := values; n_providers := providers; n_K := K;
     n_rt := rt; n_pstore := pstore; n_connected := connected; n_filter := flt; n_value := value;
     n_value_err := value_err; n_put_ok := put_ok; n_provs := provs; n_provs_err := provs_err;
     n_add_fail := add_fail |}.

(* what the harness observed.  Sizes are the real proto.Size of the response and
   of its largest peer record.  [IReset None]: reset seen on a stream, where the
   handler's error is not visible. *)
Inductive iobs :=
| IPanic
| IRespond (r : response) (size max_rec : Z)
| INoReply
| IReset (e : option herr).

Inductive via := Direct | Stream.

Record case := {
  c_via : via;
  c_node : node;
  c_from : bstr;
  c_req : option request;     (* None: bytes that proto.Unmarshal or the framing rejects *)
  c_hyp : bool;               (* the ids of the node are within the bound of node_ok *)
  c_impl : iobs;
  c_stored : list ainfo       (* providers handed to the provider store and stored *)
}.

Definition max_rec_size (r : response) : Z :=
  fold_right (fun p m => Z.max (proto_size_peer p) m) 0 (s_closer r ++ s_provs r).

Definition sized (t : Z) : bool := (t =? Message_FIND_NODE) || (t =? Message_GET_PROVIDERS).

Definition model (c : case) : iobs * list ainfo :=
  match c_req c with
  | None => (IReset (Some HNoHandler), [])
  | Some q =>
      match serve (c_node c) (c_from c) q with
      | Ok (Respond r, st) => (IRespond r (proto_size_response r) (max_rec_size r), st)
      | Ok (NoReply, st) => (INoReply, st)
      | Ok (ResetStream e, st) => (IReset (Some e), st)
      | _ => (IPanic, [])
      end
  end.

(* ---- equality of observations ------------------------------------------ *)
Fixpoint list_eqb {A} (eq : A -> A -> bool) (a b : list A) : bool :=
  match a, b with
  | [], [] => true
  | x :: a', y :: b' => eq x y && list_eqb eq a' b'
  | _, _ => false
  end.
Definition opt_eqb {A} (eq : A -> A -> bool) (a b : option A) : bool :=
  match a, b with
  | None, None => true
  | Some x, Some y => eq x y
  | _, _ => false
  end.
Definition bstr_same (a b : bstr) : bool := N.eqb (b_tag a) (b_tag b) && (b_len a =? b_len b).
Definition addr_same (a b : addr) : bool :=
  N.eqb (a_tag a) (a_tag b) && (a_len a =? a_len b) && Bool.eqb (a_ok a) (a_ok b).
Definition ainfo_same (a b : ainfo) : bool :=
  bstr_same (ai_id a) (ai_id b) && list_eqb addr_same (ai_addrs a) (ai_addrs b).
Definition apeer_same (a b : apeer) : bool :=
  bstr_same (p_id a) (p_id b) && list_eqb addr_same (p_addrs a) (p_addrs b) && (p_conn a =? p_conn b).
Definition arecord_same (a b : arecord) : bool :=
  bstr_same (r_key a) (r_key b) && bstr_same (r_value a) (r_value b).
(* empty byte strings have no identity *)
Definition key_same (a b : bstr) : bool := bstr_eqb a b && (b_len a =? b_len b).
Definition response_same (a b : response) : bool :=
  (s_type a =? s_type b) && key_same (s_key a) (s_key b) && (s_cluster a =? s_cluster b)
  && opt_eqb arecord_same (s_record a) (s_record b)
  && list_eqb apeer_same (s_closer a) (s_closer b) && list_eqb apeer_same (s_provs a) (s_provs b).
Definition herr_eqb (a b : herr) : bool :=
  match a, b with
  | HNotServer, HNotServer | HNoHandler, HNoHandler | HEmptyKey, HEmptyKey | HKeyTooLong, HKeyTooLong
  | HNilRecord, HNilRecord | HKeyMismatch, HKeyMismatch | HStore, HStore
  | HNoValidProvider, HNoValidProvider => true
  | _, _ => false
  end.

(* [strict]: also compare the serialized sizes *)
Definition iobs_eqb (strict : bool) (a b : iobs) : bool :=
  match a, b with
  | IPanic, IPanic => true
  | IRespond r s m, IRespond r' s' m' =>
      response_same r r' && (negb strict || ((s =? s') && (m =? m')))
  | INoReply, INoReply => true
  | IReset (Some e), IReset (Some f) => herr_eqb e f
  | IReset _, IReset _ => true
  | _, _ => false
  end.

(* ---- the property, evaluated on what the implementation did ------------- *)
Definition wire_case (c : case) : bool :=
  match c_req c with Some q => wire_request q | None => true end.

Definition ids_clean (self from : bstr) (l : list apeer) : bool :=
  forallb (fun p => negb (bstr_eqb (p_id p) self) && negb (bstr_eqb (p_id p) from)) l.

(* nearest first: the XOR distances of the listed routing-table peers never decrease *)
Fixpoint kad_of (rt : list rpeer) (id : bstr) : option N :=
  match rt with
  | [] => None
  | p :: rt' => if bstr_eqb (rp_id p) id then Some (rp_kad p) else kad_of rt' id
  end.
Fixpoint nondecreasing (l : list N) : bool :=
  match l with
  | a :: ((b :: _) as l') => N.leb a b && nondecreasing l'
  | _ => true
  end.
Definition nearest_first (nd : node) (k : N) (l : list apeer) : bool :=
  forallb (fun p => match kad_of (n_rt nd) (p_id p) with Some _ => true | None => false end) l
  && nondecreasing (map (fun p => match kad_of (n_rt nd) (p_id p) with
                                  | Some x => N.lxor x k | None => 0%N end) l).

Definition prop_ok (c : case) : bool :=
  let nd := c_node c in
  if negb (wire_case c) then true
  else
    match c_impl c with
    | IPanic => false
    | _ =>
        (* a node that is not a server answers nothing and stores nothing *)
        (if n_server nd then true
         else match c_impl c, c_stored c with IReset _, [] => true | _, _ => false end)
        &&
        (match c_impl c, c_req c with
         | IRespond r size max_rec, Some q =>
             let t := q_type q in
             (* echoes carry no peer records *)
             (if (t =? Message_PING) || (t =? Message_PUT_VALUE)
              then match s_closer r, s_provs r with [], [] => true | _, _ => false end else true)
             (* every record within 8 KiB, FIND_NODE / GET_PROVIDERS within the transport limit *)
             && (if c_hyp c then (max_rec <=? MaxPeerRecordSize) else true)
             && (if c_hyp c && sized t && (n_K nd <=? 500)%nat then size <=? MessageSizeMax else true)
             (* at most K closer peers (one more for FIND_NODE: the requested peer, first),
                never the node or the requester otherwise *)
             && (if (1 <=? n_K nd)%nat
                 then
                   if t =? Message_FIND_NODE
                   then (length (s_closer r) <=? n_K nd + 1)%nat
                        && match s_closer r with
                           | [] => true
                           | p :: rest =>
                               if bstr_eqb (p_id p) (q_key q)
                               then ids_clean (n_self nd) (c_from c) rest
                                    && (length rest <=? n_K nd)%nat
                                    && nearest_first nd (q_kad q) rest
                               else ids_clean (n_self nd) (c_from c) (p :: rest)
                                    && (length (p :: rest) <=? n_K nd)%nat
                                    && nearest_first nd (q_kad q) (p :: rest)
                           end
                   else (length (s_closer r) <=? n_K nd)%nat
                        && ids_clean (n_self nd) (c_from c) (s_closer r)
                        && nearest_first nd (q_kad q) (s_closer r)
                 else true)
         | IRespond _ _ _, None => false
         | _, _ => true
         end)
        &&
        (* only ADD_PROVIDER with a key of 1-80 bytes stores, only the sender, only
           addresses that pass the filter *)
        (match c_stored c with
         | [] => true
         | st =>
             match c_req c with
             | Some q =>
                 (q_type q =? Message_ADD_PROVIDER) && (1 <=? b_len (q_key q)) && (b_len (q_key q) <=? 80)
                 && forallb (fun i => bstr_eqb (ai_id i) (c_from c)
                                      && list_eqb addr_same (filter_addrs nd (ai_addrs i)) (ai_addrs i)) st
                 && match c_impl c with INoReply => true | _ => false end
             | None => false
             end
         end)
    end.

(* 0 = agree and the property holds on the trace; 1 = differ where the property
   says nothing (hand-made request with a nil entry, or the class of the error
   behind a reset); 2 = the property fails on the implementation's observation, or
   the observation departs from the proved model. *)
Definition verdict (c : case) : nat :=
  if negb (prop_ok c) then 2
  else if match c_req c with None => true | Some _ => false end then
    (* bytes that are not a request: nothing is answered, nothing stored; the
       stream is reset, or closed when the bytes end at a frame boundary *)
    match c_impl c, c_stored c with
    | IReset _, [] => 0
    | INoReply, [] => 0
    | _, _ => 2
    end
  else
    let (m, st) := model c in
    let strict := match c_req c with Some q => sized (q_type q) | None => false end in
    if iobs_eqb strict m (c_impl c) && list_eqb ainfo_same st (c_stored c) then 0
    else if negb (wire_case c) then 1
    else match m, c_impl c with
         | IReset _, IReset _ => if list_eqb ainfo_same st (c_stored c) then 1 else 2
         | _, _ => 2
         end.

Fixpoint verdicts_from (i : nat) (cs : list case) : list (nat * nat) :=
  match cs with
  | [] => []
  | c :: rest => match verdict c with
                 | O => verdicts_from (S i) rest
                 | v => (i, v) :: verdicts_from (S i) rest
                 end
  end.
Definition verdicts := verdicts_from 0.
