(* C06 correspondence glue: the lookup inside the operation is replayed on the
   lookup model; what was sent afterwards is compared with Model/PutFlow.v and
   checked against the property on the implementation's own trace. *)
From Verif.Lib Require Import GoSem.
From Verif.Corr Require Export Run_Lookup.
From Verif.Model Require Import PutFlow.
Local Open Scope N_scope.

Record case6 := {
  lk : case;
  o_op : nat;                    (* 0 PutValue, 1 classic Provide, 2 optimistic Provide, 3 SearchValue corrective puts *)
  o_err : bool;
  o_addrs_nonempty : bool;       (* the filtered advertised addresses are not empty *)
  o_local_first : bool;          (* the local store held the record / provider row when the first message left *)
  o_sends : list (id * bool);    (* recipient; message content as required (same key and value / exactly self with the filtered addresses) *)
  o_pwb : list id }.             (* op 3: the peers whose processed answer carried the best value *)

Definition recipients (c : case6) : list id := map fst (o_sends c).
Definition same_set (a b : list id) : bool := list_eqb N.eqb (sort_N a) (sort_N b).

(* the property, on the implementation's trace *)
Definition c06_prop_ok (c : case6) : bool :=
  let exp := expected_result (lk c) in
  let local_first := match o_sends c with [] => true | _ => o_local_first c end in
  negb (i_panic (lk c)) &&
  forallb snd (o_sends c) &&
  match o_op c with
  | 0%nat => if o_err c then true else same_set (recipients c) exp && local_first
  | 1%nat => if o_err c then true else
             if o_addrs_nonempty c then same_set (recipients c) exp && local_first
             else match o_sends c with [] => true | _ => false end
  | 2%nat => if o_err c then true else
             if o_addrs_nonempty c
             then nodupb (recipients c) && forallb (fun p => memN p (recipients c)) exp && local_first
             else match o_sends c with [] => true | _ => false end
  | _ => if o_err c then true else same_set (recipients c) (corrective_puts exp (o_pwb c))
  end.

(* agreement with the model: the lookup model's result, then PutFlow *)
Definition c06_agrees (c : case6) : bool :=
  let m := model_obs (lk c) in
  if o_err c then true else
  match o_op c with
  | 0%nat => m_ok m && same_set (recipients c) (r_peers (m_res m))
  | 1%nat => m_ok m && same_set (recipients c) (provide_sends (o_addrs_nonempty c) (r_peers (m_res m)))
  | 2%nat => true     (* the stop function of optimistic provide (gamma thresholds) is not modelled *)
  | _ => m_ok m && same_set (recipients c) (corrective_puts (r_peers (m_res m)) (o_pwb c))
  end.

Definition verdict (c : case6) : nat := if negb (c06_prop_ok c) then 2 else if c06_agrees c then 0 else 1.

Fixpoint verdicts_from (i : nat) (cs : list case6) : list (nat * nat) :=
  match cs with
  | [] => []
  | c :: rest => match verdict c with
                 | O => verdicts_from (S i) rest
                 | v => (i, v) :: verdicts_from (S i) rest
                 end
  end.
Definition verdicts := verdicts_from 0.
