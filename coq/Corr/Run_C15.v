(* Executable glue for the C15 correspondence check.  One constructor of [case] per
   kind of experiment of harness/dual/c15_test.go; every constructor carries the
   generated inputs followed by the observations recorded from the Go code.
   Verdicts: 0 agree and the property holds on the observation; 1 they differ only on an
   observable the property does not speak about (PrivateRoutingTableFilter, whether the
   other inner DHT stayed silent during a direct inner lookup, the error / recorded
   providers of an inbound ADD_PROVIDER or GET_PROVIDERS); 2 the property fails on
   the observation or the observation departs from the proved model on a
   property-relevant observable (which is everything else: address scoping, write
   routing, read merging). *)
From Verif.Lib Require Import GoSem Bits.
From Verif.Model Require Export AddrClass Dual.

Definition A_ := Build_maddr.

(* ---- small list utilities on nat ---------------------------------------------------- *)
Fixpoint ins_nat (x : nat) (l : list nat) : list nat :=
  match l with
  | [] => [x]
  | y :: r => if Nat.ltb x y then x :: l else if Nat.eqb x y then l else y :: ins_nat x r
  end.
Definition sort_nat (l : list nat) : list nat := fold_right ins_nat [] l.   (* sorted, duplicate-free *)
Definition mem (x : nat) (l : list nat) : bool := existsb (Nat.eqb x) l.
Definition subset (a b : list nat) : bool := forallb (fun x => mem x b) a.
Fixpoint list_eqb {T} (eq : T -> T -> bool) (a b : list T) : bool :=
  match a, b with
  | [], [] => true
  | x :: a', y :: b' => eq x y && list_eqb eq a' b'
  | _, _ => false
  end.
Definition set_eqb (a b : list nat) : bool := list_eqb Nat.eqb (sort_nat a) (sort_nat b).
Fixpoint nodupb (l : list nat) : bool :=
  match l with [] => true | x :: r => negb (mem x r) && nodupb r end.
Definition ids (l : list maddr) : list nat := sort_nat (map a_id l).
Definition by_id (pool : list maddr) (i : nat) : option maddr := find (fun a => Nat.eqb (a_id a) i) pool.
(* every id of [l] names an address of [pool] that satisfies [f] *)
Definition all_ids (pool : list maddr) (f : maddr -> bool) (l : list nat) : bool :=
  forallb (fun i => match by_id pool i with Some a => f a | None => false end) l.

Inductive order := OFree | OWanFirst | OLanFirst.

Record ref := R_ { r_target : bool; r_resp : list maddr; r_known : list maddr; r_contacted : bool; r_after : list nat }.

Inductive case :=
| CAddr (addrs own : list maddr) (nconns : nat) (remote : list maddr)
        (each : list bool) (pubq privq : bool) (wan_adv lan_adv : list nat) (pub_rt priv_rt : bool)
| CLookup (s : side) (refs : list ref) (seed_contacted other_saw : bool)
| CWrite (is_provide : bool) (wan_n lan_n : nat) (own : list maddr)
         (wan_saw lan_saw wan_wrote lan_wrote : bool) (wan_adv lan_adv : list nat) (err : list nat)
| CProvideLocal (wan_n lan_n : nat) (in_wan in_lan ok sent : bool)
  (* Provide without announcing: which inner provider store recorded this node, did the call succeed,
     did any request leave the node *)
| CGet (wan lan : option nat * option err) (dval : option nat) (derr : list nat)
| CFindPeer (wresp lresp : list maddr) (wA : list nat) (wErr : option err) (lA : list nat) (lErr : option err)
            (dA : list nat) (dErr : list nat)
| CProv (count : Z) (o : order) (w l out : list nat)
| CCombine (a b : option err) (isnil : bool) (sent : list nat)
(* inbound: the provider-record sites of one inner DHT (this node is peer 0).
   CInAdd: an ADD_PROVIDER from [sender] with entries [msg], peerstore before = [known];
     observed: the handler failed, the providers now recorded for the key, the peerstore
     addresses of every peer involved.
   CInGet: a GET_PROVIDERS served with [provs] = the recorded providers and their peerstore
     addresses (ascending peer number); observed: error, the attached records (same order).
   CInFind: FindProvidersAsync(count) whose responders name [provs]; [conn] = connected
     peers; observed: the peerstore addresses of every peer involved. *)
| CInAdd (s : side) (key_ok : bool) (sender : nat) (msg known : list pentry)
         (err : bool) (recorded : list nat) (after : list (nat * list nat))
| CInGet (s : side) (key_ok : bool) (provs : list pentry) (err : bool) (resp : list (nat * list nat))
| CInFind (s : side) (count : Z) (provs known : list pentry) (conn : list nat) (after : list (nat * list nat)).

Definition err_obs_eqb (m : option err) (obs : list nat) : bool :=
  match m with
  | None => match obs with [] => true | _ => false end
  | Some e => match obs with [] => false | _ => set_eqb (sentinels e) obs end
  end.
Definition onat_eqb (a b : option nat) : bool :=
  match a, b with Some x, Some y => Nat.eqb x y | None, None => true | _, _ => false end.

Definition code (prop_ok rel_eq other_eq : bool) : nat :=
  if negb prop_ok then 2 else if negb rel_eq then 2 else if negb other_eq then 1 else 0.

(* ---- addr ----------------------------------------------------------------------------------- *)
Definition v_addr (addrs own : list maddr) (nconns : nat) (remote : list maddr)
    (each : list bool) (pubq privq : bool) (wan_adv lan_adv : list nat) (pub_rt priv_rt : bool) : nat :=
  let prop :=
    (* what the WAN DHT advertises is public, what the LAN DHT advertises is not loopback,
       a peer passes the WAN query filter only with a public non-relay address *)
    all_ids addrs manet_is_public wan_adv && all_ids addrs (fun a => negb (is_ip_loopback a)) lan_adv
    && (if pubq then existsb good_public addrs else true)
    && (if pub_rt then existsb good_public addrs else true) in
  let rel :=
    list_eqb Bool.eqb (map good_public addrs) each
    && Bool.eqb (public_query_filter addrs) pubq
    && Bool.eqb (private_query_filter addrs) privq
    && list_eqb Nat.eqb (ids (advertised WAN addrs)) wan_adv
    && list_eqb Nat.eqb (ids (advertised LAN addrs)) lan_adv
    && Bool.eqb (public_rt_filter nconns addrs) pub_rt in
  let other :=
    match private_rt_filter own remote with
    | Some b => Bool.eqb b priv_rt
    | None => true      (* decided by the OS routing table *)
    end in
  code prop rel other.

(* ---- lookup --------------------------------------------------------------------------------- *)
Definition ref_prop (s : side) (r : ref) : bool :=
  let all := r_resp r ++ r_known r in
  let learnt := filter (fun i => negb (mem i (map a_id (r_known r)))) (r_after r) in
  match s with
  | WAN => (if r_contacted r then r_target r || existsb good_public all else true)
           && all_ids all manet_is_public learnt
  | LAN => all_ids all (fun a => negb (is_ip_loopback a)) learnt
  end.
Definition ref_rel (s : side) (r : ref) : bool :=
  Bool.eqb (admits s (r_target r) (r_resp r) (r_known r)) (r_contacted r)
  && list_eqb Nat.eqb (ids (r_known r ++ stored s (r_target r) false (r_resp r) (r_known r))) (r_after r).
Definition v_lookup (s : side) (refs : list ref) (seed_contacted other_saw : bool) : nat :=
  code (forallb (ref_prop s) refs) (forallb (ref_rel s) refs && seed_contacted) (negb other_saw).

(* ---- write ------------------------------------------------------------------------------------ *)
Definition v_write (is_provide : bool) (wan_n lan_n : nat) (own : list maddr)
    (wan_saw lan_saw wan_wrote lan_wrote : bool) (wan_adv lan_adv err : list nat) : nat :=
  let prop :=
    (* exactly when the WAN table is non-empty the write goes to the WAN DHT, otherwise to the LAN DHT *)
    (if Nat.ltb 0 wan_n then negb lan_saw && negb lan_wrote else negb wan_saw && negb wan_wrote)
    && all_ids own manet_is_public wan_adv && all_ids own (fun a => negb (is_ip_loopback a)) lan_adv in
  let t := write_target wan_n in
  let n_t := match t with WAN => wan_n | LAN => lan_n end in
  let adv_t := if is_provide then ids (advertised t own) else [] in
  (* inner DHT (modelled, not verified): a write on an empty table contacts nobody and fails
     with kb.ErrLookupFailure; on a non-empty table it looks up, then sends (ADD_PROVIDER is
     not sent when there is no address to advertise) and succeeds *)
  let live := Nat.ltb 0 n_t in
  let wrote_t := live && (if is_provide then match adv_t with [] => false | _ => true end else true) in
  let exp (sd : side) := match t, sd with WAN, WAN | LAN, LAN => true | _, _ => false end in
  let rel :=
    Bool.eqb wan_saw (exp WAN && live) && Bool.eqb lan_saw (exp LAN && live)
    && Bool.eqb wan_wrote (exp WAN && wrote_t) && Bool.eqb lan_wrote (exp LAN && wrote_t)
    && list_eqb Nat.eqb wan_adv (if exp WAN && live then adv_t else [])
    && list_eqb Nat.eqb lan_adv (if exp LAN && live then adv_t else [])
    && list_eqb Nat.eqb err (if live then [] else [0%nat]) in
  code prop rel true.

(* ---- get ----------------------------------------------------------------------------------------- *)
Definition v_get (wan lan : option nat * option err) (dval : option nat) (derr : list nat) : nat :=
  let m := get_value_merge wan lan in
  let prop :=
    match snd wan, snd lan with
    | None, _ => onat_eqb dval (fst wan) && match derr with [] => true | _ => false end
    | Some _, None => onat_eqb dval (fst lan) && match derr with [] => true | _ => false end
    | Some _, Some _ => match derr with [] => false | _ => true end
    end in
  code prop (onat_eqb (fst m) dval && err_obs_eqb (snd m) derr) true.

(* ---- findpeer ------------------------------------------------------------------------------------ *)
Definition mk_id (i : nat) : maddr := {| a_id := i; a_zone := false; a_head := HOther; a_relay := false |}.
Definition v_findpeer (wresp lresp : list maddr) (wA : list nat) (wErr : option err) (lA : list nat) (lErr : option err)
    (dA dErr : list nat) : nat :=
  let prop :=
    (* union as sets, no duplicates; the inner WAN result only carries public addresses,
       the inner LAN result no loopback address *)
    set_eqb dA (wA ++ lA) && nodupb dA
    && all_ids wresp manet_is_public wA && all_ids lresp (fun a => negb (is_ip_loopback a)) lA
    && (match wErr, lErr with None, _ | _, None => match dErr with [] => true | _ => false end
                            | _, _ => match dErr with [] => false | _ => true end end) in
  let rel :=
    list_eqb Nat.eqb (ids (find_peer_addrs (map mk_id wA) (map mk_id lA))) dA
    && err_obs_eqb (find_peer_err wErr lErr) dErr in
  code prop rel true.

(* ---- providers -------------------------------------------------------------------------------------- *)
Fixpoint take (n : nat) (l : list nat) : list nat :=
  match n, l with O, _ | _, [] => [] | S k, x :: r => x :: take k r end.
Definition v_prov (count : Z) (o : order) (w l out : list nat) : nat :=
  let all := w ++ l in
  let capped := Z.ltb 0 count && Z.eqb (Z.of_nat (length out)) count in
  let prop :=
    nodupb out
    && (if Z.ltb 0 count then Z.leb (Z.of_nat (length out)) count else true)
    && (if Z.ltb count 0 then match out with [] => true | _ => false end else true)
    && subset out all
    && (if capped || Z.ltb count 0 then true else subset all out)
    (* the side that was let through first fills the front of the output *)
    && (let front (f : list nat) :=
          let k := if Z.ltb 0 count then Nat.min (Z.to_nat count) (length (sort_nat f)) else length (sort_nat f) in
          subset (take k out) f in
        match o with OFree => true | OWanFirst => front w | OLanFirst => front l end) in
  (* an arrival sequence compatible with the forced order under which the model must produce
     exactly the observed output (the order inside one inner stream is not observable) *)
  let tag (p : nat) :=
    match o with
    | OLanFirst => if mem p l then AProv LAN p else AProv WAN p
    | _ => if mem p w then AProv WAN p else AProv LAN p
    end in
  let rest (s : side) (f : list nat) := map (AProv s) (filter (fun p => negb (mem p out)) f) in
  let arrivals := map tag out ++ rest WAN w ++ rest LAN l ++ [AClosed WAN; AClosed LAN] in
  code prop (list_eqb Nat.eqb (prov_merge count arrivals) out) true.

(* ---- combineErrors ------------------------------------------------------------------------------------- *)
Definition v_combine (a b : option err) (isnil : bool) (sent : list nat) : nat :=
  let m := combine_errors a b in
  code true (Bool.eqb (match m with None => true | Some _ => false end) isnil && err_obs_eqb m sent) true.

(* ---- inbound provider messages --------------------------------------------------------------------------- *)
Definition keepf (s : side) (a : maddr) : bool :=
  match s with WAN => manet_is_public a | LAN => negb (is_ip_loopback a) end.
Definition addrs_of (q : nat) (l : list pentry) : list maddr :=
  flat_map (fun e => if Nat.eqb (pe_id e) q then pe_addrs e else []) l.
Definition writes_of (q : nat) (w : list (nat * maddr)) : list maddr :=
  flat_map (fun qa => if Nat.eqb (fst qa) q then [snd qa] else []) w.
(* the property on one peer's peerstore entry: every address that was not there before is
   one the message gave for this very peer and passes the DHT's address filter *)
Definition peer_prop (s : side) (msg known : list pentry) (qa : nat * list nat) : bool :=
  let learnt := filter (fun i => negb (mem i (map a_id (addrs_of (fst qa) known)))) (snd qa) in
  all_ids (addrs_of (fst qa) msg) (keepf s) learnt.
Definition peer_expect (known : list pentry) (w : list (nat * maddr)) (q : nat) : list nat :=
  ids (addrs_of q known ++ writes_of q w).
Definition peer_rel (known : list pentry) (w : list (nat * maddr)) (qa : nat * list nat) : bool :=
  list_eqb Nat.eqb (peer_expect known w (fst qa)) (snd qa).

Definition v_in_add (s : side) (key_ok : bool) (sender : nat) (msg known : list pentry)
    (err : bool) (recorded : list nat) (after : list (nat * list nat)) : nat :=
  let w := add_provider_writes s key_ok 0 sender msg in
  code (forallb (peer_prop s msg known) after)
       (forallb (peer_rel known w) after)
       (Bool.eqb err (add_provider_err s key_ok sender msg)
        && list_eqb Nat.eqb recorded (sort_nat (add_provider_recorded s key_ok sender msg))).

Definition v_in_get (s : side) (key_ok : bool) (provs : list pentry) (err : bool) (resp : list (nat * list nat)) : nat :=
  let m := get_providers_attached s key_ok (length provs) provs in
  code (forallb (fun qr => all_ids (addrs_of (fst qr) provs) (keepf s) (snd qr)) resp)
       (list_eqb (fun x y => Nat.eqb (fst x) (fst y) && list_eqb Nat.eqb (snd x) (snd y))
                 (map (fun r => (pe_id r, ids (pe_addrs r))) m) resp)
       (Bool.eqb err (negb key_ok)).

Definition v_in_find (s : side) (count : Z) (provs known : list pentry) (conn : list nat) (after : list (nat * list nat)) : nat :=
  let w := find_providers_writes s 0 (fun q => mem q conn) provs in
  let rel :=
    if Z.eqb count 0 then forallb (peer_rel known w) after
    else (* the search may stop before every entry is processed: between what was known and the full expectation *)
      forallb (fun qa => subset (ids (addrs_of (fst qa) known)) (snd qa)
                         && subset (snd qa) (peer_expect known w (fst qa))) after in
  code (forallb (peer_prop s provs known) after) rel true.

Definition verdict (c : case) : nat :=
  match c with
  | CAddr a o n r e pq vq wa la pr vr => v_addr a o n r e pq vq wa la pr vr
  | CLookup s refs sc os => v_lookup s refs sc os
  | CWrite p wn ln own ws ls ww lw wa la e => v_write p wn ln own ws ls ww lw wa la e
  | CProvideLocal wn ln iw il ok sent =>
      (* routed to the WAN DHT exactly when its routing table is non-empty; recorded there and only there;
         nothing is sent *)
      if ok && negb sent && Bool.eqb iw (0 <? wn)%nat && Bool.eqb il (wn =? 0)%nat then 0 else 2
  | CGet w l dv de => v_get w l dv de
  | CFindPeer wr lr wA wE lA lE dA dE => v_findpeer wr lr wA wE lA lE dA dE
  | CProv c o w l out => v_prov c o w l out
  | CCombine a b n s => v_combine a b n s
  | CInAdd s k sd msg kn e rc af => v_in_add s k sd msg kn e rc af
  | CInGet s k pv e rs => v_in_get s k pv e rs
  | CInFind s c pv kn cn af => v_in_find s c pv kn cn af
  end.

Fixpoint verdicts_from (i : nat) (cs : list case) : list (nat * nat) :=
  match cs with
  | [] => []
  | c :: rest => match verdict c with
                 | O => verdicts_from (S i) rest
                 | v => (i, v) :: verdicts_from (S i) rest
                 end
  end.
Definition verdicts := verdicts_from 0.
