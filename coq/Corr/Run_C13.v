(* Executable glue for the C13 correspondence check.

   The harness drives a real IpfsDHT (fake host, real event bus, synctest) with
   DRIVER operations; each is expanded here into the atomic events of
   Model/Mode.v.  Where the real goroutines act eagerly (the subscriber takes a
   queued event as soon as it can, a handler goroutine performs its mode read as
   soon as it is at the top of its loop, a read on a reset stream fails at once)
   [settle] applies the corresponding enabled events until none is left.  The
   harness can delay two things, exactly those the model leaves free:
     - the start of a dispatched stream's handler goroutine ([held] streams);
     - the second half of moveToClientMode, by a gate in the fake
       Network().Conns() ([c_gated]; the node is then "in the window"). *)
From Verif.Lib Require Import GoSem Bits.
From Verif.Gen Require Export ModeTable.
From Verif.Model Require Export Mode.

Inductive op :=
| DEmit (r : reachability)                       (* emit on the bus (and wait until everything is quiet or parked) *)
| DNewStream (s : nat) (k : skind) (held neg : bool)
                                                 (* offer a stream to the host; held: do not start its handler yet;
                                                    neg (held streams): its protocol is not set until it is started *)
| DStart (s : nat)                               (* start the handler goroutine of a held stream (ignored in the window) *)
| DMsg (s : nat) (good : bool)                   (* write one request on s (ignored unless s is being read) *)
| DEOF (s : nat)                                 (* remote closes its side of s *)
| DRelease.                                      (* open the gate inside moveToClientMode *)

Record sobs := { so_id : nat; so_kind : skind; so_vis : bool; so_handled : nat; so_rst : bool; so_closed : bool }.
Record snap := { o_mode : option mode; o_handler : bool; o_window : bool; o_streams : list sobs }.

(* short constructors for the generated case files *)
Definition so_ := Build_sobs.
Definition sn_ := Build_snap.

Record g := { g_st : st; g_held : list nat; g_gated : bool }.

Definition mem (i : nat) (l : list nat) : bool := existsb (Nat.eqb i) l.
Definition remove_nat (i : nat) (l : list nat) : list nat := filter (fun j => negb (Nat.eqb i j)) l.

Definition apply_ev (x : g) (e : event) : g :=
  match step (g_st x) e with
  | Some s' => {| g_st := s'; g_held := g_held x; g_gated := g_gated x |}
  | None => x
  end.

(* the first handler goroutine that can move on its own *)
Fixpoint first_ready (held : list nat) (l : list stream) : option event :=
  match l with
  | [] => None
  | x :: rest =>
      if skind_eqb (kind x) KInDHT && phase_eqb (ph x) PStart && negb (mem (sid x) held)
      then Some (if vis x then EModeRead (sid x) else EAnnounce (sid x))
      else if skind_eqb (kind x) KInDHT && phase_eqb (ph x) PRead && rst x then Some (EReadErr (sid x))
      else first_ready held rest
  end.

Fixpoint settle (fuel : nat) (x : g) : g :=
  match fuel with
  | O => x
  | S f =>
      let s := g_st x in
      if switching s then (if g_gated x then x else settle f (apply_ev x ESetModeDone))
      else match queue s with
           | _ :: _ => settle f (apply_ev x EProcess)
           | [] => match first_ready (g_held x) (streams s) with
                   | Some e => settle f (apply_ev x e)
                   | None => x
                   end
           end
  end.

Definition fuel_of (x : g) : nat := 64 + 4 * (length (queue (g_st x)) + length (streams (g_st x))).
Definition settled (x : g) : g := settle (fuel_of x) x.

Definition exec (x : g) (o : op) : g :=
  match o with
  | DEmit r => settled (apply_ev x (EEmit r))
  | DNewStream i k held neg =>
      match find_stream i (streams (g_st x)) with
      | Some _ => x
      | None =>
          let x1 := apply_ev x (ENewStream i k (held && neg)) in
          let accepted := match find_stream i (streams (g_st x1)) with Some _ => true | None => false end in
          let x2 := if accepted && held && skind_eqb k KInDHT
                    then {| g_st := g_st x1; g_held := i :: g_held x1; g_gated := g_gated x1 |} else x1 in
          settled x2
      end
  | DStart i =>
      if switching (g_st x) then x
      else settled {| g_st := g_st x; g_held := remove_nat i (g_held x); g_gated := g_gated x |}
  | DMsg i good => settled (apply_ev x (EMessage i good))
  | DEOF i => settled (apply_ev x (EEOF i))
  | DRelease => if switching (g_st x) then settled (apply_ev x ESetModeDone) else x
  end.

Definition obs_stream (x : stream) : sobs :=
  {| so_id := sid x; so_kind := kind x; so_vis := vis x; so_handled := handled x; so_rst := rst x; so_closed := closed x |}.
Definition snapshot (x : g) : snap :=
  {| o_mode := Some (cur (g_st x)); o_handler := handler (g_st x); o_window := switching (g_st x);
     o_streams := map obs_stream (streams (g_st x)) |}.

Fixpoint run_ops (x : g) (ops : list op) : list snap :=
  match ops with
  | [] => []
  | o :: rest => let x' := exec x o in snapshot x' :: run_ops x' rest
  end.

(* ---- comparison ------------------------------------------------------------------ *)

Fixpoint list_eqb {A} (eq : A -> A -> bool) (a b : list A) : bool :=
  match a, b with
  | [], [] => true
  | x :: a', y :: b' => eq x y && list_eqb eq a' b'
  | _, _ => false
  end.
Definition omode_eqb (a b : option mode) : bool :=
  match a, b with Some x, Some y => mode_eqb x y | None, None => true | _, _ => false end.
Definition sobs_eqb (a b : sobs) : bool :=
  Nat.eqb (so_id a) (so_id b) && skind_eqb (so_kind a) (so_kind b) && Bool.eqb (so_vis a) (so_vis b)
  && Nat.eqb (so_handled a) (so_handled b)
  && Bool.eqb (so_rst a) (so_rst b) && Bool.eqb (so_closed a) (so_closed b).
Definition snap_eqb (a b : snap) : bool :=
  omode_eqb (o_mode a) (o_mode b) && Bool.eqb (o_handler a) (o_handler b) && Bool.eqb (o_window a) (o_window b)
  && list_eqb sobs_eqb (o_streams a) (o_streams b).

(* the observables C13 speaks about: mode, handler registration, being inside
   moveToClientMode, and for INBOUND DHT streams: existence, handled count, reset.
   Not: the orderly-close flag, anything about outbound / other-protocol streams. *)
Definition is_in (x : sobs) : bool := skind_eqb (so_kind x) KInDHT.
Definition rel_sobs_eqb (a b : sobs) : bool :=
  Nat.eqb (so_id a) (so_id b) && Nat.eqb (so_handled a) (so_handled b) && Bool.eqb (so_rst a) (so_rst b).
Definition rel_snap_eqb (a b : snap) : bool :=
  omode_eqb (o_mode a) (o_mode b) && Bool.eqb (o_handler a) (o_handler b) && Bool.eqb (o_window a) (o_window b)
  && list_eqb rel_sobs_eqb (filter is_in (o_streams a)) (filter is_in (o_streams b)).

(* ---- the property evaluated on the implementation's trace alone -------------------------- *)

Definition get (i : nat) (l : list sobs) : option sobs := find (fun x => Nat.eqb (so_id x) i) l.
Definition is_client (p : snap) : bool := omode_eqb (o_mode p) (Some modeClient).
Definition is_server (p : snap) : bool := omode_eqb (o_mode p) (Some modeServer).
Definition settled_client (p : snap) : bool := is_client p && negb (o_window p).

(* the property text, written out independently of the regenerated tables *)
Definition spec_auto (a : mode_opt) : bool :=
  match a with ModeAuto | ModeAutoServer => true | _ => false end.
Definition spec_target (a : mode_opt) (r : reachability) (m : mode) : mode :=
  match r with
  | ReachabilityPublic => modeServer
  | ReachabilityPrivate => modeClient
  | ReachabilityUnknown => match a with ModeAutoServer => modeServer | _ => modeClient end
  | ReachabilityOther => m       (* not a reachability value: nothing is required; the code keeps the mode *)
  end.
Definition spec_fold (a : mode_opt) (m0 : mode) (rs : list reachability) : mode :=
  fold_left (fun m r => spec_target a r m) rs m0.
Definition spec_initial (a : mode_opt) : option mode :=
  match a with
  | ModeAuto | ModeClient => Some modeClient
  | ModeServer | ModeAutoServer => Some modeServer
  | ModeOptOther => None
  end.

Record acc := { a_rs : list reachability; a_started : list nat }.

(* one transition pre --o--> post of the recorded trace *)
Definition check_step (a : mode_opt) (m0 : mode) (ac : acc) (pre post : snap) (o : op) : bool * acc :=
  let rs' := match o with DEmit r => if spec_auto a then a_rs ac ++ [r] else a_rs ac | _ => a_rs ac end in
  (* 1/2: the mode is the target of the last event (automatic modes) or the initial mode (fixed modes);
     inside moveToClientMode it is already client *)
  let mode_ok := if o_window post then is_client post
                 else omode_eqb (o_mode post) (Some (spec_fold a m0 rs')) in
  let handler_ok := Bool.eqb (o_handler post) (is_server post) in
  (* handled counters move only by a good request on that stream, by one, never in a settled client,
     never on a stream already reset; resets are never undone *)
  let counters_ok :=
    forallb (fun x =>
      match get (so_id x) (o_streams post) with
      | None => false
      | Some y =>
          (if so_rst x then so_rst y else true) &&
          (if Nat.eqb (so_handled y) (so_handled x) then true
           else match o with
                | DMsg i true => Nat.eqb i (so_id x) && Nat.eqb (so_handled y) (S (so_handled x))
                                 && negb (settled_client pre) && negb (so_rst x) && is_in x
                | _ => false
                end)
      end) (o_streams pre) in
  (* a client never accepts a new inbound DHT stream; a handler started in a settled client resets its stream *)
  let client_ok :=
    match o with
    | DNewStream i KInDHT _ _ =>
        if is_client pre then match get i (o_streams post) with Some _ => false | None => true end else true
    | DStart i =>
        if settled_client pre then
          match get i (o_streams pre), get i (o_streams post) with
          | Some x, Some y => if is_in x && negb (mem i (a_started ac)) then so_rst y && Nat.eqb (so_handled y) (so_handled x) else true
          | _, _ => true
          end
        else true
    | _ => true
    end in
  (* 4: once moveToClientMode has returned every inbound DHT stream is reset (or was closed in order) *)
  let demote_ok :=
    if settled_client post
    then forallb (fun y => negb (is_in y) || negb (so_vis y) || so_rst y || so_closed y) (o_streams post) else true in
  (* 5: a server accepts inbound DHT streams and answers good requests on started, open, un-reset streams *)
  let server_ok :=
    match o with
    | DNewStream i KInDHT _ _ =>
        if is_server pre then
          match get i (o_streams pre), get i (o_streams post) with
          | None, None => false
          | _, _ => true
          end
        else true
    | DMsg i true =>
        if is_server pre then
          match get i (o_streams pre), get i (o_streams post) with
          | Some x, Some y =>
              if is_in x && mem i (a_started ac) && negb (so_rst x) && negb (so_closed x)
              then Nat.eqb (so_handled y) (S (so_handled x)) && negb (so_rst y) && is_server post
              else true
          | _, _ => true
          end
        else true
    | _ => true
    end in
  let started' :=
    match o with
    | DNewStream i KInDHT false _ => i :: a_started ac
    | DStart i => if o_window pre then a_started ac else i :: a_started ac
    | _ => a_started ac
    end in
  (mode_ok && handler_ok && counters_ok && client_ok && demote_ok && server_ok,
   {| a_rs := rs'; a_started := started' |}).

Fixpoint check_trace (a : mode_opt) (m0 : mode) (ac : acc) (pre : snap) (ops : list op) (tr : list snap) : bool :=
  match ops, tr with
  | [], [] => true
  | o :: ops', post :: tr' =>
      let (ok, ac') := check_step a m0 ac pre post o in
      ok && check_trace a m0 ac' post ops' tr'
  | _, _ => false
  end.

Record case := {
  c_auto : mode_opt;
  c_gated : bool;
  c_ops : list op;
  c_new_err : bool;        (* New returned an error *)
  c_init : snap;           (* observed right after New *)
  c_impl : list snap       (* observed after each op *)
}.

Definition window_ok (c : case) : bool :=
  forallb (fun p => if o_window p then c_gated c else true) (c_impl c).

Definition prop_ok (c : case) : bool :=
  match spec_initial (c_auto c) with
  | None => c_new_err c
  | Some m0 =>
      negb (c_new_err c)
      && omode_eqb (o_mode (c_init c)) (Some m0)
      && Bool.eqb (o_handler (c_init c)) (mode_eqb m0 modeServer)
      && negb (o_window (c_init c))
      && window_ok c
      && check_trace (c_auto c) m0 {| a_rs := []; a_started := [] |} (c_init c) (c_ops c) (c_impl c)
  end.

(* 0 = model and implementation agree and the property holds on the trace;
   1 = they differ only outside the property's observables;
   2 = the property fails on the implementation's trace, or the trace departs
       from the proved model on a property-relevant observable. *)
Definition verdict (c : case) : nat :=
  if negb (prop_ok c) then 2
  else match init (c_auto c) with
       | None => 0
       | Some s0 =>
           let x0 := {| g_st := s0; g_held := []; g_gated := c_gated c |} in
           let model := snapshot x0 :: run_ops x0 (c_ops c) in
           let impl := c_init c :: c_impl c in
           if list_eqb snap_eqb model impl then 0
           else if list_eqb rel_snap_eqb model impl then 1 else 2
       end.

Fixpoint verdicts_from (i : nat) (cs : list case) : list (nat * nat) :=
  match cs with
  | [] => []
  | c :: rest => match verdict c with
                 | O => verdicts_from (S i) rest
                 | v => (i, v) :: verdicts_from (S i) rest
                 end
  end.
Definition verdicts := verdicts_from 0.
