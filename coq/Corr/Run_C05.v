(* Executable glue of the C05 correspondence check.

   The harness drives the real IpfsDHT value entry points (handlePutValue,
   handleGetValue, PutValue, getLocal, putLocal, ValueStore.collectExpired) on a
   gated datastore inside a synctest bubble and records, in the order it made
   them happen:
     HSpawn t c    goroutine t started call c
     HArr t a k    goroutine t is parked at the datastore gate, about to do a on key k
     HRel t o      the driver let that access happen; o is what the datastore
                   returned (Get, Query) or was given (Put)
     HDone t r     the call returned r
     HTick d       the driver advanced the clock by d ns
   [replay] runs the model on the same schedule: a goroutine's lock acquisition
   is placed where its arrival at the gate was observed (it is enabled only if
   the stripe is free in the model), its unlock right after the access that
   precedes it.  [monitor] evaluates the property on the recorded trace alone. *)
From Verif.Lib Require Import GoSem Bits.
From Verif.Model Require Export ValueStore.
Local Open Scope N_scope.

Inductive hobs :=
| HGot (o : option bytes)
| HPut (b : bytes)
| HDel
| HQuery (ks : list key).

Inductive hev :=
| HSpawn (t : tid) (c : call)
| HArr (t : tid) (a : action) (k : key)
| HRel (t : tid) (o : hobs)
| HDone (t : tid) (r : result)
| HTick (d : N).

Record case := {
  c_maxage : N;
  c_now0 : N;
  c_init : store;
  c_evs : list hev;
  c_final : store }.     (* datastore content after the run, in key order *)

(* ---- equality tests ---------------------------------------------------------- *)
Fixpoint list_eqb {A} (eq : A -> A -> bool) (a b : list A) : bool :=
  match a, b with
  | [], [] => true
  | x :: a', y :: b' => eq x y && list_eqb eq a' b'
  | _, _ => false
  end.

Definition action_eqb (a b : action) : bool :=
  match a, b with
  | ALock, ALock | AUnlock, AUnlock | ADsGet, ADsGet | ADsPut, ADsPut
  | ADsDelete, ADsDelete | ADsQuery, ADsQuery => true
  | _, _ => false
  end.

Definition err_eqb (a b : err) : bool :=
  match a, b with
  | EInvalid, EInvalid | ESelect, ESelect | EOld, EOld | ERefused, ERefused
  | ENoKey, ENoKey | ENilRec, ENilRec | EKeyMismatch, EKeyMismatch => true
  | _, _ => false
  end.

Definition result_eqb (a b : result) : bool :=
  match a, b with
  | ROk, ROk | RNone, RNone | RGcDone, RGcDone => true
  | RErr x, RErr y => err_eqb x y
  | RRec k v t, RRec k' v' t' => key_eqb k k' && N.eqb v v' && opt_N_eqb t t'
  | _, _ => false
  end.

Definition opt_bytes_eqb (a b : option bytes) : bool :=
  match a, b with
  | Some x, Some y => bytes_eqb x y
  | None, None => true
  | _, _ => false
  end.

Definition hobs_eqb (a b : hobs) : bool :=
  match a, b with
  | HGot x, HGot y => opt_bytes_eqb x y
  | HPut x, HPut y => bytes_eqb x y
  | HDel, HDel => true
  | HQuery x, HQuery y => list_eqb key_eqb x y
  | _, _ => false
  end.

Definition entry_eqb (a b : key * bytes) : bool := key_eqb (fst a) (fst b) && bytes_eqb (snd a) (snd b).

(* ---- the model on the harness's schedule ---------------------------------------- *)
Inductive mm :=
| MArrive     (* a goroutine reached the datastore where the model does not allow it:
                 stripe held by another goroutine, or a different access *)
| MData       (* the datastore was read / written with different bytes *)
| MResult     (* a call returned something else *)
| MErrKind    (* both refused, with different errors *)
| MLive.      (* the model still has work the implementation did not do *)

Definition sev (m : mm) : nat :=
  match m with
  | MData | MResult => 2
  | MArrive | MErrKind | MLive => 1
  end.

Section Replay.
Variable ma : N.
Definition mstep := step seq_valid seq_sel ma.

Definition pc_key (p : pc) : key :=
  match p with
  | PLock k _ _ | PRead k _ _ | PWrite k _ | PUnlock k _ _ | GRead k _
  | DLock k _ _ | DRead k _ _ | DDelete k _ _ | DUnlock k _ => k
  | GCQuery | Done _ => []
  end.

Definition expected_obs (s : state) (p : pc) : option hobs :=
  match p with
  | PRead k _ _ | GRead k _ | DRead k _ _ => Some (HGot (ds_get k (st_ds s)))
  | PWrite _ data => Some (HPut data)
  | DDelete _ _ _ => Some HDel
  | GCQuery => Some (HQuery (map fst (ds_query (st_ds s))))
  | _ => None
  end.

Definition is_lock_pc (p : pc) : bool :=
  match p with PLock _ _ _ | DLock _ _ _ => true | _ => false end.
Definition is_unlock_pc (p : pc) : bool :=
  match p with PUnlock _ _ _ | DUnlock _ _ => true | _ => false end.

(* the lock acquisition that precedes an observed arrival *)
Definition settle_acq (s : state) (t : tid) : option state :=
  match st_thr s t with
  | Some p => if is_lock_pc p then mstep s (EAct t ALock) else Some s
  | None => None
  end.

(* the unlock that follows an access *)
Definition settle_unl (s : state) (t : tid) : state :=
  match st_thr s t with
  | Some p => if is_unlock_pc p then match mstep s (EAct t AUnlock) with Some s' => s' | None => s end else s
  | None => s
  end.

Definition result_mm (a b : result) : option mm :=
  if result_eqb a b then None
  else match a, b with
       | RErr _, RErr _ => Some MErrKind
       | _, _ => Some MResult
       end.

Fixpoint replay (s : state) (spawned : list tid) (evs : list hev) : state * list tid * option mm :=
  match evs with
  | [] => (s, spawned, None)
  | e :: rest =>
      match e with
      | HSpawn t c =>
          match mstep s (ESpawn t c) with
          | Some s' => replay s' (t :: spawned) rest
          | None => (s, spawned, Some MArrive)
          end
      | HArr t a k =>
          match settle_acq s t with
          | None => (s, spawned, Some MArrive)
          | Some s1 =>
              match st_thr s1 t with
              | Some p =>
                  match action_of p with
                  | Some a' => if action_eqb a a' && key_eqb k (pc_key p) then replay s1 spawned rest
                               else (s1, spawned, Some MArrive)
                  | None => (s1, spawned, Some MArrive)
                  end
              | None => (s1, spawned, Some MArrive)
              end
          end
      | HRel t o =>
          match st_thr s t with
          | Some p =>
              match expected_obs s p, action_of p with
              | Some o', Some a =>
                  if hobs_eqb o o'
                  then match mstep s (EAct t a) with
                       | Some s1 => replay (settle_unl s1 t) spawned rest
                       | None => (s, spawned, Some MArrive)
                       end
                  else (s, spawned, Some MData)
              | _, _ => (s, spawned, Some MArrive)
              end
          | None => (s, spawned, Some MArrive)
          end
      | HDone t r =>
          match st_thr s t with
          | Some (Done r') =>
              match result_mm r r' with
              | None => replay s spawned rest
              | Some m => (s, spawned, Some m)
              end
          | Some p => (s, spawned, Some (if is_lock_pc p then MLive else MResult))
          | None => (s, spawned, Some MArrive)
          end
      | HTick d =>
          match mstep s (ETick d) with
          | Some s' => replay s' spawned rest
          | None => (s, spawned, Some MArrive)
          end
      end
  end.

Definition all_done (s : state) (ts : list tid) : bool :=
  forallb (fun t => match st_thr s t with Some (Done _) => true | _ => false end) ts.

Definition model_mm (c_init0 : store) (now0 : N) (evs : list hev) (final : store) : option mm :=
  match replay (init c_init0 now0) [] evs with
  | (_, _, Some m) => Some m
  | (s, ts, None) =>
      if negb (all_done s ts) then Some MLive
      else if list_eqb entry_eqb (ds_query (st_ds s)) final then None else Some MData
  end.

(* ---- the property evaluated on the recorded trace alone ---------------------------- *)
Record tinfo := {
  ti_call : call;
  ti_pend : option (action * key);
  ti_read : option (option bytes * N);    (* the goroutine's first ds.Get result, and when *)
  ti_wrote : option (key * bytes) }.

Fixpoint ti_get (t : tid) (l : list (tid * tinfo)) : option tinfo :=
  match l with
  | [] => None
  | (t', i) :: l' => if Nat.eqb t' t then Some i else ti_get t l'
  end.
Fixpoint ti_set (t : tid) (i : tinfo) (l : list (tid * tinfo)) : list (tid * tinfo) :=
  match l with
  | [] => [(t, i)]
  | (t', i') :: l' => if Nat.eqb t' t then (t, i) :: l' else (t', i') :: ti_set t i l'
  end.

Definition good_b (now : N) (k : key) (b : bytes) : bool :=
  match b with
  | BRec rk v (Some ts) => key_eqb rk k && seq_valid k v && N.leb ts now
  | _ => false
  end.

Definition not_downgrade (k : key) (old : option bytes) (b : bytes) : bool :=
  match old, b with
  | Some (BRec rk v0 _), BRec _ v _ =>
      if seq_valid rk v0
      then match seq_sel k v v0 with Some true => true | _ => false end
      else true
  | _, _ => true
  end.

(* what Get must return for the bytes it read *)
Definition spec_get (k : key) (o : option bytes) (now : N) : result :=
  match o with
  | None => RNone
  | Some b => if discardable ma k b now then RNone
              else match b with BRec _ v tr => RRec k v tr | BJunk _ => RNone end
  end.

Definition get_key_of (c : call) : option key :=
  match c with
  | CGet k => Some k
  | CHandleGet (x :: k) => Some (x :: k)
  | _ => None
  end.

(* the key under which a call may store its record: the key it was asked to
   store under, which must also be the record's own key *)
Definition call_put_key (c : call) : option key :=
  match c with
  | CPut k rk _ => if key_eqb k rk then Some k else None
  | CHandlePut (x :: mk) (Some (rk, _)) => if key_eqb (x :: mk) rk then Some rk else None
  | CLocalPut k _ => Some k
  | _ => None
  end.
Definition call_value (c : call) : option N :=
  match c with
  | CPut _ _ v | CHandlePut _ (Some (_, v)) | CLocalPut _ v => Some v
  | _ => None
  end.
Definition may_write (c : call) (k : key) : bool :=
  match call_put_key c with Some k' => key_eqb k k' | None => false end.

Definition is_rec (r : result) : bool := match r with RRec _ _ _ => true | _ => false end.

(* a PutValue whose first read found a live, different value that Select prefers *)
Definition must_refuse (c : call) (rd : option (option bytes * N)) : bool :=
  match c, rd with
  | CLocalPut k nv, Some (Some (BRec rk v tr), nowr) =>
      negb (discardable ma k (BRec rk v tr) nowr) && negb (N.eqb v nv)
      && match seq_sel k nv v with Some true => false | _ => true end
  | _, _ => false
  end.

Fixpoint monitor (d : store) (now : N) (ti : list (tid * tinfo)) (evs : list hev) : bool :=
  match evs with
  | [] => true
  | e :: rest =>
      match e with
      | HSpawn t c => monitor d now (ti_set t {| ti_call := c; ti_pend := None; ti_read := None; ti_wrote := None |} ti) rest
      | HArr t a k =>
          match ti_get t ti with
          | Some i => monitor d now (ti_set t {| ti_call := ti_call i; ti_pend := Some (a, k);
                                                   ti_read := ti_read i; ti_wrote := ti_wrote i |} ti) rest
          | None => false
          end
      | HRel t o =>
          match ti_get t ti with
          | Some i =>
              match ti_pend i, o with
              | Some (_, k), HPut b =>
                  may_write (ti_call i) k && good_b now k b && not_downgrade k (ds_get k d) b
                  && monitor (ds_put k b d) now
                       (ti_set t {| ti_call := ti_call i; ti_pend := None; ti_read := ti_read i;
                                    ti_wrote := Some (k, b) |} ti) rest
              | Some (_, k), HDel =>
                  match ds_get k d with
                  | Some b => discardable ma k b now
                  | None => true
                  end && monitor (ds_del k d) now ti rest
              | Some _, HGot ob =>
                  monitor d now
                    (ti_set t {| ti_call := ti_call i; ti_pend := None;
                                 ti_read := match ti_read i with Some r => Some r | None => Some (ob, now) end;
                                 ti_wrote := ti_wrote i |} ti) rest
              | Some _, HQuery _ => monitor d now ti rest
              | None, _ => false
              end
          | None => false
          end
      | HDone t r =>
          match ti_get t ti with
          | Some i =>
              match get_key_of (ti_call i) with
              | Some k =>
                  match ti_read i with
                  | Some (ob, nowr) => result_eqb r (spec_get k ob nowr)
                  | None => false
                  end
              | None => negb (is_rec r)
              end
              && (if must_refuse (ti_call i) (ti_read i)
                  then match r with RErr _ => true | _ => false end else true)
              && match r with
                 | ROk => match ti_wrote i with
                          | Some (_, BRec _ v _) => opt_N_eqb (Some v) (call_value (ti_call i))
                          | _ => false
                          end
                 | _ => true
                 end
              && monitor d now ti rest
          | None => false
          end
      | HTick dd => monitor d (now + dd) ti rest
      end
  end.

End Replay.

(* 0: model and implementation agree and the property holds on the trace.
   2: the recorded trace breaks the property (invalid / mis-keyed / downgrading
      write, a write under another key than the one requested, deletion of a live record, expired or mis-keyed record served,
      stored live record not served, PutValue not refused, acknowledgement
      without having written the record), or the implementation read / wrote /
      returned something else than the proved model.
   1: they differ on something the property does not speak about (which error,
      order of arrival at a lock, a call that did not finish). *)
Definition verdict (c : case) : nat :=
  if negb (monitor (c_maxage c) (c_init c) (c_now0 c) [] (c_evs c)) then 2
  else match model_mm (c_maxage c) (c_init c) (c_now0 c) (c_evs c) (c_final c) with
       | None => 0
       | Some m => sev m
       end.

Fixpoint verdicts_from (i : nat) (cs : list case) : list (nat * nat) :=
  match cs with
  | [] => []
  | c :: rest => match verdict c with
                 | O => verdicts_from (S i) rest
                 | v => (i, v) :: verdicts_from (S i) rest
                 end
  end.
Definition verdicts := verdicts_from 0.

(* short names used by the generated case files *)
Definition R (k : key) (v : N) (ts : N) : bytes := BRec k v (Some ts).
Definition Rn (k : key) (v : N) : bytes := BRec k v None.

Definition Ka : key := [47; 118; 47; 97; 49].    (* "/v/a1" *)
Definition Kb : key := [47; 118; 47; 98; 49].    (* "/v/b1", same stripe as Ka *)
Definition Kc : key := [47; 118; 47; 99; 50].    (* "/v/c2" *)
Definition Kw : key := [47; 119; 47; 97; 49].    (* "/w/a1", a namespace without validator *)
