(* Executable glue for the C16 correspondence check: the cases the Go harness
   records (inputs + what the real code did), the model's answer for the same
   inputs, the executable form of the property, and the verdict.

   Verdict codes (check treats every code >= 2 as a property failure):
     0  model and implementation agree, the property holds on the trace
     1  they differ on an observable the property does not speak about
        (tables that are not the table of one crawl)
     2  the implementation differs from the proved model on a property-relevant
        observable
     4  model and implementation agree and the property fails (the theorems
        exclude it; kept so that a wrong executable property shows up)
     5  a call panicked or did not return where the property forbids it
     6  a reader concurrent with a table swap got an answer that is the answer
        of neither the old nor the new crawl
     7  a peer was queried more than once in one crawl, or the callbacks are
        not one per query
     8  the constructed client does not carry the configured limit / a bucket
        size below 1 was accepted
   Codes 5-8 are computed from the implementation's observations alone.
   States with K = 0 cannot be constructed any more (c16_missing_options_
   rejected); the direct-state cases that still set K = 0 only compare model
   and implementation. *)
From Verif.Lib Require Import GoSem Bits.
From Verif.Model Require Export FullRt Crawler.

Inductive cobs := OPeers (l : list N) | OErr | OHang | OPanic.
Inductive oobs := ONil | OError | OOHang | OOPanic.

(* one refresh round through the real runCrawler + DefaultCrawler *)
Record round := {
  r_net : list (N * list N);          (* answers in this round *)
  r_key : N;                          (* a read after the swap *)
  (* observations *)
  r_seeds : list N;                   (* ids handed to Crawler.Run, sorted *)
  r_disp : list N;                    (* host.Connect calls, sorted *)
  r_cb : list (N * bool);             (* callbacks, sorted *)
  r_table : list N;                   (* Stat() after the swap, sorted *)
  r_read : cobs
}.

Inductive case :=
| CClosest1 (c : crawl) (key : N) (K limit : nat) (impl : cobs)      (* the table of one crawl *)
| CClosest (rt kmap : list N) (addrs : list (N * list addr)) (key : N) (K limit : nat) (impl : cobs)
| CCtor (o : opts) (dbucket dlimit : nat) (c : crawl) (key : N) (impl_cfg : option (nat * nat)) (impl : cobs)
| CCrawl (seeds : list (N * bool)) (net : list (N * list N)) (par : nat)
         (impl_done : bool) (impl_disp : list N) (impl_cb : list (N * bool))
| CRefresh (bootstrap : list (N * bool)) (peers : list (N * (bool * (bool * list addr))))
           (* peer -> (host peerstore has addresses, kept by the table filter, its IP groups) *)
           (par K limit : nat) (rounds : list round)
| CSwap (old new : crawl) (key : N) (K limit : nat)
        (impl0 impl1 : cobs) (impl2 : option cobs) (impl3 : cobs)
| CBulk (c : crawl) (K limit : nat) (keys : list N) (impl : oobs)
| CSingle (c : crawl) (K limit : nat) (key : N) (impl : oobs)
| CBulkSwap (old new : crawl) (K limit : nat) (keys : list N) (impl : oobs)
            (* a bulk operation started on the table of [old]; a crawl that found [new] (often nobody)
               was swapped in while the operation stood at one of its log statements *)
| CChunk (n : nat) (chunk : Z) (impl : option (list nat)).

(* ---- small executable helpers ------------------------------------------ *)
Fixpoint list_eqb {A} (eq : A -> A -> bool) (a b : list A) : bool :=
  match a, b with
  | [], [] => true
  | x :: a', y :: b' => eq x y && list_eqb eq a' b'
  | _, _ => false
  end.
Definition nlist_eqb := list_eqb N.eqb.

Fixpoint ins_N (x : N) (l : list N) : list N :=
  match l with
  | [] => [x]
  | y :: l' => if N.leb x y then x :: l else y :: ins_N x l'
  end.
Definition sort_N (l : list N) : list N := fold_right ins_N [] l.

Definition cb_leb (a b : N * bool) : bool :=
  if N.eqb (fst a) (fst b) then implb (snd a) (snd b) else N.leb (fst a) (fst b).
Fixpoint ins_cb (x : N * bool) (l : list (N * bool)) : list (N * bool) :=
  match l with
  | [] => [x]
  | y :: l' => if cb_leb x y then x :: l else y :: ins_cb x l'
  end.
Definition sort_cb (l : list (N * bool)) : list (N * bool) := fold_right ins_cb [] l.
Definition cb_eqb (a b : N * bool) : bool := N.eqb (fst a) (fst b) && Bool.eqb (snd a) (snd b).

Fixpoint nodupb (l : list N) : bool :=
  match l with [] => true | x :: r => negb (nmem x r) && nodupb r end.

Definition cobs_eqb (a b : cobs) : bool :=
  match a, b with
  | OPeers x, OPeers y => nlist_eqb x y
  | OErr, OErr | OHang, OHang | OPanic, OPanic => true
  | _, _ => false
  end.
Definition cobs_of (r : res (list N)) : cobs :=
  match r with Ok l => OPeers l | Panic _ => OPanic | Blocked _ => OHang end.
Definition oobs_eqb (a b : oobs) : bool :=
  match a, b with
  | ONil, ONil | OError, OError | OOHang, OOHang | OOPanic, OOPanic => true
  | _, _ => false
  end.
Definition oobs_of (r : res op_res) : oobs :=
  match r with Ok RNil => ONil | Ok RErr => OError | Panic _ => OOPanic | Blocked _ => OOHang end.

(* ---- the property on an answer of GetClosestPeers ----------------------- *)
Definition has_group (c : crawl) (g p : N) : bool := peer_in_group c g p.
Fixpoint dedup_N (l : list N) : list N :=
  match l with [] => [] | x :: r => if nmem x r then dedup_N r else x :: dedup_N r end.
Definition all_groups (c : crawl) : list N := dedup_N (flat_map (fun x => addr_groups (snd x)) c).
(* no IP group holds more crawled peers than the limit, or the limit is off
   (peers are pairwise different, so counting entries counts peers) *)
Definition diverse (c : crawl) (limit : nat) : bool :=
  (limit =? 0) ||
  forallb (fun g => length (filter (fun x => nmem g (addr_groups (snd x))) c) <=? limit) (all_groups c).
Fixpoint strictly_ascending (key : N) (l : list N) : bool :=
  match l with
  | x :: ((y :: _) as r) => N.ltb (dist key x) (dist key y) && strictly_ascending key r
  | _ => true
  end.
Definition within_limit (c : crawl) (limit : nat) (l : list N) : bool :=
  (limit =? 0) ||
  forallb (fun g => length (filter (has_group c g) l) <=? limit) (all_groups c).
Definition exact_if_diverse (c : crawl) (key : N) (K limit : nat) (l : list N) : bool :=
  if diverse c limit then nlist_eqb l (firstn K (sort_by key (map fst c))) else true.
(* K >= 1 *)
Definition closest_prop_ok (c : crawl) (key : N) (K limit : nat) (l : list N) : bool :=
  strictly_ascending key l && forallb (fun p => nmem p (map fst c)) l && (length l <=? K)
  && within_limit c limit l && exact_if_diverse c key K limit l.

(* verdict for an answer on the table of one crawl, with the limit the caller asked for *)
Definition closest_verdict (c : crawl) (key : N) (K limit : nat) (model impl : cobs) : nat :=
  if K =? 0 then
    (if cobs_eqb model impl then 0 else match impl with OPanic | OHang => 5 | _ => 2 end)
  else
  match impl with
  | OPanic | OHang => 5
  | OErr => 2
  | OPeers l =>
      if negb (cobs_eqb model impl) then 2
      else if closest_prop_ok c key K limit l then 0 else 4
  end.

Definition is_single_crawl (rt kmap : list N) (addrs : list (N * list addr)) : bool :=
  nlist_eqb rt kmap && nlist_eqb rt (map fst addrs) && nodupb rt.

(* ---- crawler ------------------------------------------------------------ *)
Definition net_of (l : list (N * list N)) : cnet :=
  fun p => match assoc p l with Some a => a | None => [] end.
Definition crawl_fuel (seeds : list (N * bool)) (net : list (N * list N)) : nat :=
  2 * (length seeds + length net + length (flat_map snd net)) + 2.

Definition once_verdict (disp : list N) (cb : list (N * bool)) : nat :=
  if nodupb disp && nlist_eqb (sort_N (map fst cb)) disp then 0 else 7.

Definition crawl_verdict (seeds : list (N * bool)) (net : list (N * list N)) (par : nat)
           (impl_done : bool) (impl_disp : list N) (impl_cb : list (N * bool)) : nat :=
  if negb impl_done then 5
  else if negb (once_verdict impl_disp impl_cb =? 0) then 7
  else
  match crawl_exec (crawl_fuel seeds net) (net_of net) par (crawl_init seeds) with
  | Ok s =>
      if nlist_eqb (sort_N (c_disp s)) impl_disp && list_eqb cb_eqb (sort_cb (c_cb s)) impl_cb
      then 0 else 2
  | _ => 2
  end.

(* ---- refresh rounds through runCrawler ---------------------------------- *)
Definition pinfo := (bool * (bool * list addr))%type.
Definition ps_has (peers : list (N * pinfo)) (p : N) : bool :=
  match assoc p peers with Some (h, _) => h | None => false end.
Definition kept (peers : list (N * pinfo)) (p : N) : bool :=
  match assoc p peers with Some (_, (k, _)) => k | None => false end.
Definition groups_of_peer (peers : list (N * pinfo)) (p : N) : list addr :=
  match assoc p peers with Some (_, (_, a)) => a | None => [] end.
Fixpoint dedup (l : list N) : list N :=
  match l with [] => [] | x :: r => if nmem x r then dedup r else x :: dedup r end.

Fixpoint rounds_verdict (bootstrap : list (N * bool)) (peers : list (N * pinfo)) (par K limit : nat)
         (found : crawl) (rs : list round) (acc : nat) : nat :=
  match rs with
  | [] => acc
  | r :: rest =>
      let seed_ids := crawl_seeds found (map fst bootstrap) in
      let seeds := map (fun x => (fst x, ps_has peers (fst x))) found
                   ++ map (fun b => (fst b, snd b || ps_has peers (fst b))) bootstrap in
      match crawl_exec (crawl_fuel seeds (r_net r)) (net_of (r_net r)) par (crawl_init seeds) with
      | Ok s =>
          let succ := dedup (map fst (filter snd (c_cb s))) in
          let found' := map (fun p => (p, groups_of_peer peers p)) (filter (kept peers) succ) in
          let agree :=
            nlist_eqb (sort_N seed_ids) (r_seeds r) && nlist_eqb (sort_N (c_disp s)) (r_disp r)
            && list_eqb cb_eqb (sort_cb (c_cb s)) (r_cb r)
            && nlist_eqb (sort_N (map fst found')) (r_table r)
            && cobs_eqb (cobs_of (get_closest_eval (table_of found') (r_key r) K limit)) (r_read r) in
          if negb (once_verdict (r_disp r) (r_cb r) =? 0) then 7
          else if negb agree then 2
          else
            let v_read := closest_verdict found' (r_key r) K limit (r_read r) (r_read r) in
            let v_once := once_verdict (r_disp r) (r_cb r) in
            rounds_verdict bootstrap peers par K limit found' rest
              (Nat.max acc (Nat.max v_read v_once))
      | _ => 2
      end
  end.

(* ---- swap --------------------------------------------------------------- *)
Definition one_of_two (a b x : cobs) : bool := cobs_eqb a x || cobs_eqb b x.

Definition swap_verdict (old new : crawl) (key : N) (K limit : nat)
           (impl0 impl1 : cobs) (impl2 : option cobs) (impl3 : cobs) : nat :=
  let m0 := cobs_of (get_closest_eval (table_of old) key K limit) in
  let m3 := cobs_of (get_closest_eval (table_of new) key K limit) in
  if negb (one_of_two impl0 impl3 impl1
           && match impl2 with Some i2 => one_of_two impl0 impl3 i2 | None => true end) then 6
  else if negb (cobs_eqb m0 impl0 && cobs_eqb m3 impl3) then 2
  else Nat.max (closest_verdict old key K limit m0 impl0) (closest_verdict new key K limit m3 impl3).

(* ---- bulk / single / chunks --------------------------------------------- *)
Definition bulk_verdict (c : crawl) (K limit : nat) (keys : list N) (impl : oobs) : nat :=
  let m := oobs_of (bulk_send (table_of c) K limit keys) in
  match impl with
  | OOPanic => 5
  | OOHang => if (K =? 0) && oobs_eqb m impl then 0 else 5
  | _ => if negb (oobs_eqb m impl) then 2
         else match c, keys, impl with [], _ :: _, ONil => 4 | _, _, _ => 0 end
  end.

Definition single_verdict (c : crawl) (K limit : nat) (key : N) (impl : oobs) : nat :=
  let m := oobs_of (single_send (table_of c) key K limit) in
  match impl with
  | OOPanic => 5
  | OOHang => if (K =? 0) && oobs_eqb m impl then 0 else 5
  | _ => if negb (oobs_eqb m impl) then 2
         else match c, impl with [], ONil => 4 | _, _ => 0 end
  end.

Definition chunk_verdict (n : nat) (chunk : Z) (impl : option (list nat)) : nat :=
  match divide_by_chunk_size (seq 0 n) chunk, impl with
  | Ok g, Some sizes => if list_eqb Nat.eqb (map (@length nat) g) sizes then 0 else 2
  | Panic _, None => if (chunk <? 1)%Z then 0 else 2     (* documented precondition: chunk > 0 *)
  | _, _ => 2
  end.

Definition ctor_verdict (o : opts) (dbucket dlimit : nat) (c : crawl) (key : N)
           (impl_cfg : option (nat * nat)) (impl : cobs) : nat :=
  match impl_cfg with
  | None => match new_fullrt dbucket dlimit o with None => 0 | Some _ => 2 end
  | Some (k, l) =>
      if negb ((1 <=? k) && (l =? configured_limit dlimit o)) then 8
      else
        match new_fullrt dbucket dlimit o with
        | None => 2
        | Some f =>
            if negb ((f_K f =? k) && (f_limit f =? l)) then 2
            else closest_verdict c key k l (cobs_of (get_closest_eval (table_of c) key k l)) impl
        end
  end.

Definition verdict (c : case) : nat :=
  match c with
  | CClosest1 c key K limit impl =>
      if nodupb (map fst c)
      then closest_verdict c key K limit (cobs_of (get_closest_eval (table_of c) key K limit)) impl
      else 2
  | CClosest rt kmap addrs key K limit impl =>
      let m := cobs_of (get_closest_eval {| t_rt := rt; t_kmap := kmap; t_addrs := addrs |} key K limit) in
      if is_single_crawl rt kmap addrs then closest_verdict addrs key K limit m impl
      else if cobs_eqb m impl then 0
      else match impl with OPanic | OHang => 5 | _ => 1 end
  | CCtor o db dl c key impl_cfg impl => ctor_verdict o db dl c key impl_cfg impl
  | CCrawl seeds net par d disp cb => crawl_verdict seeds net par d disp cb
  | CRefresh bootstrap peers par K limit rounds => rounds_verdict bootstrap peers par K limit [] rounds 0
  | CSwap old new key K limit i0 i1 i2 i3 => swap_verdict old new key K limit i0 i1 i2 i3
  | CBulk c K limit keys impl => bulk_verdict c K limit keys impl
  | CSingle c K limit key impl => single_verdict c K limit key impl
  | CBulkSwap old new K limit keys impl =>
      (* the operation reads the table several times and may see either crawl at each read; the
         property's clause is judged alone: an error or success, never a panic or a hang *)
      match impl with OOPanic | OOHang => 5 | _ => 0 end
  | CChunk n chunk impl => chunk_verdict n chunk impl
  end.

Fixpoint verdicts_from (i : nat) (cs : list case) : list (nat * nat) :=
  match cs with
  | [] => []
  | c :: rest => match verdict c with
                 | O => verdicts_from (S i) rest
                 | v => (i, v) :: verdicts_from (S i) rest
                 end
  end.
Definition verdicts := verdicts_from 0.
