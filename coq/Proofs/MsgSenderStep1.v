(* Lemmas about Model/MsgSender.v: the invariant is preserved by the events start, ctx, lock, lockfail, afterfail. *)
From Verif.Lib Require Import GoSem Bits.
From Verif.Model Require Import MsgSender.
From Coq Require Import Lia.
From Verif.Proofs Require Import MsgSenderInv.

Lemma step_inv_start s t p k s' : Inv s -> step s (EStart t p k) = Some s' -> Inv s'.
Proof. intros I H. start_ev I H; finish_inv. Qed.

Lemma step_inv_ctx s t k s' : Inv s -> step s (ECtx t k) = Some s' -> Inv s'.
Proof. intros I H. start_ev I H; finish_inv. Qed.

Lemma step_inv_lock s t s' : Inv s -> step s (ELock t) = Some s' -> Inv s'.
Proof. intros I H. ev I H. Qed.

Lemma step_inv_lockfail s t s' : Inv s -> step s (ELockFail t) = Some s' -> Inv s'.
Proof. intros I H. ev I H. Qed.

Lemma step_inv_afterfail s t s' : Inv s -> step s (EAfterFail t) = Some s' -> Inv s'.
Proof. intros I H. ev I H. Qed.
