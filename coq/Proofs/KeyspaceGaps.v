(* TrieGaps is exact for every target (C18): the result is the set of gaps of the key set below the
   target.  (Model of the code after the repair of finding F13.) *)
From Verif.Lib Require Import GoSem Bits.
From Verif.Model Require Import Trie Keyspace.
From Verif.Proofs Require Import KeyspaceBase KeyspaceProofs KeyspaceCovered.
From Coq Require Import Permutation.

(* ---- the set-theoretic definition ---------------------------------------------------- *)
(* x is a gap of the key set K below the target T: x lies below T, no key is comparable with x
   (nothing of x is covered, x covers no key), and x is maximal: x is T itself or the parent of x
   is comparable with some key *)
Definition incomparable_all (K : list bits) (x : bits) : Prop :=
  forall k, In k K -> comparable x k = false.
Definition is_gap (K : list bits) (T x : bits) : Prop :=
  is_prefix T x = true /\ incomparable_all K x /\
  (x = T \/ exists k, In k K /\ comparable (removelast x) k = true).

(* ---- sorting only permutes ----------------------------------------------------------- *)
Lemma ins_rev_In order x rl y : In y (ins_rev order x rl) <-> y = x \/ In y rl.
Proof.
  induction rl as [|z rl IH]; simpl.
  - intuition (subst; auto).
  - destruct (order_cmp x z order); simpl; rewrite ?IH; intuition (subst; auto).
Qed.

Lemma sort_by_order_In l order y : In y (sort_by_order l order) <-> In y l.
Proof.
  unfold sort_by_order. rewrite <- in_rev.
  assert (G : forall rl, In y (fold_left (fun rl x => ins_rev order x rl) l rl) <-> In y l \/ In y rl).
  { induction l as [|a l IH]; intro rl; simpl; [tauto|]. rewrite IH, ins_rev_In. intuition (subst; auto). }
  rewrite G. simpl. tauto.
Qed.

Lemma ins_rev_length order x rl : length (ins_rev order x rl) = S (length rl).
Proof. induction rl as [|z rl IH]; simpl; [reflexivity|]. destruct (order_cmp x z order); simpl; auto. Qed.

(* ---- sibling prefixes ----------------------------------------------------------------- *)
Lemma sib_from_skipn k : forall pre n x,
  In x (skipn n (sibling_prefixes_from pre k)) <->
  exists a b c, k = a ++ b :: c /\ x = pre ++ a ++ [negb b] /\ n <= length a.
Proof.
  induction k as [|b0 k IH]; intros pre n x.
  - simpl. rewrite skipn_nil. split; [intros []|]. intros [a [b [c [H _]]]]. destruct a; discriminate.
  - cbn [sibling_prefixes_from]. destruct n as [|n].
    + cbn [skipn]. simpl In. rewrite (IH (pre ++ [b0]) 0 x). cbn [skipn]. split.
      * intros [<-|[a [b [c [E1 [E2 _]]]]]].
        -- exists [], b0, k. split; [reflexivity|]. split; [reflexivity|simpl; lia].
        -- exists (b0 :: a), b, c. subst. split; [reflexivity|]. split; [rewrite <- app_assoc; reflexivity|simpl; lia].
      * intros [a [b [c [E1 [E2 _]]]]]. destruct a as [|a0 a].
        -- simpl in E1. inversion E1; subst. left. reflexivity.
        -- simpl in E1. inversion E1; subst. right. exists a, b, c. split; [reflexivity|]. split; [rewrite <- app_assoc; reflexivity|lia].
    + cbn [skipn]. rewrite (IH (pre ++ [b0]) n x). split.
      * intros [a [b [c [E1 [E2 Hn]]]]]. exists (b0 :: a), b, c. subst. split; [reflexivity|]. split; [rewrite <- app_assoc; reflexivity|simpl; lia].
      * intros [a [b [c [E1 [E2 Hn]]]]]. destruct a as [|a0 a]; [simpl in Hn; lia|].
        simpl in E1. inversion E1; subst. exists a, b, c. split; [reflexivity|]. split; [rewrite <- app_assoc; reflexivity|simpl in Hn; lia].
Qed.

Lemma sib_skipn k n x :
  In x (skipn n (sibling_prefixes k)) <-> exists a b c, k = a ++ b :: c /\ x = a ++ [negb b] /\ n <= length a.
Proof. unfold sibling_prefixes. rewrite sib_from_skipn. simpl. tauto. Qed.

(* ---- prefix toolkit ------------------------------------------------------------------- *)
Lemma is_prefix_app_iff a x y : is_prefix (a ++ x) (a ++ y) = is_prefix x y.
Proof. induction a as [|b a IH]; simpl; [reflexivity|]. rewrite eqb_reflx. exact IH. Qed.

Lemma comparable_sym a b : comparable a b = comparable b a.
Proof. unfold comparable. apply orb_comm. Qed.

Lemma comparable_app a x y : comparable (a ++ x) (a ++ y) = comparable x y.
Proof. unfold comparable. rewrite !is_prefix_app_iff. reflexivity. Qed.

Lemma app_skipn_prefix p x : is_prefix p x = true -> p ++ skipn (length p) x = x.
Proof.
  intro H. apply is_prefix_exists in H as [s ->]. rewrite skipn_app, Nat.sub_diag, skipn_all. reflexivity.
Qed.

Lemma removelast_snoc {A} (l : list A) a : removelast (l ++ [a]) = l.
Proof. apply removelast_last. Qed.

(* below a node, a key of the other branch is comparable with nothing of this branch *)
Lemma other_branch_incomparable p i x y :
  is_prefix (p ++ [i]) x = true -> is_prefix (p ++ [negb i]) y = true -> comparable x y = false.
Proof.
  intros Hx Hy. unfold comparable. apply orb_false_iff. destruct i; simpl in Hy.
  - destruct (siblings_incomparable p y x Hy Hx). auto.
  - destruct (siblings_incomparable p x y Hx Hy). auto.
Qed.

(* the gaps contributed by a leaf k below the path p' (|p'| = n): the siblings of the prefixes of k
   longer than p' *)
Lemma leaf_sib_gaps p' k x :
  is_prefix p' k = true ->
  ((exists a b c, k = a ++ b :: c /\ x = a ++ [negb b] /\ length p' <= length a) <->
   (is_prefix p' x = true /\ comparable x k = false /\ comparable (removelast x) k = true)).
Proof.
  intros Hk. split.
  - intros [a [b [c [E1 [E2 Hl]]]]]. subst.
    assert (Pa : is_prefix p' a = true) by (eapply is_prefix_app_inv; eauto).
    split; [apply is_prefix_app_r; exact Pa|]. split.
    + rewrite comparable_app. unfold comparable. simpl. destruct b; reflexivity.
    + rewrite removelast_snoc. unfold comparable. rewrite is_prefix_app. reflexivity.
  - intros [Px [Cx Cp]].
    destruct x as [|x0 x'] using rev_ind; [discriminate|]. clear IHx'.
    rewrite removelast_snoc in Cp. unfold comparable in Cx, Cp.
    apply orb_false_iff in Cx as [C1 C2]. apply orb_true_iff in Cp as [Cp|Cp].
    + (* x' is a proper prefix of k *)
      apply is_prefix_exists in Cp as [s Es]. destruct s as [|b c].
      * exfalso. rewrite app_nil_r in Es. subst. rewrite is_prefix_app in C2. discriminate.
      * exists x', b, c. split; [exact Es|]. split.
        -- f_equal. f_equal. subst k. rewrite is_prefix_app_iff in C1. simpl in C1.
           destruct x0, b; simpl in C1; try discriminate; reflexivity.
        -- (* |p'| <= |x'|: otherwise x = p' would be a prefix of k *)
           pose proof (is_prefix_length _ _ Px) as L. rewrite app_length in L. simpl in L.
           destruct (Nat.eq_dec (length p') (S (length x'))) as [El|]; [|lia]. exfalso.
           assert (p' = x' ++ [x0]) by (apply is_prefix_same_length; [exact Px|rewrite app_length; simpl; lia]).
           subst p'. congruence.
    + exfalso. assert (is_prefix k (x' ++ [x0]) = true) by (apply is_prefix_app_r; exact Cp). congruence.
Qed.

(* ---- the algorithm --------------------------------------------------------------------- *)
Section Gaps.
Context {D : Type}.

(* one iteration of the loop over the two branches, the recursive call abstracted *)
Definition gaps_visit (rec : trie D -> nat -> bits -> bits -> res (list bits))
    (t0 t1 : trie D) (depth : nat) (target order : bits) (i : bool) : res (list bits) :=
  skip <- (if length target <=? depth then Ok false
           else tb <- bit_at target depth ;; Ok (negb (Bool.eqb i tb))) ;;
  if (skip : bool) then Ok []
  else
    let br := child t0 t1 i in
    let above := negb (length target <=? depth) && (S depth <? length target) in
    match br with
    | E => if above then Ok (map (skipn depth) (leaf_gaps None target order)) else Ok [[i]]
    | L k _ =>
        if above then Ok (map (skipn depth) (leaf_gaps (Some k) target order))
        else if S depth <? length k then
          Ok (map (skipn depth) (sort_by_order (skipn (S depth) (sibling_prefixes k)) order))
        else Ok []
    | Nd _ _ => g <- rec br (S depth) target order ;; Ok (map (cons i) g)
    end.

Lemma gaps_at_Nd (t0 t1 : trie D) depth target order :
  gaps_at (Nd t0 t1) depth target order =
  ob <- bit_at order depth ;;
  g1 <- gaps_visit gaps_at t0 t1 depth target order ob ;;
  g2 <- gaps_visit gaps_at t0 t1 depth target order (negb ob) ;;
  Ok (g1 ++ g2).
Proof. reflexivity. Qed.

(* the target as seen from the subtrie at path p (|p| = depth): the target itself while descending
   along it, the path once inside it *)
Definition tgt (depth : nat) (target p : bits) : bits :=
  if length target <=? depth then p else target.

Lemma exists_key p (a b : trie D) : wf_at p (Nd a b) -> exists y, In y (keys_of (Nd a b)).
Proof.
  intros [_ [_ P]]. destruct (keys_of (Nd a b)) as [|y l] eqn:E1; [|exists y; left; reflexivity].
  exfalso. pose proof (size_keys (Nd a b)) as S. rewrite E1 in S. simpl in *. lia.
Qed.

(* leafGaps is exact *)
Lemma leaf_gaps_none target order x : In x (leaf_gaps None target order) <-> is_gap [] target x.
Proof.
  simpl. unfold is_gap, incomparable_all. split.
  - intros [<-|[]]. split; [apply is_prefix_refl|]. split; [intros k []|left; reflexivity].
  - intros [_ [_ [H|[k [[] _]]]]]. left. symmetry. exact H.
Qed.

Lemma leaf_gaps_some k target order x : In x (leaf_gaps (Some k) target order) <-> is_gap [k] target x.
Proof.
  unfold leaf_gaps, is_gap, incomparable_all. simpl.
  destruct (is_prefix target k) eqn:Etk.
  - rewrite sort_by_order_In, sib_skipn. rewrite (leaf_sib_gaps target k x Etk). split.
    + intros [H1 [H2 H3]]. split; [exact H1|]. split; [intros k' [<-|[]]; exact H2|]. right. exists k. auto.
    + intros [H1 [H2 H3]]. split; [exact H1|]. split; [apply H2; left; reflexivity|].
      destruct H3 as [->|[k' [[<-|[]] H3]]]; [|exact H3].
      exfalso. specialize (H2 k (or_introl eq_refl)). unfold comparable in H2. rewrite Etk in H2. discriminate.
  - destruct (is_prefix k target) eqn:Ekt.
    + split; [intros []|]. intros [H1 [H2 _]].
      specialize (H2 k (or_introl eq_refl)). unfold comparable in H2.
      rewrite (is_prefix_trans _ _ _ Ekt H1) in H2. rewrite orb_true_r in H2. discriminate.
    + split.
      * intros [<-|[]]. split; [apply is_prefix_refl|]. split; [|left; reflexivity].
        intros k' [<-|[]]. unfold comparable. rewrite Etk, Ekt. reflexivity.
      * intros [H1 [H2 [H3|[k' [[<-|[]] H3]]]]]; [left; symmetry; exact H3|].
        destruct (list_eq_dec Bool.bool_dec x target) as [->|Hne]; [left; reflexivity|exfalso].
        assert (Pr : is_prefix target (removelast x) = true).
        { apply is_prefix_exists in H1 as [s ->]. destruct s as [|a s] using rev_ind.
          - rewrite app_nil_r in Hne. congruence.
          - rewrite app_assoc, removelast_snoc. apply is_prefix_app. }
        unfold comparable in H3. apply orb_true_iff in H3 as [H3|H3].
        -- rewrite (is_prefix_trans _ _ _ Pr H3) in Etk. discriminate.
        -- pose proof (prefixes_of_same_comparable _ _ _ H3 Pr) as C. unfold comparable in C.
           rewrite Ekt, Etk in C. discriminate.
Qed.

Lemma map_app_skipn p l : (forall x, In x l -> is_prefix p x = true) ->
  map (app p) (map (skipn (length p)) l) = l.
Proof.
  intro H. rewrite map_map. rewrite <- (map_id l) at 2. apply map_ext_in. intros x Hx.
  apply app_skipn_prefix. apply H. exact Hx.
Qed.

Lemma is_gap_under K T x : is_gap K T x -> is_prefix T x = true.
Proof. intros [H _]. exact H. Qed.

(* what one visited branch contributes, in absolute terms (p prepended): the gaps of the branch
   below the target as seen from the branch *)
Lemma gaps_visit_spec rec (t0 t1 : trie D) p depth target order i :
  wf_at p (Nd t0 t1) -> length p = depth ->
  (length target <= depth \/ (is_prefix p target = true /\ nth_error target depth = Some i)) ->
  (forall c, c = child t0 t1 i -> forall a b, c = Nd a b ->
     exists g, rec c (S depth) target order = Ok g /\
       forall x, In x (map (app (p ++ [i])) g) <-> is_gap (keys_of c) (tgt (S depth) target (p ++ [i])) x) ->
  exists g, gaps_visit rec t0 t1 depth target order i = Ok g /\
    forall x, In x (map (app p) g) <->
              is_gap (keys_of (child t0 t1 i)) (tgt (S depth) target (p ++ [i])) x.
Proof.
  intros Hw Hp Hvis IH. unfold gaps_visit.
  assert (Hskip : (if length target <=? depth then Ok false
                   else tb <- bit_at target depth ;; Ok (negb (Bool.eqb i tb))) = Ok false).
  { destruct (length target <=? depth) eqn:E1; [reflexivity|]. apply Nat.leb_gt in E1.
    destruct Hvis as [H|[_ H]]; [lia|]. unfold bit_at. rewrite H. simpl. rewrite eqb_reflx. reflexivity. }
  rewrite Hskip. cbn [bind]. cbv zeta.
  pose proof (wf_at_child p t0 t1 i Hw) as Wc.
  assert (Lp : length (p ++ [i]) = S depth) by (rewrite app_length; simpl; lia).
  unfold tgt.
  destruct (negb (length target <=? depth) && (S depth <? length target)) eqn:Eab.
  - (* the trie may end above the target *)
    apply andb_true_iff in Eab as [Ea Eb]. apply negb_true_iff in Ea. apply Nat.leb_gt in Ea. apply Nat.ltb_lt in Eb.
    destruct Hvis as [H|[Ppt Hn]]; [lia|].
    assert (E2 : (length target <=? S depth) = false) by (apply Nat.leb_gt; lia). rewrite E2.
    destruct (child t0 t1 i) as [|k d|a b] eqn:Ec.
    + eexists. split; [reflexivity|]. intro x. rewrite <- Hp. rewrite map_app_skipn.
      * apply (leaf_gaps_none target order x).
      * intros y Hy. apply (leaf_gaps_none target order) in Hy. apply is_gap_under in Hy. eapply is_prefix_trans; eauto.
    + eexists. split; [reflexivity|]. intro x. rewrite <- Hp. rewrite map_app_skipn.
      * apply (leaf_gaps_some k target order x).
      * intros y Hy. apply (leaf_gaps_some k target order) in Hy. apply is_gap_under in Hy. eapply is_prefix_trans; eauto.
    + destruct (IH (Nd a b) eq_refl a b eq_refl) as [g [Eg Hg]]. rewrite Eg. cbn [bind].
      exists (map (cons i) g). split; [reflexivity|]. intro x. rewrite map_map.
      unfold tgt in Hg. rewrite E2 in Hg. rewrite <- (Hg x). rewrite !in_map_iff.
      split; intros [y [Ey Hy]]; exists y; (split; [|exact Hy]); rewrite <- Ey, <- app_assoc; reflexivity.
  - (* at or below the depth of the target: the branch is judged from its own path *)
    assert (E2 : (length target <=? S depth) = true).
    { apply Nat.leb_le. apply andb_false_iff in Eab as [Ea|Eb].
      - apply negb_false_iff in Ea. apply Nat.leb_le in Ea. lia.
      - apply Nat.ltb_ge in Eb. exact Eb. }
    rewrite E2.
    destruct (child t0 t1 i) as [|k d|a b] eqn:Ec.
    + exists [[i]]. split; [reflexivity|]. intro x. unfold keys_of. simpl.
      rewrite <- (leaf_gaps_none (p ++ [i]) order x). simpl. intuition.
    + simpl in Wc. unfold keys_of. cbn [entries map fst].
      destruct (S depth <? length k) eqn:El.
      * eexists. split; [reflexivity|]. intro x. rewrite map_map. rewrite in_map_iff.
        assert (Core : (exists a b r, k = a ++ b :: r /\ x = a ++ [negb b] /\ length (p ++ [i]) <= length a)
                       <-> is_gap [k] (p ++ [i]) x).
        { rewrite (leaf_sib_gaps (p ++ [i]) k x Wc). unfold is_gap, incomparable_all. simpl. split.
          - intros [H1 [H2 H3]]. split; [exact H1|]. split; [intros k' [<-|[]]; exact H2|]. right. exists k. auto.
          - intros [H1 [H2 H3]]. split; [exact H1|]. split; [apply H2; left; reflexivity|].
            destruct H3 as [->|[k' [[<-|[]] H3]]]; [|exact H3].
            exfalso. specialize (H2 k (or_introl eq_refl)). unfold comparable in H2. rewrite Wc in H2. discriminate. }
        rewrite <- Core. split.
        -- intros [y [Ey Hy]]. apply sort_by_order_In in Hy. apply sib_skipn in Hy as [a [b [r [E1 [E3 Hl]]]]].
           assert (Py : is_prefix p y = true).
           { subst y k. apply is_prefix_snoc_l in Wc. apply is_prefix_app_r.
             eapply is_prefix_app_inv; [exact Wc|lia]. }
           rewrite <- Hp in Ey. rewrite (app_skipn_prefix p y Py) in Ey. subst x.
           exists a, b, r. rewrite Lp. auto.
        -- intros [a [b [r [E1 [E3 Hl]]]]]. exists x. rewrite Lp in Hl. split.
           ++ rewrite <- Hp. apply app_skipn_prefix. subst x k. apply is_prefix_snoc_l in Wc.
              apply is_prefix_app_r. eapply is_prefix_app_inv; [exact Wc|lia].
           ++ apply sort_by_order_In. apply sib_skipn. exists a, b, r. auto.
      * exists []. split; [reflexivity|]. intro x. simpl. split; [intros []|].
        intros [H1 [H2 H3]]. apply Nat.ltb_ge in El.
        (* k is the path itself: everything below is comparable with k *)
        assert (k = p ++ [i]) by (symmetry; apply is_prefix_same_length; [exact Wc|apply is_prefix_length in Wc; lia]).
        subst k. specialize (H2 _ (or_introl eq_refl)). unfold comparable in H2. rewrite H1 in H2.
        rewrite orb_true_r in H2. discriminate.
    + destruct (IH (Nd a b) eq_refl a b eq_refl) as [g [Eg Hg]]. rewrite Eg. cbn [bind].
      exists (map (cons i) g). split; [reflexivity|]. intro x. rewrite map_map.
      unfold tgt in Hg. rewrite E2 in Hg. rewrite <- (Hg x). rewrite !in_map_iff.
      split; intros [y [Ey Hy]]; exists y; (split; [|exact Hy]); rewrite <- Ey, <- app_assoc; reflexivity.
Qed.

Lemma removelast_under p' x : is_prefix p' x = true -> x <> p' -> is_prefix p' (removelast x) = true.
Proof.
  intros H Hne. apply is_prefix_exists in H as [s ->]. destruct s as [|a s] using rev_ind.
  - rewrite app_nil_r in Hne. congruence.
  - rewrite app_assoc, removelast_snoc. apply is_prefix_app.
Qed.

(* the facts about a child c = child i of a well-formed node at path p, for x below p ++ [i] *)
Section Child.
Variables (t0 t1 : trie D) (p : bits) (i : bool).
Hypothesis Hw : wf_at p (Nd t0 t1).
Notation c := (child t0 t1 i).
Notation p' := (p ++ [i]).
Notation Ks := (keys_of (Nd t0 t1)).
Notation Kc := (keys_of (child t0 t1 i)).

Lemma Kc_in_Ks k : In k Kc -> In k Ks.
Proof. rewrite keys_of_Nd. intro H. apply in_or_app. destruct i; simpl in H; auto. Qed.

Lemma Ks_split k : In k Ks -> In k Kc \/ is_prefix (p ++ [negb i]) k = true.
Proof.
  rewrite keys_of_Nd. intro H. destruct Hw as [W0 [W1 _]].
  apply in_app_or in H as [H|H]; destruct i; simpl; auto.
  - right. apply (wf_at_keys_prefix _ _ _ W0 H).
  - right. apply (wf_at_keys_prefix _ _ _ W1 H).
Qed.

Lemma incomparable_child x : is_prefix p' x = true -> (incomparable_all Ks x <-> incomparable_all Kc x).
Proof.
  intro Hx. split; intros H k Hk.
  - apply H. apply Kc_in_Ks. exact Hk.
  - destruct (Ks_split k Hk) as [Hc|Ho]; [apply H; exact Hc|].
    apply (other_branch_incomparable p i); assumption.
Qed.

Lemma parent_comparable_child x : is_prefix p' x = true -> x <> p' ->
  ((exists k, In k Ks /\ comparable (removelast x) k = true) <->
   (exists k, In k Kc /\ comparable (removelast x) k = true)).
Proof.
  intros Hx Hne. pose proof (removelast_under p' x Hx Hne) as Hr. split; intros [k [Hk Ck]].
  - destruct (Ks_split k Hk) as [Hc|Ho]; [exists k; auto|].
    rewrite (other_branch_incomparable p i _ _ Hr Ho) in Ck. discriminate.
  - exists k. split; [apply Kc_in_Ks; exact Hk|exact Ck].
Qed.

Lemma p_comparable : exists k, In k Ks /\ comparable p k = true.
Proof.
  destruct (exists_key p t0 t1 Hw) as [y Hy]. exists y. split; [exact Hy|].
  unfold comparable. rewrite (wf_at_keys_prefix _ _ _ Hw Hy). reflexivity.
Qed.

(* the path of a non-empty child is comparable with one of its keys *)
Lemma p'_comparable_child : c <> E -> exists k, In k Kc /\ comparable p' k = true.
Proof.
  intro Hne. pose proof (wf_at_child p t0 t1 i Hw) as Wc.
  destruct (keys_of c) as [|y l] eqn:E1.
  - exfalso. apply Hne. apply (wf_size0 p' c Wc). rewrite size_keys, E1. reflexivity.
  - exists y. split; [left; reflexivity|]. unfold comparable.
    assert (Hy : In y (keys_of (child t0 t1 i))) by (rewrite E1; left; reflexivity).
    rewrite (wf_at_keys_prefix _ _ _ Wc Hy). reflexivity.
Qed.

(* the gaps below the child, in terms of the child's keys only:
   G x  :=  x below p', comparable with no key of the child, and (x = p' or the parent of x is
   comparable with a key of the child) *)
Definition below_child (x : bits) : Prop :=
  is_prefix p' x = true /\ incomparable_all Kc x /\
  (x = p' \/ exists k, In k Kc /\ comparable (removelast x) k = true).

(* descending: the effective target e lies below p' *)
Lemma is_gap_descend e x :
  is_prefix p' e = true ->
  (is_gap Ks e x <-> is_prefix e x = true /\ incomparable_all Kc x /\
                     (x = e \/ exists k, In k Kc /\ comparable (removelast x) k = true)).
Proof.
  intro He. unfold is_gap. split.
  - intros [H1 [H2 H3]]. assert (Px : is_prefix p' x = true) by (eapply is_prefix_trans; eauto).
    split; [exact H1|]. split; [apply incomparable_child; assumption|].
    destruct H3 as [H3|H3]; [left; exact H3|].
    destruct (list_eq_dec Bool.bool_dec x e) as [->|Hne]; [left; reflexivity|right].
    apply parent_comparable_child; auto.
    intro X. subst x. apply Hne. apply is_prefix_antisym; assumption.
  - intros [H1 [H2 H3]]. assert (Px : is_prefix p' x = true) by (eapply is_prefix_trans; eauto).
    split; [exact H1|]. split; [apply incomparable_child; assumption|].
    destruct H3 as [H3|[k [Hk Ck]]]; [left; exact H3|right].
    exists k. split; [apply Kc_in_Ks; exact Hk|exact Ck].
Qed.

(* inside the target: the effective target is p *)
Lemma is_gap_inside x :
  is_prefix p' x = true -> (is_gap Ks p x <-> below_child x).
Proof.
  intro Px. unfold is_gap, below_child. split.
  - intros [H1 [H2 H3]]. split; [exact Px|]. split; [apply incomparable_child; assumption|].
    destruct (list_eq_dec Bool.bool_dec x p') as [->|Hne]; [left; reflexivity|right].
    destruct H3 as [->|H3].
    + exfalso. apply is_prefix_length in Px. rewrite app_length in Px. simpl in Px. lia.
    + apply parent_comparable_child; auto.
  - intros [_ [H2 H3]]. split; [eapply is_prefix_snoc_l; exact Px|].
    split; [apply incomparable_child; assumption|]. right.
    destruct H3 as [->|[k [Hk Ck]]].
    + rewrite removelast_snoc. apply p_comparable.
    + exists k. split; [apply Kc_in_Ks; exact Hk|exact Ck].
Qed.

End Child.

Lemma under_some_child p x : is_prefix p x = true -> x <> p -> exists b, is_prefix (p ++ [b]) x = true.
Proof.
  intros H Hne. apply is_prefix_exists in H as [r ->]. destruct r as [|b r].
  - rewrite app_nil_r in Hne. congruence.
  - exists b. replace (p ++ b :: r) with ((p ++ [b]) ++ r) by (rewrite <- app_assoc; reflexivity).
    apply is_prefix_app.
Qed.

Lemma visit_skip rec (t0 t1 : trie D) depth target order tb :
  nth_error target depth = Some tb ->
  gaps_visit rec t0 t1 depth target order (negb tb) = Ok [].
Proof.
  intro H. unfold gaps_visit.
  assert (depth < length target) by (apply nth_error_Some; congruence).
  destruct (length target <=? depth) eqn:E1; [apply Nat.leb_le in E1; lia|].
  unfold bit_at. rewrite H. simpl. destruct tb; reflexivity.
Qed.

Lemma gaps_at_spec (s : trie D) : forall p depth target order,
  wf_at p s -> length p = depth -> (match s with Nd _ _ => True | _ => False end) ->
  height s + depth <= length order ->
  (length target <= depth \/ is_prefix p target = true) ->
  exists g, gaps_at s depth target order = Ok g /\
            forall x, In x (map (app p) g) <-> is_gap (keys_of s) (tgt depth target p) x.
Proof.
  induction s as [|k d|t0 IH0 t1 IH1]; intros p depth target order Hw Hp Hnd Hh Hal; try contradiction.
  rewrite gaps_at_Nd. simpl in Hh.
  destruct (bit_at_lt order depth) as [ob [Hob _]]; [lia|]. rewrite Hob. cbn [bind].
  destruct (nth_error target depth) as [tb|] eqn:Et.
  - (* descending along the target: only the branch of the target is visited *)
    assert (Hlt : depth < length target) by (apply nth_error_Some; congruence).
    destruct Hal as [Hal|Ppt]; [lia|].
    assert (Ppt' : is_prefix (p ++ [tb]) target = true) by (apply is_prefix_snoc; rewrite Hp; auto).
    assert (IH : forall c, c = child t0 t1 tb -> forall a b, c = Nd a b ->
       exists g, gaps_at c (S depth) target order = Ok g /\
         forall x, In x (map (app (p ++ [tb])) g) <-> is_gap (keys_of c) (tgt (S depth) target (p ++ [tb])) x).
    { intros c Ec a b Ecs. pose proof (wf_at_child p t0 t1 tb Hw) as Wc. pose proof (height_child t0 t1 tb) as Hc.
      rewrite <- Ec in Wc, Hc. simpl in Hc.
      destruct tb; simpl in Ec; subst c.
      - apply (IH1 (p ++ [true]) (S depth) target order Wc).
        + rewrite app_length; simpl; lia.
        + rewrite Ecs; exact I.
        + lia.
        + right; exact Ppt'.
      - apply (IH0 (p ++ [false]) (S depth) target order Wc).
        + rewrite app_length; simpl; lia.
        + rewrite Ecs; exact I.
        + lia.
        + right; exact Ppt'. }
    destruct (gaps_visit_spec gaps_at t0 t1 p depth target order tb Hw Hp (or_intror (conj Ppt Et)) IH) as [g [Eg Hg]].
    assert (Etgt : tgt (S depth) target (p ++ [tb]) = target).
    { unfold tgt. destruct (length target <=? S depth) eqn:E1; [|reflexivity]. apply Nat.leb_le in E1.
      apply is_prefix_same_length; [exact Ppt'|rewrite app_length; simpl; lia]. }
    assert (Etgt0 : tgt depth target p = target).
    { unfold tgt. destruct (length target <=? depth) eqn:E1; [apply Nat.leb_le in E1; lia|reflexivity]. }
    assert (Final : forall x, In x (map (app p) g) <-> is_gap (keys_of (Nd t0 t1)) (tgt depth target p) x).
    { intro x. rewrite (Hg x), Etgt, Etgt0.
      rewrite (is_gap_descend t0 t1 p tb Hw target x Ppt'). unfold is_gap. tauto. }
    destruct (Bool.eqb ob tb) eqn:Eo.
    + apply eqb_prop in Eo. subst ob. rewrite Eg. cbn [bind].
      rewrite (visit_skip gaps_at t0 t1 depth target order tb Et). cbn [bind].
      exists (g ++ []). split; [reflexivity|]. rewrite app_nil_r. exact Final.
    + assert (ob = negb tb) by (destruct ob, tb; simpl in Eo; try discriminate; reflexivity). subst ob.
      rewrite (visit_skip gaps_at t0 t1 depth target order tb Et). cbn [bind].
      rewrite negb_involutive, Eg. cbn [bind]. exists g. split; [reflexivity|exact Final].
  - (* inside the target: both branches *)
    assert (Hin : length target <= depth) by (apply nth_error_None; exact Et).
    assert (Etgt0 : tgt depth target p = p) by (unfold tgt; rewrite (proj2 (Nat.leb_le _ _) Hin); reflexivity).
    rewrite Etgt0.
    assert (IH : forall i c, c = child t0 t1 i -> forall a b, c = Nd a b ->
       exists g, gaps_at c (S depth) target order = Ok g /\
         forall x, In x (map (app (p ++ [i])) g) <-> is_gap (keys_of c) (tgt (S depth) target (p ++ [i])) x).
    { intros i c Ec a b Ecs. pose proof (wf_at_child p t0 t1 i Hw) as Wc. pose proof (height_child t0 t1 i) as Hc.
      rewrite <- Ec in Wc, Hc. simpl in Hc.
      destruct i; simpl in Ec; subst c.
      - apply (IH1 (p ++ [true]) (S depth) target order Wc).
        + rewrite app_length; simpl; lia.
        + rewrite Ecs; exact I.
        + lia.
        + left; lia.
      - apply (IH0 (p ++ [false]) (S depth) target order Wc).
        + rewrite app_length; simpl; lia.
        + rewrite Ecs; exact I.
        + lia.
        + left; lia. }
    destruct (gaps_visit_spec gaps_at t0 t1 p depth target order ob Hw Hp (or_introl Hin) (IH ob)) as [g1 [E1 H1]].
    destruct (gaps_visit_spec gaps_at t0 t1 p depth target order (negb ob) Hw Hp (or_introl Hin) (IH (negb ob))) as [g2 [E2 H2]].
    rewrite E1. cbn [bind]. rewrite E2. cbn [bind].
    exists (g1 ++ g2). split; [reflexivity|]. intro x. rewrite map_app, in_app_iff, (H1 x), (H2 x).
    assert (Es : forall i, tgt (S depth) target (p ++ [i]) = p ++ [i]).
    { intro i. unfold tgt. rewrite (proj2 (Nat.leb_le _ _)) by lia. reflexivity. }
    rewrite !Es.
    (* the gaps of a branch below its own path are the gaps of the node that lie in the branch *)
    assert (Br : forall i, is_gap (keys_of (child t0 t1 i)) (p ++ [i]) x <->
                          is_prefix (p ++ [i]) x = true /\ is_gap (keys_of (Nd t0 t1)) p x).
    { intro i. split.
      - intro G. assert (Px : is_prefix (p ++ [i]) x = true) by apply G. split; [exact Px|].
        apply (is_gap_inside t0 t1 p i Hw x Px). exact G.
      - intros [Px G]. apply (is_gap_inside t0 t1 p i Hw x Px). exact G. }
    rewrite !Br. split.
    + intros [[_ G]|[_ G]]; exact G.
    + intro G. destruct G as [G1 [G2 G3]].
      assert (Hne : x <> p).
      { intro X. subst x. destruct (p_comparable t0 t1 p Hw) as [k [Hk Ck]]. rewrite (G2 k Hk) in Ck. discriminate. }
      destruct (under_some_child p x G1 Hne) as [b Pb].
      destruct (Bool.eqb b ob) eqn:Eb.
      * apply eqb_prop in Eb. subst b. left. split; [exact Pb|]. split; [exact G1|]. split; assumption.
      * assert (b = negb ob) by (destruct b, ob; simpl in Eb; try discriminate; reflexivity). subst b.
        right. split; [exact Pb|]. split; [exact G1|]. split; assumption.
Qed.

(* TrieGaps: no panic when the order is at least as long as the trie is deep; the result is
   exactly the set of gaps of the key set below the target, for every target *)
Theorem gaps_exact (t : trie D) target order :
  wf t -> height t <= length order ->
  exists g, trie_gaps t target order = Ok g /\ forall x, In x g <-> is_gap (keys_of t) target x.
Proof.
  intros Hw Hh. destruct t as [|k d|t0 t1].
  - eexists. split; [reflexivity|]. intro x. apply leaf_gaps_none.
  - eexists. split; [reflexivity|]. intro x. unfold keys_of. simpl. apply leaf_gaps_some.
  - destruct (gaps_at_spec (Nd t0 t1) [] 0 target order Hw eq_refl I) as [g [Eg Hg]]; [simpl in *; lia|right; reflexivity|].
    exists g. split; [exact Eg|]. intro x.
    assert (Et : tgt 0 target [] = target).
    { unfold tgt. destruct (length target <=? 0) eqn:E1; [|reflexivity].
      apply Nat.leb_le in E1. destruct target; [reflexivity|simpl in E1; lia]. }
    rewrite <- Et at 1. rewrite <- (Hg x). rewrite map_id. tauto.
Qed.

End Gaps.
