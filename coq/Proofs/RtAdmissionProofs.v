From Verif.Lib Require Import GoSem.
From Verif.Model Require Import Lookup RtAdmission.
From Verif.Proofs Require Import PutFlowProofs.
Local Open Scope N_scope.

Section Rt.
Variable adm : list id -> id -> bool.

Lemma rt_add_In l p q : In q (rt_add adm l p) -> In q l \/ q = p.
Proof.
  unfold rt_add. destruct (memN p l); [auto|]. destruct (adm l p); [|auto].
  intro H. apply in_app_iff in H. destruct H as [H|[<-|[]]]; auto.
Qed.
Lemma rt_add_keeps l p q : In q l -> In q (rt_add adm l p).
Proof.
  unfold rt_add. destruct (memN p l); [auto|]. destruct (adm l p); [|auto]. intro H. apply in_app_iff. auto.
Qed.
Lemma rt_remove_In l p q : In q (rt_remove l p) <-> In q l /\ q <> p.
Proof.
  unfold rt_remove. rewrite filter_In, negb_true_iff, N.eqb_neq. tauto.
Qed.
Lemma remove_first_In x l q : In q (remove_first x l) -> In q l.
Proof.
  induction l as [|y l IH]; simpl; [auto|]. destruct (N.eqb x y); [auto|]. intros [H|H]; auto.
Qed.

(* history invariant: why each member is a member, why each probe is running *)
Definition justified (rt0 : list id) (hist : list rtev) (p : id) : Prop :=
  In p rt0 \/ In (QueryOk p) hist \/ (In (ProbeDone p true) hist /\ In (PeerChange p true) hist).

Lemma justified_mono rt0 h e p : justified rt0 h p -> justified rt0 (h ++ [e]) p.
Proof.
  unfold justified. rewrite !in_app_iff. tauto.
Qed.

Lemma rt_step_inv rt0 hist s e :
  (forall p, In p (rt s) -> justified rt0 hist p) ->
  (forall p, In p (probing s) -> In (PeerChange p true) hist) ->
  (forall p, In p (rt (rt_step adm s e)) -> justified rt0 (hist ++ [e]) p) /\
  (forall p, In p (probing (rt_step adm s e)) -> In (PeerChange p true) (hist ++ [e])).
Proof.
  intros HR HP. destruct e as [p v|p ok|p|p c|p|p]; simpl.
  - destruct v.
    + destruct (useful_new adm (rt s) p); [destruct (capacity s)|]; simpl; split; intros q Hq;
        try (apply justified_mono; apply HR; exact Hq); try (apply in_app_iff; left; apply HP; exact Hq).
      apply in_app_iff in Hq. apply in_app_iff. destruct Hq as [Hq|[<-|[]]]; [left; apply HP; exact Hq|right; left; reflexivity].
    + simpl. split; intros q Hq; [|apply in_app_iff; left; apply HP; exact Hq].
      apply rt_remove_In in Hq. apply justified_mono. apply HR. tauto.
  - destruct (memN p (probing s)) eqn:M; simpl; [|split; intros q Hq; [apply justified_mono; apply HR; exact Hq|apply in_app_iff; left; apply HP; exact Hq]].
    apply memN_In in M. split; intros q Hq.
    + destruct ok; [|apply justified_mono; apply HR; exact Hq].
      apply rt_add_In in Hq. destruct Hq as [Hq| ->]; [apply justified_mono; apply HR; exact Hq|].
      right. right. rewrite !in_app_iff. split; [right; left; reflexivity|left; apply HP; exact M].
    + apply in_app_iff. left. apply HP. eapply remove_first_In; eauto.
  - split; intros q Hq; [|apply in_app_iff; left; apply HP; exact Hq].
    apply rt_add_In in Hq. destruct Hq as [Hq| ->]; [apply justified_mono; apply HR; exact Hq|].
    right. left. apply in_app_iff. right. left. reflexivity.
  - destruct c; simpl; split; intros q Hq; try (apply justified_mono; apply HR; exact Hq); try (apply in_app_iff; left; apply HP; exact Hq).
    apply rt_remove_In in Hq. apply justified_mono. apply HR. tauto.
  - split; intros q Hq; [|apply in_app_iff; left; apply HP; exact Hq].
    apply rt_remove_In in Hq. apply justified_mono. apply HR. tauto.
  - split; intros q Hq; [apply justified_mono; apply HR; exact Hq|apply in_app_iff; left; apply HP; exact Hq].
Qed.

Lemma rt_run_inv rt0 evs : forall hist s,
  (forall p, In p (rt s) -> justified rt0 hist p) ->
  (forall p, In p (probing s) -> In (PeerChange p true) hist) ->
  forall p, In p (rt (rt_run adm s evs)) -> justified rt0 (hist ++ evs) p.
Proof.
  unfold rt_run. induction evs as [|e evs IH]; intros hist s HR HP p Hp; simpl in Hp.
  - rewrite app_nil_r. apply HR. exact Hp.
  - destruct (rt_step_inv rt0 hist s e HR HP) as [HR' HP'].
    replace (hist ++ e :: evs) with ((hist ++ [e]) ++ evs) by (rewrite <- app_assoc; reflexivity).
    eapply IH; eauto.
Qed.

(* members proved themselves *)
Theorem members_answered rt0 cap evs p :
  In p (rt (rt_run adm {| rt := rt0; probing := []; capacity := cap |} evs)) ->
  In p rt0 \/ In (QueryOk p) evs \/ (In (ProbeDone p true) evs /\ In (PeerChange p true) evs).
Proof.
  intro H. apply (rt_run_inv rt0 evs [] _) in H; [exact H| |].
  - intros q Hq. left. exact Hq.
  - intros q [].
Qed.

(* eviction *)
Definition evicts (e : rtev) (p : id) : bool :=
  match e with
  | QueryFail q false | PingFail q | PeerChange q false => N.eqb q p
  | _ => false
  end.
Definition readmits (e : rtev) (p : id) : bool :=
  match e with
  | QueryOk q | ProbeDone q true => N.eqb q p
  | _ => false
  end.

Lemma evicted_now s e p : evicts e p = true -> ~ In p (rt (rt_step adm s e)).
Proof.
  destruct e as [q v|q ok|q|q c|q|q]; simpl; try discriminate.
  - destruct v; [discriminate|]. intro E. apply N.eqb_eq in E. subst. simpl. rewrite rt_remove_In. tauto.
  - destruct c; [discriminate|]. intro E. apply N.eqb_eq in E. subst. simpl. rewrite rt_remove_In. tauto.
  - intro E. apply N.eqb_eq in E. subst. simpl. rewrite rt_remove_In. tauto.
Qed.

Lemma stays_out s e p : ~ In p (rt s) -> readmits e p = false -> ~ In p (rt (rt_step adm s e)).
Proof.
  intros H R Hin. destruct e as [q v|q ok|q|q c|q|q]; simpl in *.
  - destruct v; [destruct (useful_new adm (rt s) q); [destruct (capacity s)|]; simpl in Hin; contradiction|].
    simpl in Hin. apply rt_remove_In in Hin. tauto.
  - destruct (memN q (probing s)); [|contradiction]. simpl in Hin. destruct ok; [|contradiction].
    apply rt_add_In in Hin. destruct Hin as [Hin| ->]; [contradiction|]. rewrite N.eqb_refl in R. discriminate.
  - apply rt_add_In in Hin. destruct Hin as [Hin| ->]; [contradiction|]. rewrite N.eqb_refl in R. discriminate.
  - destruct c; [contradiction|]. simpl in Hin. apply rt_remove_In in Hin. tauto.
  - apply rt_remove_In in Hin. tauto.
  - contradiction.
Qed.

Theorem evicted_until_readmitted s e evs p :
  evicts e p = true -> forallb (fun x => negb (readmits x p)) evs = true ->
  ~ In p (rt (rt_run adm (rt_step adm s e) evs)).
Proof.
  intros E. generalize (evicted_now s e p E). generalize (rt_step adm s e). clear s e E.
  unfold rt_run. induction evs as [|x evs IH]; intros s H F; simpl; [exact H|].
  simpl in F. apply andb_true_iff in F. destruct F as [F1 F2]. apply negb_true_iff in F1.
  apply IH; [apply stays_out; assumption|exact F2].
Qed.

Theorem cancelled_failure_keeps s p : rt_step adm s (QueryFail p true) = s.
Proof. reflexivity. Qed.
End Rt.

(* ---- the refresh manager ---------------------------------------------------------------------- *)
Definition rf_inv (s : rfstate) : Prop :=
  (rf_closed s = false -> loop_alive s = true) /\
  (has_waiting (reqs_st s) = true -> loop_alive s = true) /\
  (forall i n, nth_error (reqs_st s) i = Some (RqAnswered n) -> n = 1%nat).

Lemma nth_set_nth i v l j : nth_error (set_nth i v l) j = if Nat.eqb i j then (match nth_error l j with Some _ => Some v | None => None end) else nth_error l j.
Proof.
  revert i j; induction l as [|x l IH]; intros i j.
  - destruct i, j; simpl; try reflexivity. destruct (Nat.eqb i j); reflexivity.
  - destruct i, j; simpl; try reflexivity. apply IH.
Qed.

Lemma has_waiting_ex l : has_waiting l = true <-> exists i, nth_error l i = Some RqWaiting.
Proof.
  unfold has_waiting. rewrite existsb_exists. split.
  - intros [r [Hr E]]. destruct r; try discriminate. apply In_nth_error in Hr. exact Hr.
  - intros [i Hi]. exists RqWaiting. split; [eapply nth_error_In; eauto|reflexivity].
Qed.

Lemma rf_step_inv s e s' : rf_inv s -> rf_step s e = Some s' -> rf_inv s'.
Proof.
  intros (I1 & I2 & I3) H. destruct e as [|i| | |i]; simpl in H.
  - inversion H; subst; clear H. split; [exact I1|]. split; simpl.
    + intro W. apply has_waiting_ex in W. destruct W as [i Hi]. apply I2. apply has_waiting_ex.
      destruct (Nat.lt_ge_cases i (length (reqs_st s))) as [L|G].
      * exists i. rewrite nth_error_app1 in Hi; assumption.
      * rewrite nth_error_app2 in Hi by exact G. destruct (i - length (reqs_st s))%nat as [|k]; simpl in Hi; [discriminate|destruct k; discriminate].
    + intros i n Hi. destruct (Nat.lt_ge_cases i (length (reqs_st s))) as [L|G].
      * rewrite nth_error_app1 in Hi by exact L. eapply I3; eauto.
      * rewrite nth_error_app2 in Hi by exact G. destruct (i - length (reqs_st s))%nat as [|k]; simpl in Hi; [discriminate|destruct k; discriminate].
  - destruct (nth_error (reqs_st s) i) as [[| |n]|] eqn:E; try discriminate.
    destruct (loop_alive s) eqn:LA; [|discriminate]. inversion H; subst; clear H. unfold rf_inv; simpl.
    split; [auto|]. split; [auto|]. intros j n. rewrite nth_set_nth. destruct (Nat.eqb i j); [destruct (nth_error (reqs_st s) j); discriminate|apply I3].
  - destruct (loop_alive s && has_waiting (reqs_st s)) eqn:C; [|discriminate]. inversion H; subst; clear H. unfold rf_inv; simpl.
    split; [intro X; rewrite X; reflexivity|]. split.
    + intro W. exfalso. apply has_waiting_ex in W. destruct W as [i Hi]. rewrite nth_error_map in Hi.
      destruct (nth_error (reqs_st s) i) as [[| |n]|]; simpl in Hi; discriminate.
    + intros i n Hi. rewrite nth_error_map in Hi. destruct (nth_error (reqs_st s) i) as [[| |m]|] eqn:E; simpl in Hi; try discriminate.
      * inversion Hi. reflexivity.
      * inversion Hi; subst. eapply I3; eauto.
  - inversion H; subst; clear H. unfold rf_inv; simpl. split; [discriminate|]. split; [|exact I3].
    intro W. rewrite W, andb_true_r. apply I2. exact W.
  - destruct (nth_error (reqs_st s) i) as [[| |n]|] eqn:E; try discriminate.
    destruct (rf_closed s) eqn:CL; [|discriminate]. inversion H; subst; clear H. unfold rf_inv; simpl.
    split; [discriminate|]. split.
    + intro W. apply I2. apply has_waiting_ex in W. destruct W as [j Hj]. rewrite nth_set_nth in Hj.
      apply has_waiting_ex. destruct (Nat.eqb i j); [destruct (nth_error (reqs_st s) j); discriminate|eauto].
    + intros j n. rewrite nth_set_nth. destruct (Nat.eqb i j) eqn:Eij; [|apply I3].
      destruct (nth_error (reqs_st s) j); intro X; inversion X; reflexivity.
Qed.

Lemma rf_run_inv evs : forall s s', rf_inv s -> rf_run s evs = Some s' -> rf_inv s'.
Proof.
  induction evs as [|e evs IH]; intros s s' I H; simpl in H; [inversion H; subst; exact I|].
  destruct (rf_step s e) as [s1|] eqn:E; [|discriminate]. eapply IH; [eapply rf_step_inv; eauto|exact H].
Qed.

Lemma rf0_inv : rf_inv rf0.
Proof. split; [reflexivity|]. split; [discriminate|]. intros i n H. destruct i; discriminate. Qed.

(* every request that is not yet answered can always make its next step, and
   an answered request received exactly one value *)
Theorem every_request_answered evs s i r :
  rf_run rf0 evs = Some s -> nth_error (reqs_st s) i = Some r ->
  match r with
  | RqSending => (exists s', rf_step s (RfAccept i) = Some s') \/ (exists s', rf_step s (RfGiveUp i) = Some s')
  | RqWaiting => exists s', rf_step s RfRound = Some s' /\ nth_error (reqs_st s') i = Some (RqAnswered 1)
  | RqAnswered n => n = 1%nat
  end.
Proof.
  intros H Hi. pose proof (rf_run_inv evs rf0 s rf0_inv H) as (I1 & I2 & I3). destruct r as [| |n].
  - simpl. rewrite Hi. destruct (rf_closed s) eqn:C; [right; eauto|]. left. rewrite (I1 eq_refl). eauto.
  - assert (W: has_waiting (reqs_st s) = true) by (apply has_waiting_ex; eauto).
    simpl. rewrite (I2 W), W. simpl. eexists. split; [reflexivity|]. simpl. rewrite nth_error_map, Hi. reflexivity.
  - eapply I3; eauto.
Qed.

(* once answered, always answered with that one value *)
Theorem answered_is_final s e s' i :
  rf_step s e = Some s' -> nth_error (reqs_st s) i = Some (RqAnswered 1) -> nth_error (reqs_st s') i = Some (RqAnswered 1).
Proof.
  intros H Hi. destruct e as [|j| | |j]; simpl in H.
  - inversion H; subst. simpl. rewrite nth_error_app1; [exact Hi|]. apply nth_error_Some. congruence.
  - destruct (nth_error (reqs_st s) j) as [[| |n]|] eqn:E; try discriminate. destruct (loop_alive s); [|discriminate].
    inversion H; subst. simpl. rewrite nth_set_nth. destruct (Nat.eqb j i) eqn:Eq; [apply Nat.eqb_eq in Eq; subst; congruence|exact Hi].
  - destruct (loop_alive s && has_waiting (reqs_st s)); [|discriminate]. inversion H; subst. simpl. rewrite nth_error_map, Hi. reflexivity.
  - inversion H; subst. exact Hi.
  - destruct (nth_error (reqs_st s) j) as [[| |n]|] eqn:E; try discriminate. destruct (rf_closed s); [|discriminate].
    inversion H; subst. simpl. rewrite nth_set_nth. destruct (Nat.eqb j i) eqn:Eq; [apply Nat.eqb_eq in Eq; subst; congruence|exact Hi].
Qed.
