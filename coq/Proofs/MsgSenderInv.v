(* Lemmas about Model/MsgSender.v, part 1: the invariant, the proof automation and the
   key facts about what is outstanding on a stream. *)
From Verif.Lib Require Import GoSem Bits.
From Verif.Model Require Import MsgSender.
From Coq Require Import Lia.


(* ---- finite maps and tables -------------------------------------------------- *)
Lemma mget_mset {A} (m : fmap A) k v j :
  mget (mset m k v) j = if Nat.eqb j k then Some v else mget m j.
Proof.
  induction m as [|[k' v'] m IH]; simpl.
  - destruct (Nat.eqb j k); reflexivity.
  - destruct (Nat.eqb_spec k k') as [->|Hk]; simpl.
    + destruct (Nat.eqb j k'); reflexivity.
    + destruct (Nat.eqb_spec j k') as [->|Hj].
      * destruct (Nat.eqb_spec k' k); [congruence|reflexivity].
      * exact IH.
Qed.

Lemma mget_mdel {A} (m : fmap A) k j :
  mget (mdel m k) j = if Nat.eqb j k then None else mget m j.
Proof.
  induction m as [|[k' v'] m IH]; simpl.
  - destruct (Nat.eqb j k); reflexivity.
  - destruct (Nat.eqb_spec k k') as [->|Hk]; simpl.
    + rewrite IH. destruct (Nat.eqb_spec j k'); reflexivity.
    + destruct (Nat.eqb_spec j k') as [->|Hj].
      * destruct (Nat.eqb_spec k' k); [congruence|reflexivity].
      * exact IH.
Qed.

Lemma nth_error_upd {A} (l : list A) i v j :
  nth_error (upd l i v) j =
  if Nat.eqb j i then match nth_error l i with Some _ => Some v | None => None end else nth_error l j.
Proof.
  revert i j. induction l as [|x l IH]; intros i j; simpl.
  - destruct (Nat.eqb j i); destruct i; destruct j; reflexivity.
  - destruct i; destruct j; simpl; try reflexivity. apply IH.
Qed.

Lemma length_upd {A} (l : list A) i v : length (upd l i v) = length l.
Proof. revert i. induction l; intros [|i]; simpl; auto. Qed.

Lemma nth_error_snoc {A} (l : list A) v j :
  nth_error (l ++ [v]) j = if Nat.eqb j (length l) then Some v else nth_error l j.
Proof.
  destruct (Nat.eqb_spec j (length l)) as [->|H].
  - rewrite nth_error_app2 by lia. rewrite Nat.sub_diag. reflexivity.
  - destruct (Nat.lt_ge_cases j (length l)).
    + apply nth_error_app1. assumption.
    + rewrite nth_error_app2 by lia. destruct (j - length l) as [|n] eqn:E; [lia|].
      simpl. destruct n; simpl; symmetry; apply nth_error_None; lia.
Qed.

Lemma nth_error_lt {A} (l : list A) i x : nth_error l i = Some x -> i < length l.
Proof. intro H. apply nth_error_Some. congruence. Qed.

Lemma nth_error_len_None {A} (l : list A) : nth_error l (length l) = None.
Proof. apply nth_error_None. lia. Qed.

(* the sender a pc mentions *)
Definition pc_sender (p : pc) : option nat :=
  match p with
  | PGot sd | PNew sd | PPrepNew sd | PDialNew sd | PFailed sd _ | PLoop sd _ | PDial sd _ | PWrite sd _ | PRead sd _ => Some sd
  | PDone _ => None
  end.
(* the sender whose stream a pc is reading from / about to write to *)
Definition reads (p : pc) : option nat := match p with PRead sd _ => Some sd | _ => None end.
Definition uses (p : pc) : option nat := match p with PRead sd _ | PWrite sd _ => Some sd | _ => None end.
Definition dials (p : pc) : option nat := match p with PDialNew sd | PDial sd _ => Some sd | _ => None end.
Definition has_stream (x : sender) : bool := match sd_stream x with Some _ => true | None => false end.

Definition result_ok (t : nat) (p : pc) : Prop :=
  match p with
  | PDone RPanic => False
  | PDone (ROk (Some id)) => id = t
  | _ => True
  end.

Definition writes_ok (th : thread) : Prop :=
  match t_pc th with
  | PGot _ | PNew _ | PPrepNew _ | PDialNew _ | PFailed _ _ => t_writes th = 0
  | PLoop _ false | PDial _ false | PWrite _ false => t_writes th = 0
  | PRead _ false | PLoop _ true | PDial _ true | PWrite _ true => t_writes th = 1
  | PRead _ true => t_writes th = 2
  | PDone _ => t_writes th <= 2
  end.

Definition tpc (s : state) (t : nat) : option pc := option_map t_pc (mget (threads s) t).

Record Inv (s : state) : Prop := {
  (* a call inside a critical section of ms.lk is the holder of that lock *)
  i_hold : forall t th sd, mget (threads s) t = Some th -> holds (t_pc th) = Some sd ->
           option_map sd_lock (nth_error (senders s) sd) = Some (Some t);
  i_peer : forall t th sd, mget (threads s) t = Some th -> pc_sender (t_pc th) = Some sd ->
           option_map sd_peer (nth_error (senders s) sd) = Some (t_peer th);
  (* and conversely *)
  i_lock : forall sd t, option_map sd_lock (nth_error (senders s) sd) = Some (Some t) ->
           option_map (fun th => holds (t_pc th)) (mget (threads s) t) = Some (Some sd);
  (* ms.s, when set, is an open stream opened by ms; an invalidated sender has none *)
  i_cur : forall sd st, option_map sd_stream (nth_error (senders s) sd) = Some (Some st) ->
          option_map sd_invalid (nth_error (senders s) sd) = Some false /\
          option_map sm_owner (nth_error (streams s) st) = Some sd /\
          option_map sm_cli (nth_error (streams s) st) = Some COpen /\
          option_map sm_peer (nth_error (streams s) st) = option_map sd_peer (nth_error (senders s) sd);
  (* every stream the client has not reset or closed is the current stream of its owner *)
  i_open : forall st sd, option_map sm_cli (nth_error (streams s) st) = Some COpen ->
           option_map sm_owner (nth_error (streams s) st) = Some sd ->
           option_map sd_stream (nth_error (senders s) sd) = Some (Some st);
  (* KEY: what is outstanding on an open stream belongs to a call that is in its read on it *)
  i_clean : forall st y, nth_error (streams s) st = Some y -> sm_cli y = COpen ->
            length (sm_pending y) + length (sm_inbox y) <= 1 /\
            (forall t, In t (sm_pending y ++ map reply_id (sm_inbox y)) ->
                       option_map (fun th => reads (t_pc th)) (mget (threads s) t) = Some (Some (sm_owner y)));
  i_strm : forall t th sd, mget (threads s) t = Some th -> uses (t_pc th) = Some sd ->
           option_map has_stream (nth_error (senders s) sd) = Some true;
  (* a call inside host.NewStream: prep saw a valid sender without a stream, and holds the lock *)
  i_dial : forall t th sd, mget (threads s) t = Some th -> dials (t_pc th) = Some sd ->
           option_map (fun x => (sd_invalid x, sd_stream x)) (nth_error (senders s) sd) = Some (false, None);
  i_res : forall t th, mget (threads s) t = Some th -> result_ok t (t_pc th);
  i_wr : forall t th, mget (threads s) t = Some th -> writes_ok th;
  i_map : forall p sd, mget (smap s) p = Some sd -> option_map sd_peer (nth_error (senders s) sd) = Some p;
  i_rdk : forall t th sd, mget (threads s) t = Some th -> reads (t_pc th) = Some sd -> t_kind th = KReq
}.

Lemma Inv_init : Inv init.
Proof.
  split; simpl; intros; try discriminate;
    try (destruct st; discriminate); try (destruct sd; discriminate).
Qed.

(* record-style corollaries of the invariant *)
Lemma cur_rec s (I : Inv s) sd x st :
  nth_error (senders s) sd = Some x -> sd_stream x = Some st ->
  sd_invalid x = false /\ option_map sm_owner (nth_error (streams s) st) = Some sd /\
  option_map sm_cli (nth_error (streams s) st) = Some COpen /\
  option_map sm_peer (nth_error (streams s) st) = Some (sd_peer x).
Proof.
  intros Hx Hs. pose proof (i_cur s I sd st) as C. rewrite Hx in C. simpl in C. rewrite Hs in C.
  destruct (C eq_refl) as (A & B & D & E). repeat split; auto. congruence.
Qed.

Lemma lock_rec s (I : Inv s) sd x t :
  nth_error (senders s) sd = Some x -> sd_lock x = Some t ->
  option_map (fun th => holds (t_pc th)) (mget (threads s) t) = Some (Some sd).
Proof. intros Hx Hl. apply (i_lock s I). rewrite Hx. simpl. congruence. Qed.

Lemma open_rec s (I : Inv s) st y :
  nth_error (streams s) st = Some y -> sm_cli y = COpen ->
  option_map sd_stream (nth_error (senders s) (sm_owner y)) = Some (Some st).
Proof. intros Hy Hc. apply (i_open s I); rewrite Hy; simpl; congruence. Qed.

Ltac proj := cbn [senders streams threads smap invq put_thread put_sender put_stream set_senders set_threads
                  set_streams set_smap set_invq unlock_done panic
                  t_peer t_kind t_pc t_ctx t_writes th_pc th_ctx th_wrote
                  sd_peer sd_stream sd_invalid sd_single sd_lock sd_set_stream sd_set_lock sd_set_invalid sd_inc_single
                  sm_peer sm_owner sm_cli sm_dead sm_pending sm_inbox sm_set_cli sm_set_queues sm_kill
                  option_map holds pc_sender reads uses dials result_ok writes_ok reply_id fst snd] in *.

Ltac look := repeat (rewrite ?mget_mset, ?mget_mdel, ?nth_error_upd, ?nth_error_snoc, ?length_upd in * ).

Ltac caseq :=
  match goal with
  | H : context[Nat.eqb ?a ?b] |- _ => destruct (Nat.eqb_spec a b); [subst|]
  | |- context[Nat.eqb ?a ?b] => destruct (Nat.eqb_spec a b); [subst|]
  end.

Ltac inj := repeat match goal with
  | H : Some _ = Some _ |- _ => injection H as H; try subst
  | H : Some _ = None |- _ => discriminate H
  | H : None = Some _ |- _ => discriminate H
  | H : ?a = ?a |- _ => clear H
  end.

Ltac known := repeat match goal with
  | H : nth_error ?l ?i = _ |- _ => progress (rewrite H in * )
  | H : mget ?m ?k = _ |- _ => progress (rewrite H in * )
  | H : t_pc _ = _ |- _ => progress (rewrite H in * )
  | H : t_ctx _ = _ |- _ => progress (rewrite H in * )
  | H : t_kind _ = _ |- _ => progress (rewrite H in * )
  | H : sd_lock _ = _ |- _ => progress (rewrite H in * )
  | H : sd_stream _ = _ |- _ => progress (rewrite H in * )
  | H : sd_invalid _ = _ |- _ => progress (rewrite H in * )
  | H : sm_cli _ = _ |- _ => progress (rewrite H in * )
  | H : sm_owner _ = _ |- _ => progress (rewrite H in * )
  end.

Ltac fresh_absurd := match goal with
  | H : nth_error ?l (length ?l) = Some _ |- _ => rewrite nth_error_len_None in H; discriminate H
  | H : context[nth_error ?l (length ?l)] |- _ => rewrite nth_error_len_None in H; proj; discriminate H
  end.

Ltac old I :=
  let s := match type of I with Inv ?s => s end in
  pose proof (i_hold s I) as Ohold; pose proof (i_peer s I) as Opeer; pose proof (i_lock s I) as Olock;
  pose proof (i_cur s I) as Ocur; pose proof (i_open s I) as Oopen; pose proof (i_clean s I) as Oclean;
  pose proof (i_strm s I) as Ostrm; pose proof (i_dial s I) as Odial; pose proof (i_res s I) as Ores; pose proof (i_wr s I) as Owr;
  pose proof (i_map s I) as Omap; pose proof (i_rdk s I) as Ordk;
  pose proof (cur_rec s I) as Rcur; pose proof (lock_rec s I) as Rlock; pose proof (open_rec s I) as Ropen.

Ltac fin := solve [ eauto 4 | discriminate | fresh_absurd | lia | congruence | exfalso; eauto 3
                  | match goal with
                    | H : mget (threads ?s) ?t = Some ?th, O : forall t th, mget (threads ?s) t = Some th -> writes_ok th |- _ =>
                        exact (O _ _ H)
                    end
                  | unfold writes_ok in *; proj; solve [eauto 3 | lia]
                  | simpl; split; [lia | intros ? []]
                  | destr_bool; proj; solve [lia | auto | congruence] ].

Ltac norm := repeat (progress (known; proj; inj)).
Ltac crunch := intros; unfold has_stream in *; proj; look; repeat caseq; norm; try fin.


Lemma uses_holds p sd : uses p = Some sd -> holds p = Some sd.
Proof. destruct p; simpl; congruence. Qed.
Lemma reads_uses p sd : reads p = Some sd -> uses p = Some sd.
Proof. destruct p; simpl; congruence. Qed.
Lemma dials_holds p sd : dials p = Some sd -> holds p = Some sd.
Proof. destruct p; simpl; congruence. Qed.
Lemma holds_sender p sd : holds p = Some sd -> pc_sender p = Some sd.
Proof. destruct p; simpl; congruence. Qed.

Ltac destr_bool := repeat match goal with b : bool |- _ => destruct b end.

Ltac learn P := let T := type of P in lazymatch goal with | _ : T |- _ => fail | _ => pose proof P end.

(* forward saturation with the old clauses *)
Ltac sat := repeat match goal with
  | H : reads ?p = Some ?sd |- _ => learn (reads_uses _ _ H)
  | H : uses ?p = Some ?sd |- _ => learn (uses_holds _ _ H)
  | H : dials ?p = Some ?sd |- _ => learn (dials_holds _ _ H)
  | O : forall t th sd, mget _ t = Some th -> dials _ = Some sd -> _,
    H : mget (threads _) ?t = Some ?th, H0 : dials (t_pc ?th) = Some ?sd |- _ => learn (O _ _ _ H H0)
  | O : forall t th sd, mget _ t = Some th -> holds _ = Some sd -> _,
    H : mget (threads _) ?t = Some ?th, H0 : holds (t_pc ?th) = Some ?sd |- _ => learn (O _ _ _ H H0)
  | O : forall t th sd, mget _ t = Some th -> pc_sender _ = Some sd -> _,
    H : mget (threads _) ?t = Some ?th, H0 : pc_sender (t_pc ?th) = Some ?sd |- _ => learn (O _ _ _ H H0)
  | O : forall t th sd, mget _ t = Some th -> uses _ = Some sd -> _,
    H : mget (threads _) ?t = Some ?th, H0 : uses (t_pc ?th) = Some ?sd |- _ => learn (O _ _ _ H H0)
  | O : forall t th sd, mget _ t = Some th -> reads _ = Some sd -> _,
    H : mget (threads _) ?t = Some ?th, H0 : reads (t_pc ?th) = Some ?sd |- _ => learn (O _ _ _ H H0)
  | O : forall sd t, option_map sd_lock _ = _ -> _, H : option_map sd_lock _ = Some (Some _) |- _ => learn (O _ _ H)
  | O : forall sd st, option_map sd_stream _ = _ -> _, H : option_map sd_stream _ = Some (Some _) |- _ => learn (O _ _ H)
  | O : forall st sd, option_map sm_cli _ = _ -> option_map sm_owner _ = _ -> _,
    H : option_map sm_cli (nth_error _ ?st) = Some COpen, H0 : option_map sm_owner (nth_error _ ?st) = Some _ |- _ => learn (O _ _ H H0)
  | O : forall p sd, mget (smap _) p = Some sd -> _, H : mget (smap _) _ = Some _ |- _ => learn (O _ _ H)
  | R : forall sd x st, nth_error _ sd = Some x -> sd_stream x = Some st -> _,
    Hx : nth_error (senders _) _ = Some ?x, H : sd_stream ?x = Some _ |- _ => learn (R _ _ _ Hx H)
  | R : forall sd x t, nth_error _ sd = Some x -> sd_lock x = Some t -> _,
    Hx : nth_error (senders _) _ = Some ?x, H : sd_lock ?x = Some _ |- _ => learn (R _ _ _ Hx H)
  | R : forall st y, nth_error _ st = Some y -> sm_cli y = COpen -> option_map sd_stream _ = _,
    Hy : nth_error (streams _) _ = Some ?y, H : sm_cli ?y = COpen |- _ => learn (R _ _ Hy H)
  end.

Ltac destr_and := repeat match goal with H : _ /\ _ |- _ => destruct H end.
Ltac crunch2 := crunch; try (sat; destr_and; crunch).

Ltac clean_frame :=
  match goal with
  | O : forall st y, nth_error (streams ?s) st = Some y -> _ -> _ /\ _,
    H1 : nth_error (streams ?s) ?st = Some ?y, H2 : sm_cli ?y = COpen |- _ /\ _ =>
      let A := fresh "A" in let B := fresh "B" in
      destruct (O _ _ H1 H2) as (A & B); split; [exact A|];
      let t0 := fresh "t0" in let Hin := fresh "Hin" in
      intros t0 Hin; specialize (B _ Hin)
  end.


(* destruct the matches of an unfolded step, innermost scrutinee first *)
Ltac dm H := repeat match type of H with
  | context[match ?x with _ => _ end] =>
      lazymatch x with
      | context[match _ with _ => _ end] => fail
      | _ => destruct x eqn:?; try discriminate H
      end
  end.

Ltac thread_facts I Ht :=
  let F1 := fresh "F" in let F2 := fresh "F" in let F3 := fresh "F" in let F4 := fresh "F" in
  let F5 := fresh "F" in let F6 := fresh "F" in let F7 := fresh "F" in
  match type of Ht with mget (threads ?s) ?t = Some ?th =>
    match goal with
    | Hpc : t_pc th = _ |- _ =>
      pose proof (fun sd => i_hold _ I _ _ sd Ht) as F1; pose proof (fun sd => i_peer _ I _ _ sd Ht) as F2;
      pose proof (fun sd => i_strm _ I _ _ sd Ht) as F3; pose proof (fun sd => i_rdk _ I _ _ sd Ht) as F4;
      pose proof (fun sd => i_dial _ I _ _ sd Ht) as F7; pose proof (i_res _ I _ _ Ht) as F5; pose proof (i_wr _ I _ _ Ht) as F6;
      unfold writes_ok in F6; rewrite Hpc in F1, F2, F3, F4, F5, F6, F7; proj;
      try specialize (F1 _ eq_refl); try specialize (F2 _ eq_refl); try specialize (F3 _ eq_refl);
      try specialize (F4 _ eq_refl); try specialize (F7 _ eq_refl)
    end
  end.

Ltac start_ev I H :=
  simpl in H; unfold fail_exchange, finish, reset_stream, invalidate, mark_stream in H; dm H; inj; old I.

Ltac finish_inv := split; crunch2; try (clean_frame; crunch2).


Ltac ev I H :=
  start_ev I H; try (match goal with Ht : mget (threads _) _ = Some _ |- _ => thread_facts I Ht end); finish_inv.

(* ---- the key facts about what is outstanding on a stream ------------------- *)
Lemma reader_is_holder s (I : Inv s) t1 th1 sd x t :
  mget (threads s) t1 = Some th1 -> reads (t_pc th1) = Some sd ->
  nth_error (senders s) sd = Some x -> sd_lock x = Some t -> t1 = t.
Proof.
  intros H1 H2 Hx Hl. pose proof (i_hold s I _ _ _ H1 (uses_holds _ _ (reads_uses _ _ H2))) as E.
  rewrite Hx in E. simpl in E. congruence.
Qed.

Lemma stream_items s (I : Inv s) st y x t t1 :
  nth_error (streams s) st = Some y -> sm_cli y = COpen ->
  nth_error (senders s) (sm_owner y) = Some x -> sd_lock x = Some t ->
  In t1 (sm_pending y ++ map reply_id (sm_inbox y)) ->
  t1 = t /\ option_map (fun th => reads (t_pc th)) (mget (threads s) t) = Some (Some (sm_owner y)).
Proof.
  intros Hy Hc Hx Hl Hin. destruct (i_clean s I _ _ Hy Hc) as [_ B]. specialize (B _ Hin).
  destruct (mget (threads s) t1) as [th1|] eqn:E1; [|discriminate]. simpl in B. injection B as B.
  assert (t1 = t) by (eapply reader_is_holder; eauto). subst. split; [reflexivity|]. rewrite E1. simpl. congruence.
Qed.

Lemma idle_clean s (I : Inv s) st y x t th :
  nth_error (streams s) st = Some y -> sm_cli y = COpen ->
  nth_error (senders s) (sm_owner y) = Some x -> sd_lock x = Some t ->
  mget (threads s) t = Some th -> reads (t_pc th) = None ->
  sm_pending y = [] /\ sm_inbox y = [].
Proof.
  intros Hy Hc Hx Hl Ht Hr.
  destruct (sm_pending y ++ map reply_id (sm_inbox y)) as [|e l] eqn:E.
  - apply app_eq_nil in E. destruct E as [E1 E2]. apply map_eq_nil in E2. auto.
  - destruct (stream_items s I st y x t e Hy Hc Hx Hl) as [_ B]; [rewrite E; left; reflexivity|].
    rewrite Ht in B. simpl in B. congruence.
Qed.

Lemma free_clean s (I : Inv s) st y x :
  nth_error (streams s) st = Some y -> sm_cli y = COpen ->
  nth_error (senders s) (sm_owner y) = Some x -> sd_lock x = None ->
  sm_pending y = [] /\ sm_inbox y = [].
Proof.
  intros Hy Hc Hx Hl.
  destruct (sm_pending y ++ map reply_id (sm_inbox y)) as [|e l] eqn:E.
  - apply app_eq_nil in E. destruct E as [E1 E2]. apply map_eq_nil in E2. auto.
  - destruct (i_clean s I _ _ Hy Hc) as [_ B]. specialize (B e). rewrite E in B. specialize (B (or_introl eq_refl)).
    destruct (mget (threads s) e) as [th1|] eqn:E1; [|discriminate]. simpl in B. injection B as B.
    pose proof (i_hold s I _ _ _ E1 (uses_holds _ _ (reads_uses _ _ B))) as F. rewrite Hx in F. simpl in F. congruence.
Qed.

