(* C02: end condition, contact of all returned peers, progress/termination,
   and convergence on honest networks (Model/Lookup.v). *)
From Verif.Lib Require Import GoSem.
From Verif.Model Require Import Lookup.
From Verif.Proofs Require Import LookupBasics LookupProofs.
From Coq Require Import Permutation Sorted.
From Verif.Lib Require Import XorOrder.
Local Open Scope N_scope.

Section Conv.
Variable c : config.
Variable env : id -> outcome.
Variable seeds : list id.
Let self := cSelf c.

(* ---- why a lookup ended ------------------------------------------------------------- *)
Definition reason_ok (cancel_seen : bool) (s : lstate) : Prop :=
  match term s with
  | Some Completed => lookup_termination c (ps s) = true
  | Some Starvation => starvation (ps s) = true
  | Some Stopped => stop_fn (cStop c) (ps s) = true
  | Some Cancelled => cancel_seen = true
  | None => True
  end.

Lemma terminate_ps s r : ps (terminate s r) = ps s.
Proof. unfold terminate. destruct (term s); reflexivity. Qed.

Lemma spawn_all_term cause l : forall s s', spawn_all s cause l = Ok s' -> term s' = term s.
Proof.
  induction l as [|p l IH]; intros s s' H; simpl in H; [inversion H; reflexivity|].
  unfold spawn at 1 in H. destruct (set_state _ p Waiting) as [l'| |] eqn:E; cbn [bind] in H; try discriminate.
  apply IH in H. rewrite H. reflexivity.
Qed.

Lemma terminate_reason b s r : reason_ok b s ->
  (match r with
   | Completed => lookup_termination c (ps s) = true
   | Starvation => starvation (ps s) = true
   | Stopped => stop_fn (cStop c) (ps s) = true
   | Cancelled => b = true
   end) -> reason_ok b (terminate s r).
Proof.
  intros R Hr. unfold reason_ok, terminate in *. destruct (term s) eqn:T; [rewrite T; exact R|].
  cbn [term ps log_ev]. destruct r; exact Hr.
Qed.

Lemma after_select_reason b s cause s' : reason_ok b s -> after_select c s cause = Ok s' -> reason_ok b s'.
Proof.
  unfold after_select. intros R H.
  destruct (stop_fn (cStop c) (ps s)) eqn:S1; [inversion H; subst; apply terminate_reason; assumption|].
  destruct (starvation (ps s)) eqn:S2; [inversion H; subst; apply terminate_reason; assumption|].
  destruct (lookup_termination c (ps s)) eqn:S3; [inversion H; subst; apply terminate_reason; assumption|].
  destruct (closest_n_in_states _ _ _ _) as [q| |]; cbn [bind] in H; try discriminate.
  destruct (term s) eqn:Ts; [inversion H; subst; exact R|].
  apply spawn_all_term in H. unfold reason_ok. rewrite H, Ts. exact I.
Qed.

Lemma update_state_term s u s1 : update_state c s u = Ok s1 -> term s = None /\ term s1 = None.
Proof.
  unfold update_state. destruct (term s) eqn:T; [discriminate|]. intro H.
  destruct (leave_waiting_all c _ (uqueried u) Queried) as [l2| |]; cbn [bind] in H; try discriminate.
  destruct (leave_waiting_all c l2 (uunreach u) Unreachable) as [l3| |]; cbn [bind] in H; try discriminate.
  inversion H; subst. unfold with_ps, log_ev. simpl. auto.
Qed.

Fixpoint has_cancel (evs : list event) : bool :=
  match evs with
  | [] => false
  | Cancel :: _ => true
  | _ :: r => has_cancel r
  end.

Lemma step_reason b s e s' : reason_ok b s -> (e = Cancel -> b = true) ->
  step c env s e = Some (Ok s') -> reason_ok b s'.
Proof.
  intros R Hb H. unfold step in H. destruct (term s) eqn:T; [discriminate|].
  destruct e as [p|].
  - destruct (find_peer (ps s) p) as [en|]; [|discriminate].
    destruct (pstate_eqb (pst en) Waiting); [|discriminate]. inversion H as [H1]; clear H.
    destruct (update_state c s (update_of c env p)) as [s1| |] eqn:U; cbn [bind] in H1; try discriminate.
    apply update_state_term in U. destruct U as [_ T1].
    eapply after_select_reason; [|exact H1]. unfold reason_ok. rewrite T1. exact I.
  - inversion H as [H1]; clear H. eapply after_select_reason; [|exact H1].
    apply terminate_reason; [exact R|]. apply Hb. reflexivity.
Qed.

Lemma has_cancel_cons e evs : has_cancel evs = true -> has_cancel (e :: evs) = true.
Proof. destruct e; simpl; auto. Qed.

Lemma run_events_reason b evs : forall s s', reason_ok b s -> (has_cancel evs = true -> b = true) ->
  run_events c env s evs = RDone s' -> reason_ok b s'.
Proof.
  induction evs as [|e evs IH]; intros s s' R Hb H; simpl in H.
  - destruct (term s) eqn:T; [inversion H; subst; exact R|discriminate].
  - destruct (term s) eqn:T; [inversion H; subst; exact R|].
    destruct (step c env s e) as [[s1| |]|] eqn:St; try discriminate.
    apply (IH s1 s'); [|intro X; apply Hb; apply has_cancel_cons; exact X|exact H].
    eapply step_reason; [exact R| |exact St]. intro; subst e. apply Hb. reflexivity.
Qed.

Theorem run_search_reason evs s : run_search c env seeds evs = RDone s -> reason_ok (has_cancel evs) s.
Proof.
  unfold run_search, start. intro H.
  destruct (update_state c lstate0 _) as [s1| |] eqn:U; cbn [bind] in H; try discriminate.
  destruct (after_select c s1 (cSelf c)) as [s2| |] eqn:A; try discriminate.
  eapply run_events_reason; [|intro X; exact X|exact H].
  eapply after_select_reason; [|exact A]. apply update_state_term in U. unfold reason_ok. destruct U as [_ ->]. exact I.
Qed.

(* ---- the end condition (C02, second sentence) ---------------------------------------- *)
Lemma lookup_termination_spec l : NoDup (ids l) -> lookup_termination c l = true ->
  forall p, In p (firstn (cBeta c) (closest_in_states (cKey c) live l)) -> state_of l p = Some Queried.
Proof.
  intros ND H p Hp. unfold lookup_termination in H. rewrite forallb_forall in H. specialize (H p Hp).
  unfold state_of. destruct (find_peer l p) as [e|]; [|discriminate]. apply pstate_eqb_eq in H. simpl. congruence.
Qed.

Lemma num_zero_no_state st l p : num_in_state st l = 0%nat -> state_of l p <> Some st.
Proof.
  unfold num_in_state. intros H Hs. apply state_of_entry in Hs. destruct Hs as [e [He [_ Es]]].
  assert (In e (filter (fun e => pstate_eqb (pst e) st) l)).
  { apply filter_In. split; [exact He|]. rewrite Es. apply pstate_eqb_refl. }
  destruct (filter _ l); [destruct H0|discriminate].
Qed.

Lemma starvation_spec l : starvation l = true ->
  forall p st, state_of l p = Some st -> st = Queried \/ st = Unreachable.
Proof.
  unfold starvation. intros H p st Hs. apply andb_true_iff in H. destruct H as [H1 H2].
  apply Nat.eqb_eq in H1. apply Nat.eqb_eq in H2.
  destruct st; auto; exfalso; [eapply (num_zero_no_state Heard)|eapply (num_zero_no_state Waiting)]; eauto.
Qed.

Theorem end_condition evs s :
  run_search c env seeds evs = RDone s -> has_cancel evs = false -> cStop c = StopNever ->
  (forall p, In p (firstn (cBeta c) (closest_in_states (cKey c) live (ps s))) -> state_of (ps s) p = Some Queried) \/
  (forall p st, state_of (ps s) p = Some st -> st = Queried \/ st = Unreachable).
Proof.
  intros H NC NS. pose proof (run_search_reason evs s H) as R.
  pose proof (run_search_inv c env seeds evs) as I. rewrite H in I. destruct I as [I T].
  unfold reason_ok in R. destruct (term s) as [[| | |]|] eqn:E; try congruence.
  - rewrite NS in R. discriminate.
  - right. apply starvation_spec. exact R.
  - left. apply lookup_termination_spec; [apply (iv_nodup _ _ _ _ I)|exact R].
Qed.

(* ---- every returned peer was sent the request when the lookup completed ------------------- *)
Lemma combine_map_In {A B} (f : A -> B) (l : list A) a b : In (a, b) (combine l (map f l)) -> In a l /\ b = f a.
Proof.
  induction l as [|x l IH]; simpl; [intros []|]. intros [H|H]; [inversion H; subst; auto|].
  apply IH in H. tauto.
Qed.
Lemma combine_map_In_rev {A B} (f : A -> B) (l : list A) a : In a l -> In (a, f a) (combine l (map f l)).
Proof. induction l as [|x l IH]; simpl; [intros []|]. intros [->|H]; [left; reflexivity|right; apply IH; exact H]. Qed.

Theorem all_returned_contacted s cb ca : Inv c env seeds s ->
  let (r, fr) := followup c s cb ca in
  r_completed r = true -> forall p, In p (r_peers r) -> In p (reqs s ++ fr).
Proof.
  intro I. unfold followup.
  set (r := construct_result c s).
  assert (Hst: forall p, In p (r_peers r) -> exists st, state_of (ps s) p = Some st /\ st <> Unreachable).
  { intros p Hp. unfold r, construct_result in Hp. cbn [r_peers] in Hp. apply firstn_In_local in Hp.
    apply closest_in_states_In in Hp; [|apply (iv_nodup _ _ _ _ I)]. destruct Hp as [st [Hs Hl]].
    exists st. split; [exact Hs|]. apply live_states. exact Hl. }
  assert (Hreq: forall p st, state_of (ps s) p = Some st -> st = Waiting \/ st = Queried -> In p (reqs s)).
  { intros p st Hs [->| ->]; rewrite (iv_reqs _ _ _ _ I).
    - apply (iv_waiting _ _ _ _ I) in Hs. tauto.
    - apply (iv_queried _ _ _ _ I) in Hs. apply (iv_resp_sub _ _ _ _ I). apply in_app_iff. auto. }
  assert (Hfp: forall p, In p (r_peers r) -> state_of (ps s) p = Some Heard -> In p (followup_peers c s)).
  { intros p Hp Hs. unfold followup_peers. unfold r, construct_result in *. cbn [r_peers r_states] in *.
    set (f := fun p0 : id => match find_peer (ps s) p0 with Some e => pst e | None => Heard end).
    assert (Fp: f p = Heard).
    { unfold f. unfold state_of in Hs. destruct (find_peer (ps s) p); simpl in *; congruence. }
    apply in_map_iff. exists (p, f p). split; [reflexivity|].
    apply filter_In. split; [apply combine_map_In_rev; exact Hp|]. cbn [snd]. rewrite Fp. reflexivity. }
  destruct (followup_peers c s) as [|f0 fp0] eqn:FP.
  - intros _ p Hp. destruct (Hst p Hp) as [st [Hs Hn]]. rewrite app_nil_r.
    destruct st; try congruence; [|eapply Hreq; eauto|eapply Hreq; eauto].
    exfalso. exact (Hfp p Hp Hs).
  - destruct (cb || stop_fn (cStop c) (ps s)); cbn [r_completed]; [discriminate|].
    intros _ p Hp. destruct (Hst p Hp) as [st [Hs Hn]]. apply in_app_iff.
    destruct st; try congruence; [right; apply Hfp; assumption|left; eapply Hreq; eauto|left; eapply Hreq; eauto].
Qed.

(* ---- progress and termination --------------------------------------------------------------- *)
Lemma num_in_state_pos st l : NoDup (ids l) -> (1 <= num_in_state st l)%nat -> exists p, state_of l p = Some st.
Proof.
  unfold num_in_state. intros ND H. destruct (filter (fun e => pstate_eqb (pst e) st) l) as [|e r] eqn:F; [simpl in H; try rewrite F in H; simpl in H; lia|].
  assert (In e (filter (fun e => pstate_eqb (pst e) st) l)) by (rewrite F; left; reflexivity).
  apply filter_In in H0. destruct H0 as [He Hs]. apply pstate_eqb_eq in Hs.
  exists (pid e). rewrite <- Hs. apply state_of_In_entry; assumption.
Qed.

Lemma state_num_pos st l p : state_of l p = Some st -> (1 <= num_in_state st l)%nat.
Proof.
  intro H. destruct (num_in_state st l) eqn:E; [|lia]. exfalso. eapply num_zero_no_state; eauto.
Qed.

Lemma after_select_progress s cause s' : Inv c env seeds s -> (1 <= cAlpha c)%nat ->
  after_select c s cause = Ok s' -> term s' = None -> exists p, state_of (ps s') p = Some Waiting.
Proof.
  intros I A H T'. unfold after_select in H.
  assert (TT: forall r, term (terminate s r) <> None) by (intro r; apply (terminate_inv c env seeds s r I)).
  destruct (stop_fn (cStop c) (ps s)); [inversion H; subst; exfalso; eapply TT; eauto|].
  destruct (starvation (ps s)) eqn:SV; [inversion H; subst; exfalso; eapply TT; eauto|].
  destruct (lookup_termination c (ps s)); [inversion H; subst; exfalso; eapply TT; eauto|].
  pose proof (iv_wait _ _ _ _ I) as W.
  assert (NN: (0 <= Z.of_nat (cAlpha c) - Z.of_nat (num_in_state Waiting (ps s)))%Z) by lia.
  rewrite (closest_n_ok c _ _ _ _ NN) in H. cbn [bind] in H.
  destruct (term s) eqn:T; [inversion H; subst; congruence|].
  set (n := Z.to_nat (Z.of_nat (cAlpha c) - Z.of_nat (num_in_state Waiting (ps s)))) in *.
  set (l := firstn n (closest_in_states (cKey c) [Heard] (ps s))) in *.
  assert (HH: forall p, In p l -> state_of (ps s) p = Some Heard).
  { intros p Hp. apply firstn_In_local in Hp. apply closest_in_states_In in Hp; [|apply (iv_nodup _ _ _ _ I)].
    destruct Hp as [st [Hs Hin]]. simpl in Hin. rewrite orb_false_r in Hin. apply pstate_eqb_eq in Hin. subst st. exact Hs. }
  destruct (spawn_all_inv c env seeds cause l s I T) as (s2 & E & I2 & T2 & Ev2 & St2).
  - apply NoDup_firstn. apply closest_in_states_nodup. apply (iv_nodup _ _ _ _ I).
  - exact HH.
  - pose proof (firstn_le_length n (closest_in_states (cKey c) [Heard] (ps s))). unfold l, n in *. lia.
  - rewrite E in H. inversion H; subst s2; clear H.
    destruct (num_in_state Waiting (ps s)) as [|nw] eqn:NW.
    + (* nothing in flight: something Heard exists and alpha >= 1, so a request is spawned *)
      unfold starvation in SV. rewrite NW in SV. simpl in SV. rewrite andb_true_r in SV. apply Nat.eqb_neq in SV.
      destruct (num_in_state_pos Heard (ps s) (iv_nodup _ _ _ _ I)) as [p Hp]; [lia|].
      assert (Hin: In p (closest_in_states (cKey c) [Heard] (ps s))).
      { apply closest_in_states_In; [apply (iv_nodup _ _ _ _ I)|]. exists Heard. split; [exact Hp|reflexivity]. }
      destruct (closest_in_states (cKey c) [Heard] (ps s)) as [|q rest] eqn:CL; [destruct Hin|].
      assert (Hq: In q l).
      { unfold l, n. try rewrite NW. simpl. rewrite Z.sub_0_r, Nat2Z.id. destruct (cAlpha c); [lia|]. left. reflexivity. }
      exists q. rewrite St2. destruct (existsb (N.eqb q) l) eqn:EX; [reflexivity|].
      exfalso. assert (existsb (N.eqb q) l = true) by (apply existsb_exists; exists q; split; [exact Hq|apply N.eqb_refl]). congruence.
    + destruct (num_in_state_pos Waiting (ps s) (iv_nodup _ _ _ _ I)) as [p Hp]; [lia|].
      exists p. rewrite St2. destruct (existsb (N.eqb p) l); [reflexivity|exact Hp].
Qed.

Definition resp_count (s : lstate) : nat := length (resp_queried (evlog s) ++ resp_failed (evlog s)).

Lemma after_select_count s cause s' : after_select c s cause = Ok s' -> resp_count s' = resp_count s.
Proof.
  assert (TC: forall r, resp_count (terminate s r) = resp_count s).
  { intro r. unfold terminate, resp_count. destruct (term s); [reflexivity|]. cbn [evlog log_ev].
    rewrite resp_queried_app, resp_failed_app. simpl. rewrite !app_nil_r. reflexivity. }
  unfold after_select. intro H.
  destruct (stop_fn (cStop c) (ps s)); [inversion H; subst; apply TC|].
  destruct (starvation (ps s)); [inversion H; subst; apply TC|].
  destruct (lookup_termination c (ps s)); [inversion H; subst; apply TC|].
  destruct (closest_n_in_states _ _ _ _) as [l| |]; cbn [bind] in H; try discriminate.
  destruct (term s); [inversion H; reflexivity|].
  clear TC. revert s s' H. induction l as [|p l IH]; intros s s' H; simpl in H; [inversion H; reflexivity|].
  unfold spawn at 1 in H. destruct (set_state _ p Waiting) as [l'| |]; cbn [bind] in H; try discriminate.
  apply IH in H. rewrite H. unfold resp_count. cbn [evlog log_ev].
  rewrite resp_queried_app, resp_failed_app. simpl. rewrite !app_nil_r. reflexivity.
Qed.

Lemma step_arrive_count s p s' : Inv c env seeds s -> step c env s (Arrive p) = Some (Ok s') -> resp_count s' = S (resp_count s).
Proof.
  intros I H. unfold step in H. destruct (term s) eqn:T; [discriminate|].
  destruct (find_peer (ps s) p) as [en|] eqn:F; [|discriminate].
  destruct (pstate_eqb (pst en) Waiting) eqn:W; [|discriminate]. inversion H as [H1]; clear H.
  assert (Hs: state_of (ps s) p = Some Waiting).
  { unfold state_of. rewrite F. simpl. apply pstate_eqb_eq in W. rewrite W. reflexivity. }
  destruct (update_arrive c env seeds s p I T Hs) as (s1 & E & I1 & _).
  assert (C1: resp_count s1 = S (resp_count s)).
  { unfold update_state in E. rewrite T in E.
    destruct (leave_waiting_all c _ (uqueried _) Queried) as [l2| |]; cbn [bind] in E; try discriminate.
    destruct (leave_waiting_all c l2 (uunreach _) Unreachable) as [l3| |]; cbn [bind] in E; try discriminate.
    inversion E; subst s1. unfold resp_count, with_ps, log_ev. cbn [evlog].
    rewrite resp_queried_app, resp_failed_app. cbn [resp_queried resp_failed flat_map]. rewrite !app_nil_r, !app_length.
    unfold update_of. destruct (env p); simpl; lia. }
  rewrite E in H1. cbn [bind] in H1. apply after_select_count in H1. lia.
Qed.

Lemma step_cancel_term s s' : Inv c env seeds s -> step c env s Cancel = Some (Ok s') -> term s' <> None.
Proof.
  intros I H. unfold step in H. destruct (term s) eqn:T; [discriminate|]. inversion H as [H1]; clear H.
  destruct (terminate_inv c env seeds s Cancelled I) as (I1 & T1 & _).
  unfold after_select in H1.
  assert (TT: forall r, terminate (terminate s Cancelled) r = terminate s Cancelled).
  { intro r. unfold terminate at 1. destruct (term (terminate s Cancelled)); [reflexivity|congruence]. }
  destruct (stop_fn _ _); [inversion H1; subst; rewrite TT; exact T1|].
  destruct (starvation _); [inversion H1; subst; rewrite TT; exact T1|].
  destruct (lookup_termination _ _); [inversion H1; subst; rewrite TT; exact T1|].
  destruct (closest_n_in_states _ _ _ _); cbn [bind] in H1; try discriminate.
  destruct (term (terminate s Cancelled)) eqn:T2; [inversion H1; subst; congruence|congruence].
Qed.

Lemma run_events_count evs : forall s s', Inv c env seeds s -> run_events c env s evs = RPending s' ->
  resp_count s' = (resp_count s + length evs)%nat.
Proof.
  induction evs as [|e evs IH]; intros s s' I H; simpl in H.
  - destruct (term s); [discriminate|]. inversion H; subst. simpl. lia.
  - destruct (term s) eqn:T; [discriminate|].
    destruct (step c env s e) as [[s1| |]|] eqn:St; try discriminate.
    destruct (step_inv c env seeds s e _ I St) as (s1' & E1 & I1). inversion E1; subst s1'.
    destruct e as [p|].
    + rewrite (IH s1 s' I1 H). rewrite (step_arrive_count s p s1 I St). simpl. lia.
    + exfalso. pose proof (step_cancel_term s s1 I St) as X.
      destruct evs; simpl in H; destruct (term s1); try discriminate; congruence.
Qed.

(* every learned id belongs to the (finite) universe the environment draws from *)
Definition closed_env (U : list id) : Prop :=
  (forall p, In p seeds -> In p U) /\
  (forall q closer p, env q = OAnswer closer -> In p (process_response c closer) -> In p U).

Lemma ids_in_universe U s : closed_env U -> Inv c env seeds s -> forall p, In p (ids (ps s)) -> In p U.
Proof.
  intros [C1 C2] I p Hp. apply (iv_heard _ _ _ _ I) in Hp. destruct Hp as [Hp _].
  destruct (resp_heard_origin c env seeds _ p (iv_evok _ _ _ _ I) Hp) as [S|(cause & closer & A & B & _)]; eauto.
Qed.

Theorem pending_bound U evs s : closed_env U -> run_search c env seeds evs = RPending s -> (length evs <= length U)%nat.
Proof.
  intros CE H. unfold run_search in H. destruct (start_inv c env seeds) as (s0 & E0 & I0). rewrite E0 in H.
  pose proof (run_events_count evs s0 s I0 H) as Cnt.
  pose proof (run_events_inv c env seeds evs s0 I0) as I. rewrite H in I. destruct I as [I _].
  assert (B: (resp_count s <= length U)%nat).
  { unfold resp_count. apply NoDup_incl_length; [apply (iv_resp_nodup _ _ _ _ I)|].
    intros p Hp. apply (ids_in_universe U s CE I). apply in_app_iff in Hp. destruct Hp as [Hp|Hp].
    - apply (iv_queried _ _ _ _ I) in Hp. eapply state_of_Some_In; eauto.
    - apply (iv_unreach _ _ _ _ I) in Hp. eapply state_of_Some_In; eauto. }
  lia.
Qed.

Theorem pending_has_enabled_event evs s : (1 <= cAlpha c)%nat ->
  run_search c env seeds evs = RPending s -> exists p, state_of (ps s) p = Some Waiting.
Proof.
  intros A H. unfold run_search, start in H.
  destruct (update_seed c env seeds) as (s1 & E & I1 & _).
  rewrite E in H. cbn [bind] in H.
  destruct (after_select_inv c env seeds s1 (cSelf c) I1) as (s2 & E2 & I2). rewrite E2 in H.
  revert s2 E2 I2 H. generalize (cSelf c) as cause. generalize s1 I1. clear E.
  induction evs as [|e evs IH]; intros sa Ia cause s2 E2 I2 H; simpl in H.
  - destruct (term s2) eqn:T; [discriminate|]. inversion H; subst. exact (after_select_progress sa cause s Ia A E2 T).
  - destruct (term s2) eqn:T; [discriminate|].
    destruct (step c env s2 e) as [[s3| |]|] eqn:St; try discriminate.
    unfold step in St. rewrite T in St. destruct e as [p|].
    + destruct (find_peer (ps s2) p) as [en|] eqn:F; [|discriminate].
      destruct (pstate_eqb (pst en) Waiting) eqn:W; [|discriminate]. inversion St as [St1]; clear St.
      assert (Hs: state_of (ps s2) p = Some Waiting).
      { unfold state_of. rewrite F. simpl. apply pstate_eqb_eq in W. rewrite W. reflexivity. }
      destruct (update_arrive c env seeds s2 p I2 T Hs) as (s4 & E4 & I4 & _). rewrite E4 in St1. cbn [bind] in St1.
      destruct (after_select_inv c env seeds s4 p I4) as (s5 & E5 & I5). rewrite E5 in St1. inversion St1; subst s5.
      eapply (IH s4 I4 p s3); eauto.
    + inversion St as [St1]; clear St.
      destruct (terminate_inv c env seeds s2 Cancelled I2) as (It & _).
      destruct (after_select_inv c env seeds _ (cSelf c) It) as (s5 & E5 & I5). rewrite E5 in St1. inversion St1; subst s5.
      eapply (IH _ It (cSelf c) s3); eauto.
Qed.
End Conv.

Lemma NoDup_filter_local {A} (f : A -> bool) l : NoDup l -> NoDup (filter f l).
Proof.
  induction 1 as [|x l Hx _ IH]; simpl; [constructor|].
  destruct (f x); [constructor; [|exact IH]|exact IH]. intro H. apply filter_In in H. tauto.
Qed.

(* ---- sort_dist --------------------------------------------------------------------------------- *)
Lemma ins_dist_perm key x l : Permutation (ins_dist key x l) (x :: l).
Proof.
  induction l as [|y l IH]; simpl; [reflexivity|].
  destruct (N.leb (dist key x) (dist key y)); [reflexivity|]. rewrite IH. apply perm_swap.
Qed.
Lemma sort_dist_perm key l : Permutation (sort_dist key l) l.
Proof.
  unfold sort_dist. induction l as [|x l IH]; simpl; [reflexivity|]. rewrite ins_dist_perm. constructor. exact IH.
Qed.
Definition le_distN (key a b : id) : Prop := dist key a <= dist key b.
Lemma ins_dist_sorted key x l : StronglySorted (le_distN key) l -> StronglySorted (le_distN key) (ins_dist key x l).
Proof.
  induction l as [|y l IH]; simpl; intro H; [constructor; constructor|].
  destruct (N.leb (dist key x) (dist key y)) eqn:E.
  - apply N.leb_le in E. constructor; [exact H|]. constructor; [exact E|].
    inversion H as [|? ? _ Hall]; subst. eapply Forall_impl; [|exact Hall]. intros a Ha. unfold le_distN in *. lia.
  - apply N.leb_gt in E. inversion H as [|? ? Hs Hall]; subst. constructor; [apply IH; exact Hs|].
    apply Forall_forall. intros z Hz. apply (Permutation_in _ (ins_dist_perm key x l)) in Hz. destruct Hz as [<-|Hz].
    + unfold le_distN; lia.
    + rewrite Forall_forall in Hall. apply Hall. exact Hz.
Qed.
Lemma sort_dist_sorted key l : StronglySorted (le_distN key) (sort_dist key l).
Proof. unfold sort_dist. induction l as [|x l IH]; simpl; [constructor|]. apply ins_dist_sorted. exact IH. Qed.

Lemma sort_dist_In key l x : In x (sort_dist key l) <-> In x l.
Proof. split; apply Permutation_in; [apply sort_dist_perm|symmetry; apply sort_dist_perm]. Qed.

Lemma sort_dist_strict key l : NoDup l -> StronglySorted (lt_dist key) (sort_dist key l).
Proof.
  intro ND. pose proof (sort_dist_sorted key l) as S.
  assert (N: NoDup (sort_dist key l)) by (eapply Permutation_NoDup; [symmetry; apply sort_dist_perm|exact ND]).
  revert S N. generalize (sort_dist key l). intro m. induction m as [|x m IH]; intros S N; [constructor|].
  inversion S as [|? ? Sm Hall]; subst. inversion N as [|? ? Hx Nm]; subst.
  constructor; [apply IH; assumption|]. apply Forall_forall. intros y Hy. rewrite Forall_forall in Hall.
  specialize (Hall y Hy). unfold le_distN in Hall. unfold lt_dist.
  destruct (N.eq_dec (dist key x) (dist key y)) as [E|E]; [|lia]. apply dist_inj in E. subst. contradiction.
Qed.

(* the head of a sorted list is nearest *)
Lemma sort_dist_hd key l z rest : sort_dist key l = z :: rest -> forall y, In y l -> dist key z <= dist key y.
Proof.
  intros E y Hy. pose proof (sort_dist_sorted key l) as S. rewrite E in S.
  apply (sort_dist_In key) in Hy. rewrite E in Hy. destruct Hy as [<-|Hy]; [lia|].
  inversion S as [|? ? _ Hall]; subst. rewrite Forall_forall in Hall. apply Hall. exact Hy.
Qed.

(* ---- convergence on honest networks (C02, first sentence) ------------------------------------- *)
Section Honest.
Variable c : config.
Variable U : list id.                 (* the peers of the network *)
Variable knows : id -> list id.       (* each peer's routing knowledge *)
Variable seeds : list id.
Let self := cSelf c.
Let key := cKey c.
Let env := honest_env c knows.

(* "knows every peer of each of its non-full k-buckets, and K peers of each full one" *)
Definition kbucket_complete : Prop :=
  forall p x, In p U -> In x U -> x <> p ->
    let B := bucket_of U p x in
    ((length B <= cK c)%nat -> incl B (knows p)) /\
    ((cK c < length B)%nat -> exists ys, NoDup ys /\ length ys = cK c /\ incl ys B /\ incl ys (knows p)).

Hypothesis Hlimit : cLimit c = 0%nat.
Hypothesis Htarget : cTarget c = None.
Hypothesis Hstop : cStop c = StopNever.
Hypothesis HK : (1 <= cK c)%nat.
Hypothesis Hbeta : (1 <= cBeta c)%nat.
Hypothesis HU : NoDup U.
Hypothesis Hself : ~ In self U.
Hypothesis Hknows : forall p, incl (knows p) U.
Hypothesis Hseeds : seeds <> [] /\ incl seeds U.

Lemma honest_process p : process_response c (honest_answer (cK c) key (knows p)) = firstn (cK c) (sort_dist key (knows p)).
Proof.
  unfold process_response, honest_answer. rewrite Hlimit, Htarget. cbn [ip_diversity_filter].
  rewrite firstn_all2 by (rewrite map_length; pose proof (firstn_le_length (cK c) (sort_dist key (knows p))); unfold id in *; lia).
  assert (F: forall l, (forall x, In x l -> x <> self) ->
             map rid (filter (fun p0 => negb (N.eqb (rid p0) (cSelf c)) && (false || rpass p0))
                        (map (fun p0 => {| rid := p0; rpass := true; rgroups := [] |}) l)) = l).
  { induction l as [|x l IH]; intro H; simpl; [reflexivity|].
    destruct (N.eqb x (cSelf c)) eqn:E; [apply N.eqb_eq in E; exfalso; apply (H x (or_introl eq_refl)); exact E|].
    simpl. f_equal. apply IH. intros y Hy. apply H. right. exact Hy. }
  apply F. intros x Hx Ex. apply firstn_In_local in Hx. apply sort_dist_In in Hx. apply Hknows in Hx. subst x. contradiction.
Qed.

Lemma honest_closed : closed_env c env seeds U.
Proof.
  split; [apply Hseeds|]. intros q closer p E Hp. unfold env, honest_env in E. inversion E; subst closer.
  fold key in Hp. rewrite honest_process in Hp. apply firstn_In_local in Hp. apply sort_dist_In in Hp. apply Hknows in Hp. exact Hp.
Qed.

Lemma honest_no_failure l : Forall (ev_ok c env seeds) l -> resp_failed l = [].
Proof.
  induction l as [|e l IH]; intro F; [reflexivity|]. inversion F as [|? ? He F']; subst.
  change (resp_failed (e :: l)) with ((match e with EvResp _ _ _ u => u | _ => [] end) ++ resp_failed l).
  rewrite (IH F'), app_nil_r. destruct e as [? ?|cause h q u|?]; try reflexivity.
  simpl in He. destruct He as [(_ & _ & _ & ->)|[(_ & _ & -> & _)|(_ & _ & _ & _ & Hf)]]; try reflexivity.
  exfalso. apply (Hf (honest_answer (cK c) (cKey c) (knows cause))). reflexivity.
Qed.

(* a queried peer's answer was heard in full *)
Lemma queried_answer_heard l p : Forall (ev_ok c env seeds) l -> In p (resp_queried l) ->
  forall z, In z (firstn (cK c) (sort_dist key (knows p))) -> In z (resp_heard l).
Proof.
  induction l as [|e l IH]; intros F H z Hz; [destruct H|]. inversion F as [|? ? He F']; subst.
  change (resp_queried (e :: l)) with ((match e with EvResp _ _ q _ => q | _ => [] end) ++ resp_queried l) in H.
  change (resp_heard (e :: l)) with ((match e with EvResp _ h _ _ => h | _ => [] end) ++ resp_heard l).
  apply in_app_iff in H. apply in_app_iff. destruct H as [H|H]; [|right; eapply IH; eauto].
  left. destruct e as [? ?|cause h q u|?]; try (destruct H; fail). simpl in He.
  destruct He as [(_ & _ & Eq & _)|[(_ & Eq & _ & closer & E & Eh)|(_ & Eq & _)]]; subst q.
  - destruct H.
  - destruct H as [<-|[]]. subst h. unfold env, honest_env in E. inversion E; subst closer. fold key. rewrite honest_process. exact Hz.
  - destruct H.
Qed.

Theorem nearest_first evs s : kbucket_complete ->
  run_search c env seeds evs = RDone s -> has_cancel evs = false ->
  exists m rest, r_peers (construct_result c s) = m :: rest /\ forall x, In x U -> x = m \/ lt_dist key m x.
Proof.
  intros KB H NC.
  pose proof (run_search_inv c env seeds evs) as I. rewrite H in I. destruct I as [I T].
  pose proof (honest_no_failure _ (iv_evok _ _ _ _ I)) as NF.
  set (L := closest_in_states key live (ps s)).
  assert (NDL: NoDup L) by (apply closest_in_states_nodup; apply (iv_nodup _ _ _ _ I)).
  assert (SL: StronglySorted (lt_dist key) L) by (apply closest_in_states_sorted; apply (iv_nodup _ _ _ _ I)).
  assert (InL: forall p, In p L <-> In p (resp_heard (evlog s)) /\ p <> self).
  { intro p. unfold L, key. rewrite (result_members c env seeds s p I). rewrite NF. fold self. simpl. tauto. }
  (* L is not empty: a seed was learned *)
  pose proof Hseeds as [SN SU].
  assert (ES0: exists s0, In s0 seeds) by (destruct seeds as [|s0 ?]; [congruence|exists s0; left; reflexivity]).
  destruct ES0 as [s0 Hs0].
  assert (S0: In s0 L).
  { apply InL. split.
    - destruct (iv_seed _ _ _ _ I) as [rest ->]. cbn [resp_heard flat_map]. apply in_app_iff. left. exact Hs0.
    - intro E. apply Hself. rewrite <- E. apply SU. exact Hs0. }
  destruct L as [|p0 Lrest] eqn:EL; [destruct S0|].
  assert (P0L: In p0 (closest_in_states key live (ps s))) by (fold L; rewrite EL; left; reflexivity).
  exists p0, (firstn (cK c - 1) Lrest). split.
  { unfold construct_result. cbn [r_peers]. fold key. fold L. rewrite EL. destruct (cK c) as [|k] eqn:EK; [lia|]. simpl. rewrite Nat.sub_0_r. reflexivity. }
  (* p0 answered *)
  assert (P0Q: state_of (ps s) p0 = Some Queried).
  { destruct (end_condition c env seeds evs s H NC Hstop) as [E|E].
    - apply E. fold key. fold L. rewrite EL. destruct (cBeta c); [lia|]. left. reflexivity.
    - apply closest_in_states_In in P0L; [|apply (iv_nodup _ _ _ _ I)]. destruct P0L as [st [Hs Hl]].
      destruct (E p0 st Hs) as [->| ->]; [exact Hs|discriminate]. }
  assert (P0U: In p0 U).
  { apply (ids_in_universe c env seeds U s honest_closed I). eapply state_of_Some_In; eauto. }
  intros x Hx. destruct (N.eq_dec x p0) as [->|Ne]; [left; reflexivity|right].
  unfold lt_dist. destruct (N.lt_ge_cases (dist key p0) (dist key x)) as [Hlt|Hge]; [exact Hlt|exfalso].
  assert (Hxp: dist key x < dist key p0).
  { destruct (N.eq_dec (dist key x) (dist key p0)) as [E|E]; [apply dist_inj in E; contradiction|lia]. }
  (* p0 knows a member y of x's bucket, which is nearer to the key than p0 *)
  destruct (KB p0 x P0U Hx Ne) as [B1 B2].
  assert (XB: In x (bucket_of U p0 x)).
  { unfold bucket_of. apply filter_In. split; [exact Hx|]. rewrite N.eqb_refl, andb_true_r.
    apply negb_true_iff. apply N.eqb_neq. exact Ne. }
  assert (EY: exists y, In y (knows p0) /\ In y (bucket_of U p0 x)).
  { destruct (le_lt_dec (length (bucket_of U p0 x)) (cK c)) as [Hle|Hgt].
    - exists x. split; [apply (B1 Hle); exact XB|exact XB].
    - destruct (B2 Hgt) as (ys & _ & Hlen & Hi1 & Hi2). destruct ys as [|y ys]; [simpl in Hlen; lia|].
      exists y. split; [apply Hi2|apply Hi1]; left; reflexivity. }
  destruct EY as (y & Yk & Yb). unfold bucket_of in Yb. apply filter_In in Yb. destruct Yb as [_ Yb].
  apply andb_true_iff in Yb. destruct Yb as [Y1 Y2]. apply negb_true_iff, N.eqb_neq in Y1. apply N.eqb_eq in Y2.
  assert (Yn: dist key y < dist key p0).
  { unfold dist in *. apply (bucket_members_nearer key p0 x y); assumption. }
  (* the nearest peer p0 knows was in its answer, hence learned, hence in L *)
  destruct (sort_dist key (knows p0)) as [|z zrest] eqn:SD.
  { apply (sort_dist_In key) in Yk. rewrite SD in Yk. destruct Yk. }
  assert (Zn: dist key z <= dist key y) by (eapply sort_dist_hd; eauto).
  assert (Zh: In z (resp_heard (evlog s))).
  { apply (queried_answer_heard _ p0 (iv_evok _ _ _ _ I)).
    - apply (iv_queried _ _ _ _ I). exact P0Q.
    - rewrite SD. destruct (cK c); [lia|]. left. reflexivity. }
  assert (Zs: z <> self).
  { intro E. apply Hself. rewrite <- E. apply Hknows with (p := p0). apply (sort_dist_In key). rewrite SD. left. reflexivity. }
  assert (ZL: In z (p0 :: Lrest)) by (apply InL; auto).
  destruct ZL as [E|ZL]; [subst z; lia|].
  inversion SL as [|? ? _ Hall]; subst. rewrite Forall_forall in Hall. specialize (Hall z ZL). unfold lt_dist in Hall. lia.
Qed.

(* ---- every peer knows the whole network: exactly the K globally nearest ------------------------- *)
Hypothesis Hfull : forall p x, In p U -> In x U -> In x (knows p).
Hypothesis Hknd : forall p, NoDup (knows p).

Lemma full_knowledge_complete : kbucket_complete.
Proof.
  intros p x Hp Hx Ne B. split.
  - intros _ y Hy. unfold B, bucket_of in Hy. apply filter_In in Hy. apply Hfull; tauto.
  - intro Hlt. exists (firstn (cK c) B). split; [|split; [|split]].
    + apply NoDup_firstn. unfold B, bucket_of. apply NoDup_filter_local. exact HU.
    + apply firstn_length_le. lia.
    + intros y Hy. eapply firstn_In_local; eauto.
    + intros y Hy. apply firstn_In_local in Hy. unfold B, bucket_of in Hy. apply filter_In in Hy. apply Hfull; tauto.
Qed.

Theorem exact_global_topK evs s :
  run_search c env seeds evs = RDone s -> has_cancel evs = false ->
  let R := r_peers (construct_result c s) in
  forall x, In x U -> ~ In x R -> length R = cK c /\ forall m, In m R -> lt_dist key m x.
Proof.
  intros H NC R x Hx HxR.
  pose proof (run_search_inv c env seeds evs) as I. rewrite H in I. destruct I as [I T].
  pose proof (honest_no_failure _ (iv_evok _ _ _ _ I)) as NF.
  destruct (result_spec c env seeds s I) as (RL & RND & _ & _ & _ & _ & Exact). cbv zeta in Exact. fold R in RL, RND, Exact.
  assert (Xs: x <> self) by (intro E; subst x; contradiction).
  destruct (in_dec N.eq_dec x (resp_heard (evlog s))) as [Hl|Hnl].
  { apply Exact; auto. rewrite NF. intros []. }
  destruct (nearest_first evs s full_knowledge_complete H NC) as (m0 & rest & ER & Hm0). fold R in ER.
  assert (M0Q: state_of (ps s) m0 = Some Queried).
  { destruct (end_condition c env seeds evs s H NC Hstop) as [E|E].
    - apply E. unfold R, construct_result in ER. cbn [r_peers] in ER.
      destruct (closest_in_states (cKey c) live (ps s)) as [|a l]; [destruct (cK c); discriminate|].
      destruct (cK c) as [|k]; [lia|]. simpl in ER. inversion ER; subst a. destruct (cBeta c); [lia|]. left. reflexivity.
    - assert (In m0 R) by (rewrite ER; left; reflexivity). unfold R, construct_result in H0. cbn [r_peers] in H0.
      apply firstn_In_local in H0. apply closest_in_states_In in H0; [|apply (iv_nodup _ _ _ _ I)].
      destruct H0 as [st [Hs Hlv]]. destruct (E m0 st Hs) as [->| ->]; [exact Hs|discriminate]. }
  assert (M0U: In m0 U).
  { apply (ids_in_universe c env seeds U s honest_closed I). eapply state_of_Some_In; eauto. }
  set (SD := sort_dist key (knows m0)).
  set (A := firstn (cK c) SD).
  assert (SS: StronglySorted (lt_dist key) SD) by (apply sort_dist_strict; apply Hknd).
  assert (AH: forall a, In a A -> In a (resp_heard (evlog s))).
  { intros a Ha. apply (queried_answer_heard _ m0 (iv_evok _ _ _ _ I)); [apply (iv_queried _ _ _ _ I); exact M0Q|exact Ha]. }
  assert (XS: In x (skipn (cK c) SD)).
  { assert (In x SD) by (apply sort_dist_In; apply Hfull; assumption).
    rewrite <- (firstn_skipn (cK c) SD) in H0. apply in_app_iff in H0. destruct H0 as [H0|H0]; [|exact H0].
    exfalso. apply Hnl. apply AH. exact H0. }
  assert (AL: length A = cK c).
  { apply firstn_length_le. destruct (le_lt_dec (cK c) (length SD)) as [Hle|Hlt]; [exact Hle|].
    rewrite skipn_all2 in XS by lia. destruct XS. }
  assert (AX: forall a, In a A -> lt_dist key a x) by (intros a Ha; eapply firstn_skipn_sorted; eauto).
  assert (AND: NoDup A).
  { apply NoDup_firstn. eapply Permutation_NoDup; [symmetry; apply sort_dist_perm|apply Hknd]. }
  assert (As: forall a, In a A -> a <> self).
  { intros a Ha E. apply Hself. rewrite <- E. apply (Hknows m0). apply (sort_dist_In key). eapply firstn_In_local; eauto. }
  (* a member of A outside R forces everything in R to be nearer than it *)
  assert (Out: forall a, In a A -> ~ In a R -> length R = cK c /\ forall m, In m R -> lt_dist key m a).
  { intros a Ha Hn. apply Exact; auto. rewrite NF. intros []. }
  assert (Mlt: forall m, In m R -> lt_dist key m x).
  { intros m Hm. unfold lt_dist. destruct (N.lt_ge_cases (dist key m) (dist key x)) as [L|G]; [exact L|exfalso].
    assert (Gs: dist key x < dist key m).
    { destruct (N.eq_dec (dist key x) (dist key m)) as [E|E]; [apply dist_inj in E; subst; contradiction|lia]. }
    assert (AR: incl A R).
    { intros a Ha. destruct (in_dec N.eq_dec a R) as [Y|Nn]; [exact Y|exfalso].
      destruct (Out a Ha Nn) as [_ Hall]. specialize (Hall m Hm). specialize (AX a Ha). unfold lt_dist in *. lia. }
    assert (MA: ~ In m A) by (intro Y; specialize (AX m Y); unfold lt_dist in AX; lia).
    assert (LE: (length (m :: A) <= length R)%nat).
    { apply NoDup_incl_length; [constructor; assumption|]. intros y [<-|Hy]; [exact Hm|apply AR; exact Hy]. }
    simpl in LE. unfold id in *. lia. }
  split; [|exact Mlt].
  destruct (Forall_Exists_dec (fun a => In a R) (fun a => in_dec N.eq_dec a R) A) as [All|Ex].
  - rewrite Forall_forall in All. assert ((length A <= length R)%nat) by (apply NoDup_incl_length; assumption). unfold id in *. lia.
  - apply Exists_exists in Ex. destruct Ex as [a [Ha Hn]]. apply (Out a Ha Hn).
Qed.
End Honest.

(* ---- cancellation (C03) ---------------------------------------------------------------------- *)
Lemma after_select_terminated c s cause s' : term s <> None -> after_select c s cause = Ok s' -> s' = s.
Proof.
  intros T H. unfold after_select in H.
  assert (TT: forall r, terminate s r = s) by (intro r; unfold terminate; destruct (term s); [reflexivity|congruence]).
  destruct (stop_fn _ _); [rewrite TT in H; inversion H; reflexivity|].
  destruct (starvation _); [rewrite TT in H; inversion H; reflexivity|].
  destruct (lookup_termination _ _); [rewrite TT in H; inversion H; reflexivity|].
  destruct (closest_n_in_states _ _ _ _); cbn [bind] in H; try discriminate.
  destruct (term s); [inversion H; reflexivity|congruence].
Qed.

Theorem cancel_prompt c env s s' : step c env s Cancel = Some (Ok s') ->
  term s' = Some Cancelled /\ reqs s' = reqs s /\ ps s' = ps s.
Proof.
  intro H. unfold step in H. destruct (term s) eqn:T; [discriminate|]. inversion H as [H1]; clear H.
  assert (TC: term (terminate s Cancelled) = Some Cancelled) by (unfold terminate; rewrite T; reflexivity).
  apply after_select_terminated in H1; [|rewrite TC; discriminate]. subst s'.
  split; [exact TC|]. unfold terminate. rewrite T. split; reflexivity.
Qed.
