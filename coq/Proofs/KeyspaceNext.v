(* NextNonEmptyLeaf is the cyclic successor in the order-sorted list of entries (C18). *)
From Verif.Lib Require Import GoSem Bits.
From Verif.Model Require Import Trie Keyspace.
From Verif.Proofs Require Import KeyspaceBase KeyspaceProofs.
From Coq Require Import Permutation Sorted.

(* boolean form of [ord_before] *)
Fixpoint beforeb (order a b : bits) : bool :=
  match a, b, order with
  | x :: a', y :: b', o :: order' => if Bool.eqb x y then beforeb order' a' b' else Bool.eqb x o
  | _, _, _ => false
  end.

Lemma beforeb_spec order : forall a b, beforeb order a b = true <-> ord_before order a b.
Proof.
  induction order as [|o order IH]; intros a b.
  - split.
    + destruct a, b; simpl; discriminate.
    + intros [i [x [_ [_ [_ H]]]]]. destruct i; discriminate.
  - destruct a as [|x a]; [split; [discriminate|intros [i [y [_ [H _]]]]; destruct i; discriminate]|].
    destruct b as [|y b]; [split; [discriminate|intros [i [z [_ [_ [H _]]]]]; destruct i; discriminate]|].
    simpl. destruct (Bool.eqb x y) eqn:E1.
    + apply eqb_prop in E1. subst y. rewrite IH. split.
      * intros [i [z [F [A [B C]]]]]. exists (S i), z. simpl. rewrite F. auto.
      * intros [i [z [F [A [B C]]]]]. destruct i as [|i].
        -- simpl in A, B. inversion A; inversion B; subst. destruct z; discriminate.
        -- exists i, z. simpl in *. inversion F. auto.
    + split.
      * intro E2. apply eqb_prop in E2. subst o. exists 0, x. simpl. repeat split; auto.
        destruct x, y; simpl in *; try discriminate; reflexivity.
      * intros [i [z [F [A [B C]]]]]. destruct i as [|i].
        -- simpl in A, C. inversion A; inversion C; subst. apply eqb_reflx.
        -- simpl in F. inversion F. subst. rewrite eqb_reflx in E1. discriminate.
Qed.

Lemma beforeb_irrefl order a : beforeb order a a = false.
Proof.
  revert a; induction order as [|o order IH]; intros [|x a]; simpl; try reflexivity.
  rewrite eqb_reflx. apply IH.
Qed.

(* entries under the other child: after k iff k's child comes first in the order *)
Lemma beforeb_other p : forall k y order kb ob,
  is_prefix (p ++ [kb]) k = true -> is_prefix (p ++ [negb kb]) y = true ->
  nth_error order (length p) = Some ob -> beforeb order k y = Bool.eqb kb ob.
Proof.
  induction p as [|x p IH]; intros [|k0 k] [|y0 y] [|o order] kb ob Hk Hy Ho; simpl in *; try discriminate.
  - inversion Ho; subst. destruct kb, k0, y0, ob; simpl in *; try discriminate; reflexivity.
  - apply andb_true_iff in Hk as [E1 Hk]. apply andb_true_iff in Hy as [E2 Hy].
    apply eqb_prop in E1. apply eqb_prop in E2. subst. rewrite eqb_reflx. eapply IH; eauto.
Qed.

Lemma beforeb_cpl order : forall a b,
  cpl a b < length a -> cpl a b < length b -> cpl a b < length order ->
  exists x o, nth_error a (cpl a b) = Some x /\ nth_error order (cpl a b) = Some o /\
              beforeb order a b = Bool.eqb x o.
Proof.
  induction order as [|o order IH]; intros [|x a] [|y b] Ha Hb Ho; simpl in *; try lia.
  destruct (Bool.eqb x y) eqn:E1.
  - simpl. apply IH; lia.
  - exists x, o. auto.
Qed.

Lemma find_app {A} (f : A -> bool) l1 l2 :
  find f (l1 ++ l2) = match find f l1 with Some x => Some x | None => find f l2 end.
Proof. induction l1 as [|a l1 IH]; simpl; [reflexivity|]. destruct (f a); auto. Qed.

Lemma find_all_true {A} (f : A -> bool) l : (forall x, In x l -> f x = true) -> find f l = hd_error l.
Proof. destruct l as [|a l]; simpl; intro H; [reflexivity|]. rewrite (H a (or_introl eq_refl)). reflexivity. Qed.

Lemma find_all_false {A} (f : A -> bool) l : (forall x, In x l -> f x = false) -> find f l = None.
Proof.
  induction l as [|a l IH]; simpl; intro H; [reflexivity|]. rewrite (H a (or_introl eq_refl)).
  apply IH. intros. apply H. right. assumption.
Qed.

Section Next.
Context {D : Type}.
Notation ent := (bits * D)%type.

(* the downward phase returns the first entry in the order *)
Lemma next_down_spec (s : trie D) : forall order depth,
  height s + depth <= length order ->
  exists l, iter_at s order depth = Ok l /\ next_down s order depth = Ok (hd_error l).
Proof.
  induction s as [|k d|s0 IH0 s1 IH1]; intros order depth Hh.
  - exists []. auto.
  - exists [(k, d)]. auto.
  - cbn [iter_at next_down]. simpl in Hh.
    destruct (bit_at_lt order depth) as [ob [Hb _]]; [lia|]. rewrite Hb. cbn [bind].
    destruct (IH0 order (S depth)) as [l0 [E0 N0]]; [lia|].
    destruct (IH1 order (S depth)) as [l1 [E1 N1]]; [lia|].
    destruct ob; simpl child; rewrite ?E0, ?E1, ?N0, ?N1; cbn [bind]; rewrite ?E0, ?E1, ?N0, ?N1; cbn [bind].
    + exists (l1 ++ l0). split; [reflexivity|]. destruct l1; simpl in *; rewrite ?N0; reflexivity.
    + exists (l0 ++ l1). split; [reflexivity|]. destruct l0; simpl in *; rewrite ?N1; reflexivity.
Qed.

Variable k order : bits.
Definition after (e : ent) : bool := beforeb order k (fst e).

(* k is one of the keys or is comparable with none *)
Definition locatable (s : trie D) : Prop :=
  forall y, In y (keys_of s) -> y = k \/ comparable y k = false.

Lemma cpl_method_nonempty (a b : bits) : a <> [] -> b <> [] -> cpl_method a b = cpl a b.
Proof.
  intros Ha Hb. unfold cpl_method. destruct a; [congruence|]. destruct b; [congruence|].
  simpl length. rewrite !andb_false_r. simpl. reflexivity.
Qed.

Lemma leaf_after k' (d : D) depth :
  depth <> 0 -> k <> [] -> k' <> [] -> length k <= length order ->
  (k' = k \/ comparable k' k = false) ->
  next_at (L k' d) k order depth = Ok (if after (k', d) then Some (k', d) else None).
Proof.
  intros Hd Hk Hk' Hl Hc. cbn [next_at]. destruct (Nat.eqb depth 0) eqn:E0; [apply Nat.eqb_eq in E0; lia|].
  rewrite (cpl_method_nonempty k k' Hk Hk'). unfold after. simpl fst.
  destruct Hc as [->|Hc].
  - replace (cpl k k) with (length k) by (symmetry; apply cpl_is_prefix; apply is_prefix_refl).
    rewrite Nat.ltb_irrefl. simpl. rewrite beforeb_irrefl. reflexivity.
  - unfold comparable in Hc. apply orb_false_iff in Hc as [C1 C2].
    assert (L1 : cpl k k' < length k).
    { pose proof (cpl_le_l k k'). destruct (Nat.eq_dec (cpl k k') (length k)) as [X|]; [|lia].
      apply cpl_is_prefix in X. congruence. }
    assert (L2 : cpl k k' < length k').
    { rewrite cpl_comm. pose proof (cpl_le_l k' k). destruct (Nat.eq_dec (cpl k' k) (length k')) as [X|]; [|lia].
      apply cpl_is_prefix in X. congruence. }
    destruct (beforeb_cpl order k k' L1 L2 ltac:(lia)) as [x [o [Nx [No Eb]]]].
    assert (L1' : cpl k k' <? length k = true) by (apply Nat.ltb_lt; lia).
    assert (L3 : cpl k k' <? length order = true) by (apply Nat.ltb_lt; lia).
    rewrite L1', L3. simpl. unfold bit_at. rewrite No, Nx. simpl. rewrite Eb.
    destruct x, o; reflexivity.
Qed.

Lemma Nd_keys_longer' p (a b : trie D) y : wf_at p (Nd a b) -> In y (keys_of (Nd a b)) -> length p < length y.
Proof.
  intros [Wa [Wb _]] Hy. rewrite keys_of_Nd in Hy. apply in_app_or in Hy as [Hy|Hy];
    [pose proof (wf_at_keys_prefix _ _ _ Wa Hy) as P|pose proof (wf_at_keys_prefix _ _ _ Wb Hy) as P];
    apply is_prefix_length in P; rewrite app_length in P; simpl in P; lia.
Qed.

(* k reaches below an inner node on its path *)
Lemma locatable_longer p (a b : trie D) :
  wf_at p (Nd a b) -> is_prefix p k = true -> locatable (Nd a b) -> length p < length k.
Proof.
  intros Hw Hp Hloc. pose proof (is_prefix_length _ _ Hp) as Hl.
  destruct (Nat.eq_dec (length p) (length k)) as [El|]; [|lia]. exfalso.
  pose proof (is_prefix_same_length _ _ Hp El) as ->.
  assert (exists y, In y (keys_of (Nd a b))) as [y Hy].
  { destruct (keys_of (Nd a b)) as [|y l] eqn:E1; [|exists y; left; reflexivity].
    exfalso. pose proof (size_keys (Nd a b)) as S. rewrite E1 in S. destruct Hw as [_ [_ P]]. simpl in *. lia. }
  pose proof (Nd_keys_longer' k a b y Hw Hy) as Ly.
  pose proof (wf_at_keys_prefix _ _ _ Hw Hy) as Py.
  destruct (Hloc y Hy) as [->|C]; [lia|].
  unfold comparable in C. rewrite Py in C. rewrite orb_true_r in C. discriminate.
Qed.

Lemma locatable_child (a b : trie D) c : locatable (Nd a b) -> locatable (child a b c).
Proof.
  intros H y Hy. apply H. rewrite keys_of_Nd. apply in_or_app. destruct c; simpl in Hy; auto.
Qed.

(* below the root: the first entry after k in the subtrie, if any *)
Lemma next_at_spec (s : trie D) : forall p,
  wf_at p s -> is_prefix p k = true -> 1 <= length p ->
  height s + length p <= length order -> length k <= length order -> locatable s ->
  exists l, iter_at s order (length p) = Ok l /\
            next_at s k order (length p) = Ok (find after l).
Proof.
  induction s as [|k' d|s0 IH0 s1 IH1]; intros p Hw Hp H1 Hh Hlk Hloc.
  - exists []. auto.
  - exists [(k', d)]. split; [reflexivity|].
    simpl in Hw.
    assert (Nk : k <> []) by (intro X; rewrite X in Hp; apply is_prefix_length in Hp; simpl in Hp; lia).
    assert (Nk' : k' <> []) by (intro X; rewrite X in Hw; apply is_prefix_length in Hw; simpl in Hw; lia).
    rewrite leaf_after.
    + cbn [find]. reflexivity.
    + lia.
    + exact Nk.
    + exact Nk'.
    + exact Hlk.
    + apply Hloc. left. reflexivity.
  - pose proof (locatable_longer p s0 s1 Hw Hp Hloc) as Lk. simpl in Hh.
    destruct (bit_at_lt k (length p) Lk) as [kb [Hkb Nkb]].
    destruct (bit_at_lt order (length p)) as [ob [Hob Nob]]; [lia|].
    cbn [iter_at next_at]. rewrite Hkb, Hob. cbn [bind].
    assert (Hp' : is_prefix (p ++ [kb]) k = true) by (apply is_prefix_snoc; auto).
    assert (Hlen : forall c, S (length p) = length (p ++ [c])) by (intro; rewrite app_length; simpl; lia).
    (* k's own branch, by induction *)
    assert (Own : exists l, iter_at (child s0 s1 kb) order (S (length p)) = Ok l /\
                            next_at (child s0 s1 kb) k order (S (length p)) = Ok (find after l) /\
                            Permutation l (entries (child s0 s1 kb))).
    { rewrite (Hlen kb). pose proof (wf_at_child p s0 s1 kb Hw) as Wc.
      pose proof (locatable_child s0 s1 kb Hloc) as Lc. pose proof (height_child s0 s1 kb) as Hc.
      assert (X : exists l, iter_at (child s0 s1 kb) order (length (p ++ [kb])) = Ok l /\
                  next_at (child s0 s1 kb) k order (length (p ++ [kb])) = Ok (find after l)).
      { destruct kb; simpl child in *; [apply IH1|apply IH0]; auto; rewrite app_length; simpl in *; lia. }
      destruct X as [l [A B]]. exists l. split; [exact A|]. split; [exact B|].
      destruct (iter_at_spec (child s0 s1 kb) (p ++ [kb]) order Wc) as [l' [A' [P' _]]].
      { rewrite app_length; simpl in *. lia. }
      rewrite A in A'. inversion A'. subst. exact P'. }
    destruct Own as [lk [Ek [Nk Pk]]].
    (* the other branch: its first entry *)
    destruct (next_down_spec (child s0 s1 (negb kb)) order (S (length p))) as [lo [Eo No]].
    { pose proof (height_child s0 s1 (negb kb)). simpl in *. lia. }
    assert (Po : Permutation lo (entries (child s0 s1 (negb kb)))).
    { pose proof (wf_at_child p s0 s1 (negb kb) Hw) as Wc.
      destruct (iter_at_spec (child s0 s1 (negb kb)) (p ++ [negb kb]) order Wc) as [l' [A' [P' _]]].
      { rewrite app_length. pose proof (height_child s0 s1 (negb kb)). simpl in *. lia. }
      rewrite <- (Hlen (negb kb)) in A'. rewrite Eo in A'. inversion A'. subst. exact P'. }
    assert (AfterO : forall e, In e lo -> after e = Bool.eqb kb ob).
    { intros e He. unfold after. apply (beforeb_other p k (fst e) order kb ob Hp'); [|exact Nob].
      apply (wf_at_entries_prefix _ _ _ (wf_at_child p s0 s1 (negb kb) Hw)).
      eapply Permutation_in; eauto. }
    rewrite Nk. cbn [bind].
    destruct (Bool.eqb kb ob) eqn:Eko.
    + (* k's branch comes first *)
      apply eqb_prop in Eko. subst ob. rewrite Ek. cbn [bind].
      replace (child s0 s1 (negb kb)) with (child s0 s1 (negb kb)) by reflexivity. rewrite Eo. cbn [bind].
      exists (lk ++ lo). split; [reflexivity|]. rewrite find_app.
      destruct (find after lk) as [e|] eqn:Ef; [reflexivity|].
      rewrite orb_true_l. rewrite No. cbn [bind].
      rewrite (find_all_true after lo) by (intros; apply AfterO; assumption).
      destruct lo as [|e0 lo']; [|reflexivity]. cbn [hd_error].
      destruct (Nat.eqb (length p) 0) eqn:E0; [apply Nat.eqb_eq in E0; lia|reflexivity].
    + (* k's branch comes last *)
      assert (ob = negb kb) by (destruct kb, ob; simpl in *; congruence). subst ob.
      rewrite Eo. cbn [bind]. rewrite negb_involutive. rewrite Ek. cbn [bind].
      exists (lo ++ lk). split; [reflexivity|]. rewrite find_app.
      rewrite (find_all_false after lo) by (intros; apply AfterO; assumption).
      destruct (find after lk) as [e|] eqn:Ef; [reflexivity|].
      destruct (Nat.eqb (length p) 0) eqn:E0; [apply Nat.eqb_eq in E0; lia|]. simpl. reflexivity.
Qed.

(* NextNonEmptyLeaf: for a key k that is in the trie or comparable with none of its keys, and an
   order at least as long as the trie is deep and as k: no panic; the result is the first entry
   after k in the order-sorted list of entries, or, when there is none, the first entry of the
   list (cyclic successor); nothing for the empty trie *)
Theorem next_leaf_cyclic_successor (t : trie D) :
  wf t -> height t <= length order -> length k <= length order -> locatable t ->
  exists l, all_entries t order = Ok l /\
            next_non_empty_leaf t k order =
            Ok (match find after l with Some e => Some e | None => hd_error l end).
Proof.
  intros Hw Hh Hlk Hloc. unfold next_non_empty_leaf, all_entries.
  destruct t as [|k' d|s0 s1].
  - exists []. auto.
  - exists [(k', d)]. split; [reflexivity|]. simpl. destruct (after (k', d)); reflexivity.
  - pose proof (locatable_longer [] s0 s1 Hw eq_refl Hloc) as Lk. simpl length in Lk.
    assert (Hh' : S (Nat.max (height s0) (height s1)) <= length order) by exact Hh.
    destruct (bit_at_lt k 0 Lk) as [kb [Hkb Nkb]].
    destruct (bit_at_lt order 0) as [ob [Hob Nob]]; [lia|].
    cbn [iter_at next_at]. rewrite Hkb, Hob. cbn [bind].
    assert (Hp' : is_prefix ([] ++ [kb]) k = true) by (apply is_prefix_snoc; auto).
    pose proof (wf_at_child [] s0 s1 kb Hw) as Wk. pose proof (wf_at_child [] s0 s1 (negb kb) Hw) as Wo.
    pose proof (height_child s0 s1 kb) as Hck. pose proof (height_child s0 s1 (negb kb)) as Hco.
    cbn [height] in Hck, Hco. cbn [app] in Wk, Wo, Hp'.
    destruct (next_at_spec (child s0 s1 kb) [kb]) as [lk [Ek Nk]]; auto.
    { cbn [length]. lia. }
    { apply (locatable_child s0 s1 kb). exact Hloc. }
    cbn [length] in Ek, Nk.
    destruct (next_down_spec (child s0 s1 (negb kb)) order 1) as [lo [Eo No]]; [lia|].
    destruct (next_down_spec (child s0 s1 kb) order 1) as [lk' [Ek' Nk']]; [lia|].
    rewrite Ek in Ek'. inversion Ek'. subst lk'.
    assert (Po : forall e, In e lo -> is_prefix [negb kb] (fst e) = true).
    { intros e He. destruct (iter_at_spec (child s0 s1 (negb kb)) [negb kb] order Wo) as [l' [A' [P' _]]]; [cbn [length]; lia|].
      cbn [length] in A'. rewrite Eo in A'. inversion A'. subst.
      apply (wf_at_entries_prefix _ _ _ Wo). eapply Permutation_in; eauto. }
    assert (AfterO : forall e, In e lo -> after e = Bool.eqb kb ob).
    { intros e He. unfold after. apply (beforeb_other [] k (fst e) order kb ob); [exact Hp'| |exact Nob].
      apply Po. exact He. }
    rewrite Nk. cbn [bind]. rewrite Nat.eqb_refl, orb_true_r.
    destruct (Bool.eqb kb ob) eqn:Eko.
    + apply eqb_prop in Eko. subst ob. rewrite Ek. cbn [bind]. rewrite Eo. cbn [bind].
      exists (lk ++ lo). split; [reflexivity|]. rewrite find_app.
      destruct (find after lk) as [e|] eqn:Ef; [reflexivity|]. rewrite No. cbn [bind].
      rewrite (find_all_true after lo) by (intros; apply AfterO; assumption).
      destruct lo as [|e0 lo']; [|reflexivity]. cbn [hd_error]. rewrite app_nil_r. exact Nk'.
    + assert (ob = negb kb) by (destruct kb, ob; simpl in *; congruence). subst ob.
      rewrite Eo. cbn [bind]. rewrite negb_involutive. rewrite Ek. cbn [bind].
      exists (lo ++ lk). split; [reflexivity|]. rewrite find_app.
      rewrite (find_all_false after lo) by (intros; apply AfterO; assumption).
      destruct (find after lk) as [e|] eqn:Ef; [reflexivity|]. rewrite No. cbn [bind].
      destruct lo as [|e0 lo']; [|reflexivity]. cbn [hd_error app]. exact Nk'.
Qed.

End Next.
