From Verif.Lib Require Import GoSem.
From Verif.Model Require Import Lookup PutFlow.
Local Open Scope N_scope.

Lemma memN_In x l : memN x l = true <-> In x l.
Proof.
  unfold memN. rewrite existsb_exists. split.
  - intros [y [Hy E]]. apply N.eqb_eq in E. subst. exact Hy.
  - intro H. exists x. split; [exact H|apply N.eqb_refl].
Qed.

(* PutValue: nothing leaves before the local write; on success the recipients are the lookup's peers *)
Lemma put_value_spec i :
  let o := put_value i in
  (po_sends o <> [] -> po_local_written o = true) /\
  (po_err o = None -> exists peers, pi_lookup i = Some peers /\ po_sends o = peers /\ po_local_written o = true /\
                                  pi_valid i = true /\ pi_local_write_ok i = true) /\
  (pi_local_write_ok i = false -> po_sends o = []) /\
  (pi_valid i = false -> po_sends o = [] /\ po_local_written o = false).
Proof.
  unfold put_value. destruct (pi_valid i), (pi_local_read_ok i), (pi_old_differs i), (pi_select i) as [[|n]|],
    (pi_local_write_ok i), (pi_lookup i) as [ps|]; simpl; repeat split; intros; try congruence; eauto 8.
Qed.

Lemma put_value_refused i :
  pi_valid i = true -> pi_local_read_ok i = true -> pi_old_differs i = true -> pi_select i <> Some 0%nat ->
  po_err (put_value i) = Some ENotBetter /\ po_local_written (put_value i) = false /\ po_sends (put_value i) = [].
Proof.
  intros V R D S. unfold put_value. rewrite V, R, D. simpl. destruct (pi_select i) as [[|n]|]; try congruence; simpl; auto.
Qed.

(* deadline budget *)
Lemma provide_budget_spec t :
  (t < 0 -> provide_budget t = None)%Z /\
  (0 <= t < 10000000000 -> provide_budget t = Some (t - Z.quot t 10))%Z /\
  (10000000000 <= t -> provide_budget t = Some (t - 1000000000))%Z.
Proof.
  unfold provide_budget. repeat split; intro H.
  - destruct (Z.ltb_spec t 0); [reflexivity|lia].
  - destruct (Z.ltb_spec t 0); [lia|]. destruct (Z.ltb_spec t (10 * 1000000000)); [reflexivity|lia].
  - destruct (Z.ltb_spec t 0); [lia|]. destruct (Z.ltb_spec t (10 * 1000000000)); [lia|reflexivity].
Qed.

Lemma provide_budget_positive t b : provide_budget t = Some b -> (0 <= b <= t)%Z.
Proof.
  unfold provide_budget. destruct (Z.ltb_spec t 0); [discriminate|].
  destruct (Z.ltb_spec t (10 * 1000000000)); intro E; inversion E; subst.
  - assert (0 <= Z.quot t 10 <= t)%Z; [|lia]. split; [apply Z.quot_pos; lia|].
    apply Z.quot_le_upper_bound; lia.
  - lia.
Qed.

From Coq Require Import Permutation.
Lemma NoDup_app_local {A} (l : list A) x : NoDup l -> ~ In x l -> NoDup (l ++ [x]).
Proof.
  intros H1 H2. apply (Permutation_NoDup (l := x :: l)); [apply Permutation_cons_append|constructor; assumption].
Qed.

(* scheduling: each peer at most once, everything of the result scheduled *)
Lemma schedule_new_spec cands : forall sch, NoDup sch ->
  NoDup (schedule_new sch cands) /\
  (forall p, In p (schedule_new sch cands) <-> In p sch \/ In p cands) /\
  (exists l, schedule_new sch cands = sch ++ l).
Proof.
  unfold schedule_new. induction cands as [|c cands IH]; intros sch ND; simpl.
  - split; [exact ND|]. split; [intro p; tauto|exists []; rewrite app_nil_r; reflexivity].
  - destruct (memN c sch) eqn:E.
    + apply memN_In in E. destruct (IH sch ND) as (A & B & [l C]). split; [exact A|]. split; [|exists l; exact C].
      intro p. rewrite B. intuition (subst; auto).
    + assert (ND': NoDup (sch ++ [c])).
      { apply NoDup_app_local; [exact ND|]. intro X. apply memN_In in X. congruence. }
      destruct (IH (sch ++ [c]) ND') as (A & B & [l C]). split; [exact A|]. split.
      * intro p. rewrite B, in_app_iff. simpl. intuition.
      * exists ([c] ++ l). etransitivity; [exact C|]. rewrite <- app_assoc. reflexivity.
Qed.

Lemma opt_provide_spec early result :
  NoDup (opt_provide early result) /\ (forall p, In p result -> In p (opt_provide early result)).
Proof.
  unfold opt_provide.
  assert (E: NoDup (fold_left schedule_new early [])).
  { generalize (NoDup_nil id). generalize (@nil id). induction early as [|e early IH]; intros sch ND; simpl; [exact ND|].
    apply IH. apply schedule_new_spec. exact ND. }
  destruct (schedule_new_spec result _ E) as (A & B & _). split; [exact A|]. intros p Hp. apply B. auto.
Qed.

Lemma corrective_puts_spec result pwb p : pwb <> [] ->
  (In p (corrective_puts result pwb) <-> In p result /\ ~ In p pwb).
Proof.
  intro NE. unfold corrective_puts. destruct pwb as [|b0 pwb0]; [congruence|]. remember (b0 :: pwb0) as pwb.
  rewrite filter_In, negb_true_iff. split; intros [H1 H2]; split; auto.
  - intro X. apply memN_In in X. congruence.
  - destruct (memN p pwb) eqn:E; [apply memN_In in E; contradiction|reflexivity].
Qed.

Lemma corrective_puts_none result : corrective_puts result [] = [].
Proof. reflexivity. Qed.
