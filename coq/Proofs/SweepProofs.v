(* Lemmas about Model/Sweep.v.
   PART A: soundness of the trace acceptor:  accepts p tr = true -> Level0 p tr.
   PART B: the pure pipeline pieces. *)
From Coq Require Import Lia ZifyBool ZifyNat ZifyN.
From Verif.Lib Require Import GoSem Bits.
From Verif.Model Require Import Buffered Sweep.
From Verif.Proofs Require Import BufferedProofs.
Local Open Scope N_scope.

(* ---- small facts ---------------------------------------------------------------------------- *)
Lemma memN_In x l : memN x l = true <-> In x l.
Proof.
  unfold memN. rewrite existsb_exists. split.
  - intros [y [Hy E]]. apply N.eqb_eq in E. subst. exact Hy.
  - intro H. exists x. split; [exact H|apply N.eqb_refl].
Qed.

Lemma forallb_false_ex {A} (f : A -> bool) l : forallb f l = false -> exists x, In x l /\ f x = false.
Proof.
  induction l as [|x l IH]; simpl; [discriminate|].
  destruct (f x) eqn:E; simpl.
  - intro H. destruct (IH H) as [y [Hy Fy]]. exists y. auto.
  - intros _. exists x. auto.
Qed.

Lemma existsb_false_all {A} (f : A -> bool) l : existsb f l = false -> forall x, In x l -> f x = false.
Proof.
  induction l as [|y l IH]; simpl; intros H x Hx; [contradiction|].
  apply orb_false_iff in H as [H1 H2]. destruct Hx as [->|Hx]; auto.
Qed.

Lemma dedupN_In x l : In x (dedupN l) <-> In x l.
Proof.
  induction l as [|y l IH]; simpl; [tauto|].
  destruct (memN y l) eqn:M.
  - rewrite IH. split; [auto|]. intros [->|H]; [apply memN_In; exact M|exact H].
  - simpl. rewrite IH. tauto.
Qed.

Lemma dedupN_NoDup l : NoDup (dedupN l).
Proof.
  induction l as [|y l IH]; simpl; [constructor|].
  destruct (memN y l) eqn:M; [exact IH|].
  constructor; [|exact IH]. rewrite dedupN_In. intro H. apply memN_In in H. congruence.
Qed.

(* ---- clause 1 --------------------------------------------------------------------------------- *)
Lemma chk_near_sound p : forall tr s,
  chk_near p s tr = true ->
  forall pre t k qs a post, tr = pre ++ ESent t k qs a :: post ->
    a = true /\ forall q, In q qs -> nearestb (p_K p) k (w_swarm (fold_left apply_ev pre s)) q = true.
Proof.
  induction tr as [|e tr IH]; intros s H pre t k qs a post E.
  - destruct pre; discriminate.
  - simpl in H. apply andb_true_iff in H as [H1 H2].
    destruct pre as [|e' pre]; simpl in E; inversion E; subst.
    + simpl. apply andb_true_iff in H1 as [Ha Hq]. split; [exact Ha|].
      intros q Hq'. rewrite forallb_forall in Hq. apply Hq; exact Hq'.
    + simpl. eapply IH; [exact H2|reflexivity].
Qed.

(* ---- the state only depends on the control events ---------------------------------------------- *)
Lemma fold_ctl l : forall s, fold_left apply_ev l s = fold_left apply_ev (filter is_ctl l) s.
Proof.
  induction l as [|e l IH]; intro s; simpl; [reflexivity|].
  destruct e; simpl; apply IH.
Qed.

Lemma filter_comm {A} (f g : A -> bool) l : filter f (filter g l) = filter g (filter f l).
Proof.
  induction l as [|x l IH]; simpl; [reflexivity|].
  destruct (f x) eqn:F, (g x) eqn:G; simpl; rewrite ?F, ?G, IH; reflexivity.
Qed.

Lemma st_at_ctl tr t : st_at tr t = st_at (filter is_ctl tr) t.
Proof. unfold st_at, st_of. rewrite fold_ctl, filter_comm. reflexivity. Qed.

Lemma st_at_stable tr t1 t2 :
  t1 <= t2 -> (forall e, In e tr -> ~ (t1 < time e /\ time e <= t2)) -> st_at tr t1 = st_at tr t2.
Proof.
  intros Hle H. unfold st_at. f_equal. apply filter_ext_in. intros e He. unfold upto.
  specialize (H e He). lia.
Qed.

Lemma st_at_step tr t :
  existsb (fun e => time e =? t + 1) tr = false -> st_at tr t = st_at tr (t + 1).
Proof.
  intro H. apply st_at_stable; [lia|]. intros e He [H1 H2].
  pose proof (existsb_false_all _ _ H e He) as F. simpl in F. lia.
Qed.

Lemma all_in_range_sound ctl f lo hi :
  all_in_range ctl f lo hi = true -> forall t', lo <= t' -> t' <= hi -> f (st_at ctl t') = true.
Proof.
  unfold all_in_range. intro H. apply andb_true_iff in H as [H0 H1].
  rewrite forallb_forall in H1.
  assert (A : forall n : nat, lo + N.of_nat n <= hi -> f (st_at ctl (lo + N.of_nat n)) = true).
  { induction n as [|n IH]; intro Hn.
    - replace (lo + N.of_nat 0) with lo by lia. exact H0.
    - replace (lo + N.of_nat (S n)) with (lo + N.of_nat n + 1) in * by lia.
      destruct (existsb (fun e => time e =? lo + N.of_nat n + 1) ctl) eqn:Ex.
      + apply existsb_exists in Ex as [e [He Te]]. apply N.eqb_eq in Te.
        specialize (H1 e He). rewrite Te in H1.
        replace ((lo <? lo + N.of_nat n + 1) && (lo + N.of_nat n + 1 <=? hi)) with true in H1 by lia.
        exact H1.
      + rewrite <- (st_at_step _ _ Ex). apply IH. lia. }
  intros t' Hlo Hhi. specialize (A (N.to_nat (t' - lo))).
  replace (lo + N.of_nat (N.to_nat (t' - lo))) with t' in A by lia. apply A. exact Hhi.
Qed.

Lemma all_in_range_complete ctl f lo hi :
  (forall t', lo <= t' -> t' <= hi -> f (st_at ctl t') = true) -> lo <= hi ->
  all_in_range ctl f lo hi = true.
Proof.
  intros H Hle. unfold all_in_range. apply andb_true_iff. split.
  - apply H; lia.
  - apply forallb_forall. intros e He.
    destruct ((lo <? time e) && (time e <=? hi)) eqn:R; [|reflexivity]. apply H; lia.
Qed.

(* ---- complete advertisements --------------------------------------------------------------------- *)
Lemma sends_of_In k tr t qs : In (t, qs) (sends_of k tr) -> In (ESent t k qs true) tr.
Proof.
  induction tr as [|e tr IH]; simpl; [tauto|].
  destruct e as [| | | | |t0 k0 qs0 a0|]; try (intro H; right; apply IH; exact H).
  destruct a0; [|intro H; right; apply IH; exact H].
  destruct (N.eqb k k0) eqn:E; [|intro H; right; apply IH; exact H].
  apply N.eqb_eq in E. subst. intros [H|H]; [left; inversion H; reflexivity|right; apply IH; exact H].
Qed.

Lemma recipients_In sends a b q :
  In q (recipients sends a b) -> exists t qs, In (t, qs) sends /\ In q qs /\ a <= t /\ t <= b.
Proof.
  unfold recipients. rewrite in_flat_map. intros [[t qs] [Hs Hq]]. simpl in Hq.
  destruct ((a <=? t) && (t <=? b)) eqn:R; [|contradiction].
  exists t, qs. repeat split; try assumption; lia.
Qed.

Lemma filter_length_incl (f : N -> bool) R S :
  NoDup R -> incl R S -> (length (filter f R) <= length (filter f S))%nat.
Proof.
  intros ND Hi. apply NoDup_incl_length.
  - apply NoDup_filter. exact ND.
  - intros x Hx. apply filter_In in Hx as [Hx Fx]. apply filter_In. split; [apply Hi; exact Hx|exact Fx].
Qed.

Lemma covers_sound r k S R q :
  covers r k S R = true -> nearestb r k S q = true -> In q R.
Proof.
  unfold covers, nearestb. intros Hc Hn.
  apply andb_true_iff in Hn as [Hm Hr]. apply memN_In in Hm.
  rewrite forallb_forall in Hc. specialize (Hc q Hm).
  apply orb_true_iff in Hc as [Hc|Hc]; [apply memN_In; exact Hc|exfalso].
  apply Nat.leb_le in Hc. apply Nat.ltb_lt in Hr. unfold rank in Hr.
  assert (Hle : (length (filter (fun x => closer k x q) (dedupN (filter (fun x => memN x S) R)))
                 <= length (filter (fun x => closer k x q) S))%nat).
  { apply filter_length_incl; [apply dedupN_NoDup|].
    intros x Hx. apply (proj1 (dedupN_In _ _)) in Hx. apply filter_In in Hx as [_ Hx]. apply memN_In; exact Hx. }
  lia.
Qed.

Lemma window_end_bounds sends a w : a <= window_end sends a w /\ window_end sends a w <= a + w.
Proof.
  unfold window_end.
  assert (G : forall l m, a <= m -> m <= a + w ->
     a <= fold_left (fun m (s : N * list N) => if (a <=? fst s) && (fst s <=? a + w) then N.max m (fst s) else m) l m /\
     fold_left (fun m (s : N * list N) => if (a <=? fst s) && (fst s <=? a + w) then N.max m (fst s) else m) l m <= a + w).
  { induction l as [|x l IH]; intros m H1 H2; simpl; [split; assumption|].
    destruct ((a <=? fst x) && (fst x <=? a + w)) eqn:R; apply IH; lia. }
  apply G; lia.
Qed.

Lemma complete_b_sound p tr k a :
  complete_b p (filter is_ctl tr) (sends_of k tr) k a = true ->
  complete_adv p tr k a (window_end (sends_of k tr) a (p_W p)).
Proof.
  unfold complete_b. intro H. apply andb_true_iff in H as [Hs Hc].
  destruct (window_end_bounds (sends_of k tr) a (p_W p)) as [B1 B2].
  unfold complete_adv. split; [exact B1|]. split; [exact B2|]. split.
  - intros t l Hin [H1 H2]. unfold no_swarm_change in Hs. rewrite forallb_forall in Hs.
    assert (Hc' : In (ESwarm t l) (filter is_ctl tr)) by (apply filter_In; split; [exact Hin|reflexivity]).
    specialize (Hs _ Hc'). simpl in Hs. lia.
  - intros q Hq. rewrite st_at_ctl in Hq.
    pose proof (covers_sound _ _ _ _ _ Hc Hq) as Hr.
    destruct (recipients_In _ _ _ _ Hr) as [t [qs [Hin [Hqs [H1 H2]]]]].
    exists t, qs. split; [apply sends_of_In; exact Hin|]. auto.
Qed.

Lemma ads_of_complete p tr k ab :
  In ab (ads_of p (filter is_ctl tr) (sends_of k tr) k) -> complete_adv p tr k (fst ab) (snd ab).
Proof.
  unfold ads_of. intro H. apply in_map_iff in H as [a [<- H]]. simpl.
  apply filter_In in H as [_ H]. apply complete_b_sound. exact H.
Qed.

Lemma restarts_of_In ctl rho : In rho (restarts_of ctl) -> In (ERestart rho) ctl.
Proof.
  unfold restarts_of. rewrite in_flat_map. intros [e [He Hr]].
  destruct e; simpl in Hr; try contradiction. destruct Hr as [<-|[]]. exact He.
Qed.

Lemma freshb_sound p tr k t :
  freshb p (ads_of p (filter is_ctl tr) (sends_of k tr) k) (restarts_of (filter is_ctl tr)) t = true ->
  fresh p tr k t.
Proof.
  unfold freshb. intro H. apply orb_true_iff in H as [H|H].
  - apply existsb_exists in H as [ab [Ha Hr]].
    left. exists (fst ab), (snd ab). split; [apply ads_of_complete; exact Ha|]. lia.
  - apply existsb_exists in H as [rho [Hrho Hr]].
    apply andb_true_iff in Hr as [Hr Hx]. apply existsb_exists in Hx as [ab [Ha Hx]].
    right. exists rho, (fst ab), (snd ab).
    apply restarts_of_In in Hrho. apply filter_In in Hrho as [Hrho _].
    split; [exact Hrho|]. split; [lia|]. split; [lia|].
    split; [apply ads_of_complete; exact Ha|]. lia.
Qed.

(* ---- clause 2: it is enough to look at the critical times ------------------------------------- *)
Lemma hypb_step p ctl k t :
  p_G p <= t -> hypb p ctl k t = false -> hypb p ctl k (t + 1) = true ->
  exists e, In e ctl /\ time e + p_G p = t + 1.
Proof.
  unfold hypb. intros HG Hf Ht.
  pose proof (all_in_range_sound _ _ _ _ Ht) as Hall.
  unfold all_in_range in Hf. apply andb_false_iff in Hf as [Hf|Hf].
  - (* the state at t-G is bad, the state at t+1-G is good: an event at t+1-G *)
    destruct (existsb (fun e => time e =? (t - p_G p) + 1) ctl) eqn:Ex.
    + apply existsb_exists in Ex as [e [He Te]]. apply N.eqb_eq in Te. exists e. split; [exact He|lia].
    + rewrite (st_at_step _ _ Ex) in Hf.
      rewrite Hall in Hf by lia. discriminate.
  - apply forallb_false_ex in Hf as [e [He Fe]].
    destruct ((t - p_G p <? time e) && (time e <=? t)) eqn:R; [|discriminate].
    rewrite Hall in Fe by lia. discriminate.
Qed.

Lemma freshb_step p ads rs t :
  freshb p ads rs t = true -> freshb p ads rs (t + 1) = false ->
  exists a, In a (map fst ads ++ rs) /\ t + 1 = a + p_D p + 1.
Proof.
  unfold freshb. intros H1 H2. apply orb_false_iff in H2 as [H2 H3].
  apply orb_true_iff in H1 as [H1|H1].
  - apply existsb_exists in H1 as [ab [Ha Hr]].
    pose proof (existsb_false_all _ _ H2 ab Ha) as F. simpl in F.
    exists (fst ab). split; [apply in_or_app; left; apply in_map; exact Ha|lia].
  - apply existsb_exists in H1 as [rho [Hrho Hr]].
    pose proof (existsb_false_all _ _ H3 rho Hrho) as F. simpl in F.
    apply andb_true_iff in Hr as [Hr Hx]. rewrite Hx in F. rewrite andb_true_r in F.
    exists rho. split; [apply in_or_app; right; exact Hrho|lia].
Qed.

Lemma chk_fresh_key_all p ctl ads k :
  forallb (fun c => implb ((p_G p <=? c) && (c <=? p_end p) && hypb p ctl k c) (freshb p ads (restarts_of ctl) c))
          (crit p ctl ads) = true ->
  forall t, p_G p <= t -> t <= p_end p -> hypb p ctl k t = true -> freshb p ads (restarts_of ctl) t = true.
Proof.
  intro Hc. rewrite forallb_forall in Hc.
  assert (Crit : forall c, In c (crit p ctl ads) -> p_G p <= c -> c <= p_end p ->
                           hypb p ctl k c = true -> freshb p ads (restarts_of ctl) c = true).
  { intros c Hin H1 H2 H3. specialize (Hc c Hin).
    replace ((p_G p <=? c) && (c <=? p_end p)) with true in Hc by lia. rewrite H3 in Hc. exact Hc. }
  intro t. induction t as [|t IH] using N.peano_ind; intros HG He Hh.
  - apply Crit; try assumption. unfold crit. left. lia.
  - rewrite <- N.add_1_r in *.
    destruct (N.eq_dec (t + 1) (p_G p)) as [E|NE].
    + apply Crit; try assumption. unfold crit. left. auto.
    + assert (HG' : p_G p <= t) by lia. assert (He' : t <= p_end p) by lia.
      destruct (hypb p ctl k t) eqn:Ht.
      * specialize (IH HG' He' eq_refl).
        destruct (freshb p ads (restarts_of ctl) (t + 1)) eqn:F; [reflexivity|].
        destruct (freshb_step _ _ _ _ IH F) as [a [Ha Ea]].
        rewrite <- F. apply Crit; try assumption.
        unfold crit. right. apply in_or_app. left. apply in_map_iff. exists a. split; [lia|exact Ha].
      * destruct (hypb_step _ _ _ _ HG' Ht Hh) as [e [Hin Te]].
        apply Crit; try assumption.
        unfold crit. right. apply in_or_app. right. apply in_map_iff. exists e. split; [lia|exact Hin].
Qed.

(* a kept key was given to StartProviding *)
Lemma kept_started k : forall l s,
  memN k (w_kept (fold_left apply_ev l s)) = true ->
  memN k (w_kept s) = true \/ exists t ks, In (EStart t ks) l /\ In k ks.
Proof.
  induction l as [|e l IH]; intros s H; simpl in *; [left; exact H|].
  destruct (IH _ H) as [H1|[t [ks [H1 H2]]]].
  - destruct e; simpl in H1; try (left; exact H1).
    + destruct (w_up s); [|left; exact H1]. simpl in H1.
      rewrite memN_unionN in H1. apply orb_true_iff in H1 as [H1|H1]; [left; exact H1|].
      right. exists t, ks. split; [left; reflexivity|apply memN_In; exact H1].
    + rewrite memN_minusN in H1. apply andb_true_iff in H1 as [H1 _]. left; exact H1.
  - right. exists t, ks. auto.
Qed.

Lemma started_keys_In k tr t ks : In (EStart t ks) tr -> In k ks -> In k (started_keys tr).
Proof.
  intros H1 H2. unfold started_keys. apply dedupN_In. apply in_flat_map.
  exists (EStart t ks). split; [exact H1|exact H2].
Qed.

Lemma chk_fresh_sound p tr :
  chk_fresh p (filter is_ctl tr) tr = true ->
  forall k t, p_G p <= t -> t <= p_end p ->
    (forall t', t - p_G p <= t' -> t' <= t -> okb k (st_at tr t') = true) ->
    fresh p tr k t.
Proof.
  intros Hc k t HG He Hw.
  apply freshb_sound.
  unfold chk_fresh in Hc. rewrite forallb_forall in Hc.
  assert (Hk : In k (started_keys tr)).
  { assert (H := Hw t). specialize (H ltac:(lia) ltac:(lia)).
    unfold okb in H. apply andb_true_iff in H as [_ H].
    unfold st_at, st_of in H. apply kept_started in H as [H|[t0 [ks [H1 H2]]]]; [discriminate|].
    apply filter_In in H1 as [H1 _]. eapply started_keys_In; eauto. }
  specialize (Hc k Hk). unfold chk_fresh_key in Hc.
  eapply chk_fresh_key_all; try eassumption.
  unfold hypb. apply all_in_range_complete; [|lia].
  intros t' H1 H2. rewrite <- st_at_ctl. apply Hw; assumption.
Qed.

(* ---- clause 3 ---------------------------------------------------------------------------------------- *)
Lemma lookup_removeK k k' m : lookupN k (removeK k' m) = if N.eqb k k' then None else lookupN k m.
Proof.
  induction m as [|[a v] m IH]; simpl.
  - destruct (N.eqb k k'); reflexivity.
  - destruct (N.eqb a k') eqn:E1; simpl.
    + apply N.eqb_eq in E1. subst. rewrite IH. destruct (N.eqb k k') eqn:E2; [reflexivity|]. reflexivity.
    + destruct (N.eqb k a) eqn:E2.
      * apply N.eqb_eq in E2. subst. rewrite E1. reflexivity.
      * exact IH.
Qed.

Lemma lookup_note_stop k t m x :
  lookupN k (note_stop t m x) =
  if N.eqb k x then Some (match lookupN x m with Some ts => N.min ts t | None => t end)
  else lookupN k m.
Proof.
  unfold note_stop. destruct (lookupN x m) eqn:L; simpl.
  - destruct (N.eqb k x) eqn:E; [reflexivity|]. rewrite lookup_removeK, E. reflexivity.
  - destruct (N.eqb k x) eqn:E; reflexivity.
Qed.

(* the entry of k, if any, is at most [b] *)
Definition le_entry (k : N) (m : list (N * N)) (b : N) : Prop :=
  exists ts, lookupN k m = Some ts /\ ts <= b.

Lemma note_stops_keep k t ks : forall m b,
  le_entry k m b -> le_entry k (fold_left (note_stop t) ks m) b.
Proof.
  induction ks as [|x ks IH]; intros m b H; simpl; [exact H|].
  apply IH. destruct H as [ts [L Hle]]. unfold le_entry. rewrite lookup_note_stop.
  destruct (N.eqb k x) eqn:E; [|eauto].
  apply N.eqb_eq in E. subst. rewrite L. eexists. split; [reflexivity|lia].
Qed.

Lemma note_stops_add k t ks : forall m, In k ks -> le_entry k (fold_left (note_stop t) ks m) t.
Proof.
  induction ks as [|x ks IH]; intros m H; simpl; [contradiction|].
  destruct (N.eq_dec x k) as [->|NE].
  - apply note_stops_keep. unfold le_entry. rewrite lookup_note_stop, N.eqb_refl.
    eexists. split; [reflexivity|]. destruct (lookupN k m); lia.
  - destruct H as [H|H]; [contradiction|]. apply IH; exact H.
Qed.

Lemma removes_keep k ks : forall m b,
  memN k ks = false -> le_entry k m b -> le_entry k (fold_left (fun m k => removeK k m) ks m) b.
Proof.
  induction ks as [|x ks IH]; intros m b Hn H; simpl; [exact H|].
  unfold memN in Hn. simpl in Hn. apply orb_false_iff in Hn as [Hx Hn].
  apply IH; [exact Hn|]. destruct H as [ts [L Hle]]. exists ts. split; [|exact Hle].
  rewrite lookup_removeK, Hx. exact L.
Qed.

Lemma stop_step_keep k m b e :
  requests k e = false -> le_entry k m b -> le_entry k (stop_step_ev m e) b.
Proof.
  intros Hr H. destruct e; simpl in *; try exact H.
  - apply removes_keep; assumption.
  - apply removes_keep; assumption.
  - apply note_stops_keep; exact H.
Qed.

Lemma chk_stop_sound p : forall tr m,
  chk_stop p m tr = true ->
  (forall t' k qs a post2, tr = ESent t' k qs a :: post2 ->
     forall ts, lookupN k m = Some ts -> t' <= ts + p_W p) /\
  (forall pre t ks post1 t' k qs a post2,
     tr = pre ++ EStop t ks :: post1 ++ ESent t' k qs a :: post2 -> In k ks ->
     t' <= t + p_W p \/ exists e, In e post1 /\ requests k e = true) /\
  (* a stop noted before [tr] still binds a later send unless k is given again *)
  (forall k b pre t' qs a post2, le_entry k m b ->
     tr = pre ++ ESent t' k qs a :: post2 ->
     t' <= b + p_W p \/ exists e, In e pre /\ requests k e = true).
Proof.
  induction tr as [|e tr IH]; intros m H.
  - repeat split; intros; try (destruct pre; discriminate); discriminate.
  - simpl in H. apply andb_true_iff in H as [H1 H2].
    destruct (IH _ H2) as [IHa [IHb IHc]].
    split; [|split].
    + intros t' k qs a post2 E ts L. inversion E; subst. rewrite L in H1. lia.
    + intros pre t ks post1 t' k qs a post2 E Hk.
      destruct pre as [|e' pre]; simpl in E; inversion E; subst.
      * (* the stop is the head: it is noted now *)
        assert (Hle : le_entry k (stop_step_ev m (EStop t ks)) t) by (simpl; apply note_stops_add; exact Hk).
        eapply IHc; [exact Hle|reflexivity].
      * eapply IHb; [reflexivity|exact Hk].
    + intros k b pre t' qs a post2 Hle E.
      destruct pre as [|e' pre]; simpl in E; inversion E; subst.
      * left. destruct Hle as [ts [L Hts]]. rewrite L in H1. lia.
      * destruct (requests k e') eqn:R.
        -- right. exists e'. split; [left; reflexivity|exact R].
        -- pose proof (stop_step_keep _ _ _ _ R Hle) as Hle'.
           destruct (IHc _ _ _ _ _ _ _ Hle' eq_refl) as [Hd|[x [Hx Rx]]]; [left; exact Hd|].
           right. exists x. split; [right; exact Hx|exact Rx].
Qed.

(* ---- clause 4 ---------------------------------------------------------------------------------------- *)
Lemma chk_once_sound p full : forall tr pre0,
  full = pre0 ++ tr ->
  chk_once p (filter is_ctl full) full tr = true ->
  forall pre t ks post k, tr = pre ++ EOnce t ks :: post -> In k ks ->
    p_G p <= t -> t + p_G p <= p_end p ->
    (forall t', t - p_G p <= t' -> t' <= t + p_G p -> w_up (st_at full t') = true) ->
    (forall t' ks', In (EStop t' ks') post -> In k ks' -> t + p_G p < t') ->
    exists a b, complete_adv p full k a b /\ t <= a /\ b <= t + p_G p.
Proof.
  induction tr as [|e tr IH]; intros pre0 Ef H pre t ks post k E Hk HG He Hup Hst.
  - destruct pre; discriminate.
  - simpl in H. apply andb_true_iff in H as [H1 H2].
    destruct pre as [|e' pre]; simpl in E; inversion E; subst.
    + rewrite forallb_forall in H1. specialize (H1 k Hk). unfold once_ok in H1.
      assert (Hyp : (p_G p <=? t) && (t + p_G p <=? p_end p)
                    && all_in_range (filter is_ctl (pre0 ++ EOnce t ks :: post)) w_up (t - p_G p) (t + p_G p)
                    && negb (stop_before k (t + p_G p) post) = true).
      { apply andb_true_iff. split; [apply andb_true_iff; split; [lia|]|].
        - apply all_in_range_complete; [|lia]. intros t' A B. rewrite <- st_at_ctl. apply Hup; assumption.
        - apply negb_true_iff. unfold stop_before.
          destruct (existsb _ post) eqn:Ex; [|reflexivity]. exfalso.
          apply existsb_exists in Ex as [x [Hx Px]]. destruct x; try discriminate.
          apply andb_true_iff in Px as [P1 P2]. apply memN_In in P1.
          specialize (Hst _ _ Hx P1). lia. }
      rewrite Hyp in H1. simpl in H1.
      apply existsb_exists in H1 as [a [_ Ha]].
      apply andb_true_iff in Ha as [Ha Hc]. apply complete_b_sound in Hc.
      exists a, (window_end (sends_of k (pre0 ++ EOnce t ks :: post)) a (p_W p)). split; [exact Hc|]. lia.
    + eapply (IH (pre0 ++ [e'])); try eassumption.
      * rewrite <- app_assoc. reflexivity.
      * reflexivity.
Qed.

(* ---- the acceptor is sound ---------------------------------------------------------------------------- *)
Theorem accepts_sound : forall p tr, accepts p tr = true -> Level0 p tr.
Proof.
  intros p tr H. unfold accepts, accepts_code in H.
  destruct (chk_near p w0 tr) eqn:H1; simpl in H; [|discriminate].
  destruct (chk_stop p [] tr) eqn:H3; simpl in H; [|discriminate].
  destruct (chk_once p (filter is_ctl tr) tr tr) eqn:H4; simpl in H; [|discriminate].
  destruct (chk_fresh p (filter is_ctl tr) tr) eqn:H2; simpl in H; [|discriminate].
  constructor.
  - intros pre t k qs a post E. exact (chk_near_sound p tr w0 H1 pre t k qs a post E).
  - apply chk_fresh_sound. exact H2.
  - destruct (chk_stop_sound p tr [] H3) as [_ [Hb _]]. exact Hb.
  - intros pre t ks post k E. eapply (chk_once_sound p tr tr []); [reflexivity|exact H4|exact E].
Qed.

(* ======================= PART B ================================================================ *)
From Verif.Model Require Import Trie Keyspace.
From Verif.Proofs Require Import KeyspaceBase KeyspaceProofs KeyspaceTrie.

(* ---- bit strings as numbers ---------------------------------------------------------------------- *)
Definition bv (acc : N) (k : bits) : N :=
  fold_left (fun acc (b : bool) => 2 * acc + (if b then 1 else 0)) k acc.

Lemma bv_cons acc b k : bv acc (b :: k) = bv (2 * acc + (if b then 1 else 0)) k.
Proof. reflexivity. Qed.

Lemma pow2_S n : 2 ^ N.of_nat (S n) = 2 * 2 ^ N.of_nat n.
Proof. replace (N.of_nat (S n)) with (N.succ (N.of_nat n)) by lia. apply N.pow_succ_r'. Qed.

Lemma bv_acc k : forall acc, bv acc k = acc * 2 ^ N.of_nat (length k) + bv 0 k.
Proof.
  induction k as [|b k IH]; intro acc.
  - unfold bv. simpl. lia.
  - rewrite !bv_cons. rewrite (IH (2 * acc + _)), (IH (2 * 0 + _)).
    simpl length. rewrite pow2_S. remember (2 ^ N.of_nat (length k)) as X. remember (bv 0 k) as y.
    destruct b; ring.
Qed.

Lemma bv0_lt k : bv 0 k < 2 ^ N.of_nat (length k).
Proof.
  induction k as [|b k IH].
  - unfold bv. simpl. lia.
  - rewrite bv_cons, bv_acc. simpl length. rewrite pow2_S.
    remember (2 ^ N.of_nat (length k)) as X. remember (bv 0 k) as y. destruct b; lia.
Qed.

Lemma bits_val_lt k : bits_val k < 2 ^ N.of_nat (length k).
Proof. exact (bv0_lt k). Qed.

Lemma bits_val_snoc k b : bits_val (k ++ [b]) = 2 * bits_val k + (if b then 1 else 0).
Proof. unfold bits_val. rewrite fold_left_app. reflexivity. Qed.

Lemma xor_bits_length a : forall b, (length (xor_bits a b) <= length a)%nat.
Proof. induction a as [|x a IH]; intros [|y b]; simpl; try lia. specialize (IH b). lia. Qed.

(* ---- slots: I * v / 2^n --------------------------------------------------------------------------- *)
Definition slot (I : N) (n : nat) (v : N) : N := I * v / 2 ^ N.of_nat n.

Lemma pow2_pos n : 0 < 2 ^ N.of_nat n.
Proof. apply N.neq_0_lt_0. apply N.pow_nonzero. lia. Qed.

Lemma slot_lt I n v : 0 < I -> v < 2 ^ N.of_nat n -> slot I n v < I.
Proof.
  intros HI Hv. unfold slot. pose proof (pow2_pos n) as P.
  apply N.div_lt_upper_bound; [lia|]. rewrite N.mul_comm. apply N.mul_lt_mono_pos_r; assumption.
Qed.

Lemma slot_mono I n v1 v2 : v1 <= v2 -> slot I n v1 <= slot I n v2.
Proof.
  intro H. unfold slot. pose proof (pow2_pos n) as P.
  apply N.div_le_mono; [lia|]. apply N.mul_le_mono_l. exact H.
Qed.

Lemma div_lt_of_gap a b d : 0 < d -> a + d <= b -> a / d < b / d.
Proof.
  intros Hd H.
  assert (E : (a + 1 * d) / d = a / d + 1) by (apply N.div_add; lia).
  assert (L : (a + 1 * d) / d <= b / d) by (apply N.div_le_mono; lia).
  lia.
Qed.

(* distinct values get distinct slots as long as the interval has at least 2^n units *)
Lemma slot_strict I n v1 v2 : 2 ^ N.of_nat n <= I -> v1 < v2 -> slot I n v1 < slot I n v2.
Proof.
  intros HI H. unfold slot. pose proof (pow2_pos n) as P.
  apply div_lt_of_gap; [exact P|].
  replace v2 with (v1 + (v2 - v1)) by lia. rewrite N.mul_add_distr_l.
  assert (I <= I * (v2 - v1)). { replace I with (I * 1) at 1 by lia. apply N.mul_le_mono_l. lia. }
  lia.
Qed.

Lemma div_add_le a b d : 0 < d -> (a + b) / d <= a / d + b / d + 1.
Proof.
  intro Hd.
  pose proof (N.div_mod a d ltac:(lia)) as Ea. pose proof (N.div_mod b d ltac:(lia)) as Eb.
  pose proof (N.mod_lt a d ltac:(lia)) as La. pose proof (N.mod_lt b d ltac:(lia)) as Lb.
  assert (H : (a + b) / d < a / d + b / d + 2).
  { apply N.div_lt_upper_bound; [lia|].
    remember (a / d) as qa. remember (b / d) as qb. remember (a mod d) as ra. remember (b mod d) as rb.
    rewrite !N.mul_add_distr_l. lia. }
  lia.
Qed.

(* a region split in two: the halves keep the parent's slot or move at most half a slot later *)
Lemma slot_child I n v (c : bool) :
  let vc := 2 * v + (if c then 1 else 0) in
  slot I n v <= slot I (S n) vc /\ slot I (S n) vc <= slot I n v + I / 2 ^ N.of_nat (S n) + 1.
Proof.
  intro vc. unfold slot. pose proof (pow2_pos n) as P. pose proof (pow2_pos (S n)) as P'.
  assert (E2 : 2 ^ N.of_nat (S n) = 2 * 2 ^ N.of_nat n) by apply pow2_S.
  assert (Ep : I * (2 * v) / 2 ^ N.of_nat (S n) = I * v / 2 ^ N.of_nat n).
  { rewrite E2. replace (I * (2 * v)) with (2 * (I * v)) by lia. apply N.div_mul_cancel_l; lia. }
  split.
  - rewrite <- Ep. apply N.div_le_mono; [lia|]. apply N.mul_le_mono_l. unfold vc. destruct c; lia.
  - unfold vc. rewrite N.mul_add_distr_l.
    eapply N.le_trans; [apply div_add_le; exact P'|]. rewrite Ep.
    assert (I * (if c then 1 else 0) / 2 ^ N.of_nat (S n) <= I / 2 ^ N.of_nat (S n)).
    { apply N.div_le_mono; [lia|]. destruct c; lia. }
    lia.
Qed.

(* reprovideTimeForPrefix is a slot of the value prefix XOR order *)
Lemma reprovide_time_slot I order x p :
  let q := firstn max_prefix_size (x :: p) in
  reprovide_time I order (x :: p) = slot I (length q) (bits_val (xor_bits q (firstn (length q) order))).
Proof. reflexivity. Qed.

Theorem reprovide_time_range I order p : 0 < I -> reprovide_time I order p < I.
Proof.
  intro HI. destruct p as [|x p]; [simpl; exact HI|].
  rewrite reprovide_time_slot. apply slot_lt; [exact HI|].
  eapply N.lt_le_trans; [apply bits_val_lt|].
  apply N.pow_le_mono_r; [lia|]. pose proof (xor_bits_length (firstn max_prefix_size (x :: p))
    (firstn (length (firstn max_prefix_size (x :: p))) order)). lia.
Qed.

(* the min(..., now + interval + maxDelay) of schedulePrefixNoLock never changes anything *)
Theorem min_rule_never_binds I max_delay now_off order p :
  0 < I -> next_time_just_reprovided I max_delay now_off (reprovide_time I order p) = reprovide_time I order p.
Proof.
  intro HI. unfold next_time_just_reprovided. pose proof (reprovide_time_range I order p HI). lia.
Qed.

(* timeBetween: in [1, I], and it is the time from one offset to the next occurrence of the other *)
Theorem time_between_spec I from to :
  0 < I -> from < I -> to < I ->
  1 <= time_between I from to /\ time_between I from to <= I /\
  (from + time_between I from to) mod I = to.
Proof.
  intros HI Hf Ht. unfold time_between.
  destruct (N.le_gt_cases to from) as [Hle|Hgt].
  - (* next cycle *)
    assert (E : (to + I - 1 - from) mod I = to + I - 1 - from) by (apply N.mod_small; lia).
    rewrite E. split; [lia|]. split; [lia|].
    replace (from + (to + I - 1 - from + 1)) with (to + 1 * I) by lia.
    rewrite N.mod_add by lia. apply N.mod_small. exact Ht.
  - assert (E : (to + I - 1 - from) mod I = to - 1 - from).
    { symmetry. apply (N.mod_unique _ _ 1); lia. }
    rewrite E. split; [lia|]. split; [lia|].
    replace (from + (to - 1 - from + 1)) with to by lia. apply N.mod_small. exact Ht.
Qed.

(* a region reprovided exactly at its offset comes back one full interval later *)
Corollary time_between_same I o : 0 < I -> o < I -> time_between I o o = I.
Proof.
  intros HI Ho. unfold time_between.
  replace (o + I - 1 - o) with (I - 1) by lia. rewrite N.mod_small by lia. lia.
Qed.

(* ---- the schedule trie stays prefix-free: no Panic from Trie.Add -------------------------------------- *)
Lemma wf_compat {D} (t : trie D) : wf t -> compat (keys_of t).
Proof.
  intros Hw a b Ha Hb Hc. unfold keys_of in *.
  apply in_map_iff in Ha as [ea [<- Hea]]. apply in_map_iff in Hb as [eb [<- Heb]].
  unfold comparable in Hc. apply orb_true_iff in Hc as [Hc|Hc].
  - f_equal. eapply wf_prefix_free; eauto.
  - f_equal. symmetry. eapply wf_prefix_free; eauto.
Qed.

Theorem sched_add_wf (t : trie N) p off :
  wf t ->
  exists t', sched_add t p off = Ok t' /\ wf t' /\
    ((exists y, In y (keys_of t) /\ is_prefix y p = true) -> t' = t) /\
    ((forall y, In y (keys_of t) -> is_prefix y p = false) ->
       forall k, In k (keys_of t') <-> k = p \/ (In k (keys_of t) /\ is_prefix p k = false)).
Proof.
  intro Hw. unfold sched_add.
  destruct (find_prefix_exact t p Hw) as [x [b [E [Hb _]]]]. rewrite E. simpl.
  destruct b.
  - exists t. split; [reflexivity|]. split; [exact Hw|]. split; [reflexivity|].
    intro Hn. destruct (proj1 Hb eq_refl) as [y [Hy Py]]. rewrite (Hn y Hy) in Py. discriminate.
  - assert (Hno : forall y, In y (keys_of t) -> is_prefix y p = false).
    { intros y Hy. destruct (is_prefix y p) eqn:P; [|reflexivity].
      assert (false = true) by (apply Hb; exists y; auto). discriminate. }
    destruct (prune_exact t p Hw) as [t1 [E1 [W1 En]]]. rewrite E1. simpl.
    assert (K1 : forall k, In k (keys_of t1) <-> In k (keys_of t) /\ is_prefix p k = false).
    { intro k. unfold keys_of. rewrite En. split.
      - intro H. apply in_map_iff in H as [e [<- He]]. apply filter_In in He as [He Pe].
        split; [apply in_map; exact He|]. apply negb_true_iff in Pe. exact Pe.
      - intros [H Pk]. apply in_map_iff in H as [e [<- He]]. apply in_map. apply filter_In.
        split; [exact He|]. apply negb_true_iff. exact Pk. }
    assert (Cp : compat (p :: keys_of t1)).
    { intros a c Ha Hc Hcmp. destruct Ha as [<-|Ha]; destruct Hc as [<-|Hc]; try reflexivity.
      - exfalso. apply K1 in Hc as [Hc Pc]. unfold comparable in Hcmp.
        apply orb_true_iff in Hcmp as [H|H]; [congruence|]. rewrite (Hno _ Hc) in H. discriminate.
      - exfalso. apply K1 in Ha as [Ha Pa]. unfold comparable in Hcmp.
        apply orb_true_iff in Hcmp as [H|H]; [|congruence]. rewrite (Hno _ Ha) in H. discriminate.
      - apply (wf_compat t1 W1); assumption. }
    destruct (add_one_spec t1 p off W1 Cp) as [t' [E2 [W2 A]]].
    exists t'. rewrite E2. split; [reflexivity|]. split; [exact W2|]. split.
    + intros [y [Hy Py]]. rewrite (Hno y Hy) in Py. discriminate.
    + intros _ k. unfold keys_of at 1. split.
      * intro H. apply in_map_iff in H as [e [<- He]]. apply A in He as [He|[He _]].
        -- right. apply K1. apply in_map. exact He.
        -- left. destruct He as [<-|[]]. reflexivity.
      * intros [->|H].
        -- destruct (in_dec (list_eq_dec Bool.bool_dec) p (keys_of t1)) as [Hin|Hnin].
           ++ exfalso. apply K1 in Hin as [_ Hp]. rewrite is_prefix_refl in Hp. discriminate.
           ++ apply in_map_iff. exists (p, off). split; [reflexivity|]. apply A. right.
              split; [left; reflexivity|]. exact Hnin.
        -- apply K1 in H. apply in_map_iff in H as [e [<- He]]. apply in_map. apply A. left. exact He.
Qed.
