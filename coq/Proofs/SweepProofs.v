(* Lemmas about Model/Sweep.v.
   PART A: soundness of the trace acceptor:  accepts p tr = true -> Level0 p tr.
   PART B: the pure pipeline pieces. *)
From Coq Require Import Lia ZifyBool ZifyNat ZifyN.
From Verif.Lib Require Import GoSem Bits.
From Verif.Model Require Import Buffered Sweep.
From Verif.Proofs Require Import BufferedProofs.
Local Open Scope N_scope.

(* ---- small facts ---------------------------------------------------------------------------- *)
Lemma memN_In x l : memN x l = true <-> In x l.
Proof.
  unfold memN. rewrite existsb_exists. split.
  - intros [y [Hy E]]. apply N.eqb_eq in E. subst. exact Hy.
  - intro H. exists x. split; [exact H|apply N.eqb_refl].
Qed.

Lemma forallb_false_ex {A} (f : A -> bool) l : forallb f l = false -> exists x, In x l /\ f x = false.
Proof.
  induction l as [|x l IH]; simpl; [discriminate|].
  destruct (f x) eqn:E; simpl.
  - intro H. destruct (IH H) as [y [Hy Fy]]. exists y. auto.
  - intros _. exists x. auto.
Qed.

Lemma existsb_false_all {A} (f : A -> bool) l : existsb f l = false -> forall x, In x l -> f x = false.
Proof.
  induction l as [|y l IH]; simpl; intros H x Hx; [contradiction|].
  apply orb_false_iff in H as [H1 H2]. destruct Hx as [->|Hx]; auto.
Qed.

Lemma dedupN_In x l : In x (dedupN l) <-> In x l.
Proof.
  induction l as [|y l IH]; simpl; [tauto|].
  destruct (memN y l) eqn:M.
  - rewrite IH. split; [auto|]. intros [->|H]; [apply memN_In; exact M|exact H].
  - simpl. rewrite IH. tauto.
Qed.

Lemma dedupN_NoDup l : NoDup (dedupN l).
Proof.
  induction l as [|y l IH]; simpl; [constructor|].
  destruct (memN y l) eqn:M; [exact IH|].
  constructor; [|exact IH]. rewrite dedupN_In. intro H. apply memN_In in H. congruence.
Qed.

(* ---- clause 1 --------------------------------------------------------------------------------- *)
Lemma chk_near_sound p : forall tr s,
  chk_near p s tr = true ->
  forall pre t k qs a post, tr = pre ++ ESent t k qs a :: post ->
    a = true /\ forall q, In q qs -> nearestb (p_K p) k (w_swarm (fold_left apply_ev pre s)) q = true.
Proof.
  induction tr as [|e tr IH]; intros s H pre t k qs a post E.
  - destruct pre; discriminate.
  - simpl in H. apply andb_true_iff in H as [H1 H2].
    destruct pre as [|e' pre]; simpl in E; inversion E; subst.
    + simpl. apply andb_true_iff in H1 as [Ha Hq]. split; [exact Ha|].
      intros q Hq'. rewrite forallb_forall in Hq. apply Hq; exact Hq'.
    + simpl. eapply IH; [exact H2|reflexivity].
Qed.

(* ---- the state only depends on the control events ---------------------------------------------- *)
Lemma fold_ctl l : forall s, fold_left apply_ev l s = fold_left apply_ev (filter is_ctl l) s.
Proof.
  induction l as [|e l IH]; intro s; simpl; [reflexivity|].
  destruct e; simpl; apply IH.
Qed.

Lemma filter_comm {A} (f g : A -> bool) l : filter f (filter g l) = filter g (filter f l).
Proof.
  induction l as [|x l IH]; simpl; [reflexivity|].
  destruct (f x) eqn:F, (g x) eqn:G; simpl; rewrite ?F, ?G, IH; reflexivity.
Qed.

Lemma st_at_ctl tr t : st_at tr t = st_at (filter is_ctl tr) t.
Proof. unfold st_at, st_of. rewrite fold_ctl, filter_comm. reflexivity. Qed.

Lemma st_at_stable tr t1 t2 :
  t1 <= t2 -> (forall e, In e tr -> ~ (t1 < time e /\ time e <= t2)) -> st_at tr t1 = st_at tr t2.
Proof.
  intros Hle H. unfold st_at. f_equal. apply filter_ext_in. intros e He. unfold upto.
  specialize (H e He). lia.
Qed.

Lemma st_at_step tr t :
  existsb (fun e => time e =? t + 1) tr = false -> st_at tr t = st_at tr (t + 1).
Proof.
  intro H. apply st_at_stable; [lia|]. intros e He [H1 H2].
  pose proof (existsb_false_all _ _ H e He) as F. simpl in F. lia.
Qed.

Lemma all_in_range_sound ctl f lo hi :
  all_in_range ctl f lo hi = true -> forall t', lo <= t' -> t' <= hi -> f (st_at ctl t') = true.
Proof.
  unfold all_in_range. intro H. apply andb_true_iff in H as [H0 H1].
  rewrite forallb_forall in H1.
  assert (A : forall n : nat, lo + N.of_nat n <= hi -> f (st_at ctl (lo + N.of_nat n)) = true).
  { induction n as [|n IH]; intro Hn.
    - replace (lo + N.of_nat 0) with lo by lia. exact H0.
    - replace (lo + N.of_nat (S n)) with (lo + N.of_nat n + 1) in * by lia.
      destruct (existsb (fun e => time e =? lo + N.of_nat n + 1) ctl) eqn:Ex.
      + apply existsb_exists in Ex as [e [He Te]]. apply N.eqb_eq in Te.
        specialize (H1 e He). rewrite Te in H1.
        replace ((lo <? lo + N.of_nat n + 1) && (lo + N.of_nat n + 1 <=? hi)) with true in H1 by lia.
        exact H1.
      + rewrite <- (st_at_step _ _ Ex). apply IH. lia. }
  intros t' Hlo Hhi. specialize (A (N.to_nat (t' - lo))).
  replace (lo + N.of_nat (N.to_nat (t' - lo))) with t' in A by lia. apply A. exact Hhi.
Qed.

Lemma all_in_range_complete ctl f lo hi :
  (forall t', lo <= t' -> t' <= hi -> f (st_at ctl t') = true) -> lo <= hi ->
  all_in_range ctl f lo hi = true.
Proof.
  intros H Hle. unfold all_in_range. apply andb_true_iff. split.
  - apply H; lia.
  - apply forallb_forall. intros e He.
    destruct ((lo <? time e) && (time e <=? hi)) eqn:R; [|reflexivity]. apply H; lia.
Qed.

(* ---- complete advertisements --------------------------------------------------------------------- *)
Lemma sends_of_In k tr t qs : In (t, qs) (sends_of k tr) -> In (ESent t k qs true) tr.
Proof.
  induction tr as [|e tr IH]; simpl; [tauto|].
  destruct e as [| | | | |t0 k0 qs0 a0|]; try (intro H; right; apply IH; exact H).
  destruct a0; [|intro H; right; apply IH; exact H].
  destruct (N.eqb k k0) eqn:E; [|intro H; right; apply IH; exact H].
  apply N.eqb_eq in E. subst. intros [H|H]; [left; inversion H; reflexivity|right; apply IH; exact H].
Qed.

Lemma recipients_In sends a b q :
  In q (recipients sends a b) -> exists t qs, In (t, qs) sends /\ In q qs /\ a <= t /\ t <= b.
Proof.
  unfold recipients. rewrite in_flat_map. intros [[t qs] [Hs Hq]]. simpl in Hq.
  destruct ((a <=? t) && (t <=? b)) eqn:R; [|contradiction].
  exists t, qs. repeat split; try assumption; lia.
Qed.

Lemma filter_length_incl (f : N -> bool) R S :
  NoDup R -> incl R S -> (length (filter f R) <= length (filter f S))%nat.
Proof.
  intros ND Hi. apply NoDup_incl_length.
  - apply NoDup_filter. exact ND.
  - intros x Hx. apply filter_In in Hx as [Hx Fx]. apply filter_In. split; [apply Hi; exact Hx|exact Fx].
Qed.

Lemma covers_sound r k S R q :
  covers r k S R = true -> nearestb r k S q = true -> In q R.
Proof.
  unfold covers, nearestb. intros Hc Hn.
  apply andb_true_iff in Hn as [Hm Hr]. apply memN_In in Hm.
  rewrite forallb_forall in Hc. specialize (Hc q Hm).
  apply orb_true_iff in Hc as [Hc|Hc]; [apply memN_In; exact Hc|exfalso].
  apply Nat.leb_le in Hc. apply Nat.ltb_lt in Hr. unfold rank in Hr.
  assert (Hle : (length (filter (fun x => closer k x q) (dedupN (filter (fun x => memN x S) R)))
                 <= length (filter (fun x => closer k x q) S))%nat).
  { apply filter_length_incl; [apply dedupN_NoDup|].
    intros x Hx. apply (proj1 (dedupN_In _ _)) in Hx. apply filter_In in Hx as [_ Hx]. apply memN_In; exact Hx. }
  lia.
Qed.

Lemma complete_b_sound p tr k a :
  complete_b p (filter is_ctl tr) (sends_of k tr) k a = true ->
  complete_adv p tr k a (a + p_W p).
Proof.
  unfold complete_b. intro H. apply andb_true_iff in H as [Hs Hc].
  unfold complete_adv. split; [lia|]. split; [lia|]. split.
  - intros t l Hin [H1 H2]. unfold no_swarm_change in Hs. rewrite forallb_forall in Hs.
    assert (Hc' : In (ESwarm t l) (filter is_ctl tr)) by (apply filter_In; split; [exact Hin|reflexivity]).
    specialize (Hs _ Hc'). simpl in Hs. lia.
  - intros q Hq. rewrite st_at_ctl in Hq.
    pose proof (covers_sound _ _ _ _ _ Hc Hq) as Hr.
    destruct (recipients_In _ _ _ _ Hr) as [t [qs [Hin [Hqs [H1 H2]]]]].
    exists t, qs. split; [apply sends_of_In; exact Hin|]. auto.
Qed.

Lemma ads_of_complete p tr k a :
  In a (ads_of p (filter is_ctl tr) (sends_of k tr) k) -> complete_adv p tr k a (a + p_W p).
Proof.
  unfold ads_of. intro H. apply filter_In in H as [_ H]. apply complete_b_sound. exact H.
Qed.

Lemma freshb_sound p tr k t :
  freshb p (ads_of p (filter is_ctl tr) (sends_of k tr) k) t = true -> fresh p tr k t.
Proof.
  unfold freshb. intro H. apply existsb_exists in H as [a [Ha Hr]].
  exists a, (a + p_W p). split; [apply ads_of_complete; exact Ha|]. lia.
Qed.

(* ---- clause 2: it is enough to look at the critical times ------------------------------------- *)
Lemma hypb_step p ctl k t :
  p_G p <= t -> hypb p ctl k t = false -> hypb p ctl k (t + 1) = true ->
  exists e, In e ctl /\ time e + p_G p = t + 1.
Proof.
  unfold hypb. intros HG Hf Ht.
  pose proof (all_in_range_sound _ _ _ _ Ht) as Hall.
  unfold all_in_range in Hf. apply andb_false_iff in Hf as [Hf|Hf].
  - (* the state at t-G is bad, the state at t+1-G is good: an event at t+1-G *)
    destruct (existsb (fun e => time e =? (t - p_G p) + 1) ctl) eqn:Ex.
    + apply existsb_exists in Ex as [e [He Te]]. apply N.eqb_eq in Te. exists e. split; [exact He|lia].
    + rewrite (st_at_step _ _ Ex) in Hf.
      rewrite Hall in Hf by lia. discriminate.
  - apply forallb_false_ex in Hf as [e [He Fe]].
    destruct ((t - p_G p <? time e) && (time e <=? t)) eqn:R; [|discriminate].
    rewrite Hall in Fe by lia. discriminate.
Qed.

Lemma freshb_step p ads t :
  freshb p ads t = true -> freshb p ads (t + 1) = false -> exists a, In a ads /\ t + 1 = a + p_D p + 1.
Proof.
  unfold freshb. intros H1 H2. apply existsb_exists in H1 as [a [Ha Hr]].
  pose proof (existsb_false_all _ _ H2 a Ha) as F. simpl in F.
  exists a. split; [exact Ha|lia].
Qed.

Lemma chk_fresh_key_all p ctl ads k :
  forallb (fun c => implb ((p_G p <=? c) && (c <=? p_end p) && hypb p ctl k c) (freshb p ads c))
          (crit p ctl ads) = true ->
  forall t, p_G p <= t -> t <= p_end p -> hypb p ctl k t = true -> freshb p ads t = true.
Proof.
  intro Hc. rewrite forallb_forall in Hc.
  assert (Crit : forall c, In c (crit p ctl ads) -> p_G p <= c -> c <= p_end p ->
                           hypb p ctl k c = true -> freshb p ads c = true).
  { intros c Hin H1 H2 H3. specialize (Hc c Hin).
    replace ((p_G p <=? c) && (c <=? p_end p)) with true in Hc by lia. rewrite H3 in Hc. exact Hc. }
  intro t. induction t as [|t IH] using N.peano_ind; intros HG He Hh.
  - apply Crit; try assumption. unfold crit. left. lia.
  - rewrite <- N.add_1_r in *.
    destruct (N.eq_dec (t + 1) (p_G p)) as [E|NE].
    + apply Crit; try assumption. unfold crit. left. auto.
    + assert (HG' : p_G p <= t) by lia. assert (He' : t <= p_end p) by lia.
      destruct (hypb p ctl k t) eqn:Ht.
      * specialize (IH HG' He' eq_refl).
        destruct (freshb p ads (t + 1)) eqn:F; [reflexivity|].
        destruct (freshb_step _ _ _ IH F) as [a [Ha Ea]].
        rewrite <- F. apply Crit; try assumption.
        unfold crit. right. apply in_or_app. left. apply in_map_iff. exists a. split; [lia|exact Ha].
      * destruct (hypb_step _ _ _ _ HG' Ht Hh) as [e [Hin Te]].
        apply Crit; try assumption.
        unfold crit. right. apply in_or_app. right. apply in_map_iff. exists e. split; [lia|exact Hin].
Qed.

(* a kept key was given to StartProviding *)
Lemma kept_started k : forall l s,
  memN k (w_kept (fold_left apply_ev l s)) = true ->
  memN k (w_kept s) = true \/ exists t ks, In (EStart t ks) l /\ In k ks.
Proof.
  induction l as [|e l IH]; intros s H; simpl in *; [left; exact H|].
  destruct (IH _ H) as [H1|[t [ks [H1 H2]]]].
  - destruct e; simpl in H1; try (left; exact H1).
    + destruct (w_up s); [|left; exact H1]. simpl in H1.
      rewrite memN_unionN in H1. apply orb_true_iff in H1 as [H1|H1]; [left; exact H1|].
      right. exists t, ks. split; [left; reflexivity|apply memN_In; exact H1].
    + rewrite memN_minusN in H1. apply andb_true_iff in H1 as [H1 _]. left; exact H1.
  - right. exists t, ks. auto.
Qed.

Lemma started_keys_In k tr t ks : In (EStart t ks) tr -> In k ks -> In k (started_keys tr).
Proof.
  intros H1 H2. unfold started_keys. apply dedupN_In. apply in_flat_map.
  exists (EStart t ks). split; [exact H1|exact H2].
Qed.

Lemma chk_fresh_sound p tr :
  chk_fresh p (filter is_ctl tr) tr = true ->
  forall k t, p_G p <= t -> t <= p_end p ->
    (forall t', t - p_G p <= t' -> t' <= t -> okb k (st_at tr t') = true) ->
    fresh p tr k t.
Proof.
  intros Hc k t HG He Hw.
  apply freshb_sound.
  unfold chk_fresh in Hc. rewrite forallb_forall in Hc.
  assert (Hk : In k (started_keys tr)).
  { assert (H := Hw t). specialize (H ltac:(lia) ltac:(lia)).
    unfold okb in H. apply andb_true_iff in H as [_ H].
    unfold st_at, st_of in H. apply kept_started in H as [H|[t0 [ks [H1 H2]]]]; [discriminate|].
    apply filter_In in H1 as [H1 _]. eapply started_keys_In; eauto. }
  specialize (Hc k Hk). unfold chk_fresh_key in Hc.
  eapply chk_fresh_key_all; try eassumption.
  unfold hypb. apply all_in_range_complete; [|lia].
  intros t' H1 H2. rewrite <- st_at_ctl. apply Hw; assumption.
Qed.

(* ---- clause 3 ---------------------------------------------------------------------------------------- *)
Lemma lookup_removeK k k' m : lookupN k (removeK k' m) = if N.eqb k k' then None else lookupN k m.
Proof.
  induction m as [|[a v] m IH]; simpl.
  - destruct (N.eqb k k'); reflexivity.
  - destruct (N.eqb a k') eqn:E1; simpl.
    + apply N.eqb_eq in E1. subst. rewrite IH. destruct (N.eqb k k') eqn:E2; [reflexivity|]. reflexivity.
    + destruct (N.eqb k a) eqn:E2.
      * apply N.eqb_eq in E2. subst. rewrite E1. reflexivity.
      * exact IH.
Qed.

Lemma lookup_note_stop k t m x :
  lookupN k (note_stop t m x) =
  if N.eqb k x then Some (match lookupN x m with Some ts => N.min ts t | None => t end)
  else lookupN k m.
Proof.
  unfold note_stop. destruct (lookupN x m) eqn:L; simpl.
  - destruct (N.eqb k x) eqn:E; [reflexivity|]. rewrite lookup_removeK, E. reflexivity.
  - destruct (N.eqb k x) eqn:E; reflexivity.
Qed.

(* the entry of k, if any, is at most [b] *)
Definition le_entry (k : N) (m : list (N * N)) (b : N) : Prop :=
  exists ts, lookupN k m = Some ts /\ ts <= b.

Lemma note_stops_keep k t ks : forall m b,
  le_entry k m b -> le_entry k (fold_left (note_stop t) ks m) b.
Proof.
  induction ks as [|x ks IH]; intros m b H; simpl; [exact H|].
  apply IH. destruct H as [ts [L Hle]]. unfold le_entry. rewrite lookup_note_stop.
  destruct (N.eqb k x) eqn:E; [|eauto].
  apply N.eqb_eq in E. subst. rewrite L. eexists. split; [reflexivity|lia].
Qed.

Lemma note_stops_add k t ks : forall m, In k ks -> le_entry k (fold_left (note_stop t) ks m) t.
Proof.
  induction ks as [|x ks IH]; intros m H; simpl; [contradiction|].
  destruct (N.eq_dec x k) as [->|NE].
  - apply note_stops_keep. unfold le_entry. rewrite lookup_note_stop, N.eqb_refl.
    eexists. split; [reflexivity|]. destruct (lookupN k m); lia.
  - destruct H as [H|H]; [contradiction|]. apply IH; exact H.
Qed.

Lemma removes_keep k ks : forall m b,
  memN k ks = false -> le_entry k m b -> le_entry k (fold_left (fun m k => removeK k m) ks m) b.
Proof.
  induction ks as [|x ks IH]; intros m b Hn H; simpl; [exact H|].
  unfold memN in Hn. simpl in Hn. apply orb_false_iff in Hn as [Hx Hn].
  apply IH; [exact Hn|]. destruct H as [ts [L Hle]]. exists ts. split; [|exact Hle].
  rewrite lookup_removeK, Hx. exact L.
Qed.

Lemma stop_step_keep k m b e :
  requests k e = false -> le_entry k m b -> le_entry k (stop_step_ev m e) b.
Proof.
  intros Hr H. destruct e; simpl in *; try exact H.
  - apply removes_keep; assumption.
  - apply removes_keep; assumption.
  - apply note_stops_keep; exact H.
Qed.

Lemma chk_stop_sound p : forall tr m,
  chk_stop p m tr = true ->
  (forall t' k qs a post2, tr = ESent t' k qs a :: post2 ->
     forall ts, lookupN k m = Some ts -> t' <= ts + p_W p) /\
  (forall pre t ks post1 t' k qs a post2,
     tr = pre ++ EStop t ks :: post1 ++ ESent t' k qs a :: post2 -> In k ks ->
     t' <= t + p_W p \/ exists e, In e post1 /\ requests k e = true) /\
  (* a stop noted before [tr] still binds a later send unless k is given again *)
  (forall k b pre t' qs a post2, le_entry k m b ->
     tr = pre ++ ESent t' k qs a :: post2 ->
     t' <= b + p_W p \/ exists e, In e pre /\ requests k e = true).
Proof.
  induction tr as [|e tr IH]; intros m H.
  - repeat split; intros; try (destruct pre; discriminate); discriminate.
  - simpl in H. apply andb_true_iff in H as [H1 H2].
    destruct (IH _ H2) as [IHa [IHb IHc]].
    split; [|split].
    + intros t' k qs a post2 E ts L. inversion E; subst. rewrite L in H1. lia.
    + intros pre t ks post1 t' k qs a post2 E Hk.
      destruct pre as [|e' pre]; simpl in E; inversion E; subst.
      * (* the stop is the head: it is noted now *)
        assert (Hle : le_entry k (stop_step_ev m (EStop t ks)) t) by (simpl; apply note_stops_add; exact Hk).
        eapply IHc; [exact Hle|reflexivity].
      * eapply IHb; [reflexivity|exact Hk].
    + intros k b pre t' qs a post2 Hle E.
      destruct pre as [|e' pre]; simpl in E; inversion E; subst.
      * left. destruct Hle as [ts [L Hts]]. rewrite L in H1. lia.
      * destruct (requests k e') eqn:R.
        -- right. exists e'. split; [left; reflexivity|exact R].
        -- pose proof (stop_step_keep _ _ _ _ R Hle) as Hle'.
           destruct (IHc _ _ _ _ _ _ _ Hle' eq_refl) as [Hd|[x [Hx Rx]]]; [left; exact Hd|].
           right. exists x. split; [right; exact Hx|exact Rx].
Qed.

(* ---- clause 4 ---------------------------------------------------------------------------------------- *)
Lemma chk_once_sound p full : forall tr pre0,
  full = pre0 ++ tr ->
  chk_once p (filter is_ctl full) full tr = true ->
  forall pre t ks post k, tr = pre ++ EOnce t ks :: post -> In k ks ->
    p_G p <= t -> t + p_G p <= p_end p ->
    (forall t', t - p_G p <= t' -> t' <= t + p_G p -> w_up (st_at full t') = true) ->
    (forall t' ks', In (EStop t' ks') post -> In k ks' -> t + p_G p < t') ->
    exists a b, complete_adv p full k a b /\ t <= a /\ b <= t + p_G p.
Proof.
  induction tr as [|e tr IH]; intros pre0 Ef H pre t ks post k E Hk HG He Hup Hst.
  - destruct pre; discriminate.
  - simpl in H. apply andb_true_iff in H as [H1 H2].
    destruct pre as [|e' pre]; simpl in E; inversion E; subst.
    + rewrite forallb_forall in H1. specialize (H1 k Hk). unfold once_ok in H1.
      assert (Hyp : (p_G p <=? t) && (t + p_G p <=? p_end p)
                    && all_in_range (filter is_ctl (pre0 ++ EOnce t ks :: post)) w_up (t - p_G p) (t + p_G p)
                    && negb (stop_before k (t + p_G p) post) = true).
      { apply andb_true_iff. split; [apply andb_true_iff; split; [lia|]|].
        - apply all_in_range_complete; [|lia]. intros t' A B. rewrite <- st_at_ctl. apply Hup; assumption.
        - apply negb_true_iff. unfold stop_before.
          destruct (existsb _ post) eqn:Ex; [|reflexivity]. exfalso.
          apply existsb_exists in Ex as [x [Hx Px]]. destruct x; try discriminate.
          apply andb_true_iff in Px as [P1 P2]. apply memN_In in P1.
          specialize (Hst _ _ Hx P1). lia. }
      rewrite Hyp in H1. simpl in H1.
      apply existsb_exists in H1 as [a [_ Ha]].
      apply andb_true_iff in Ha as [Ha Hc]. apply complete_b_sound in Hc.
      exists a, (a + p_W p). split; [exact Hc|]. lia.
    + eapply (IH (pre0 ++ [e'])); try eassumption.
      * rewrite <- app_assoc. reflexivity.
      * reflexivity.
Qed.

(* ---- the acceptor is sound ---------------------------------------------------------------------------- *)
Theorem accepts_sound : forall p tr, accepts p tr = true -> Level0 p tr.
Proof.
  intros p tr H. unfold accepts, accepts_code in H.
  destruct (chk_near p w0 tr) eqn:H1; simpl in H; [|discriminate].
  destruct (chk_stop p [] tr) eqn:H3; simpl in H; [|discriminate].
  destruct (chk_once p (filter is_ctl tr) tr tr) eqn:H4; simpl in H; [|discriminate].
  destruct (chk_fresh p (filter is_ctl tr) tr) eqn:H2; simpl in H; [|discriminate].
  constructor.
  - intros pre t k qs a post E. exact (chk_near_sound p tr w0 H1 pre t k qs a post E).
  - apply chk_fresh_sound. exact H2.
  - destruct (chk_stop_sound p tr [] H3) as [_ [Hb _]]. exact Hb.
  - intros pre t ks post k E. eapply (chk_once_sound p tr tr []); [reflexivity|exact H4|exact E].
Qed.
