(* Lemmas about Model/PrefixQueue.v *)
From Verif.Lib Require Import GoSem Bits.
From Verif.Model Require Import PrefixQueue.
From Coq Require Import Permutation.

Lemma NoDup_snoc {A} (l : list A) p : NoDup l -> ~ In p l -> NoDup (l ++ [p]).
Proof.
  intros H1 H2. apply (Permutation_NoDup (l := p :: l)).
  - apply Permutation_cons_append.
  - constructor; assumption.
Qed.

Lemma NoDup_insert {A} (a b : list A) p : NoDup (a ++ b) -> ~ In p (a ++ b) -> NoDup (a ++ p :: b).
Proof.
  intros H1 H2. apply (Permutation_NoDup (l := p :: a ++ b)).
  - apply Permutation_middle.
  - constructor; assumption.
Qed.

(* ---- basic set lemmas --------------------------------------------------- *)
Lemma mem_In p l : mem p l = true <-> In p l.
Proof.
  unfold mem. rewrite existsb_exists. split.
  - intros [x [Hx E]]. apply bits_eqb_eq in E. subst. exact Hx.
  - intro H. exists p. split; [exact H|apply bits_eqb_refl].
Qed.

Lemma mem_false p l : mem p l = false <-> ~ In p l.
Proof.
  split; intro H.
  - intro Hin. apply mem_In in Hin. congruence.
  - destruct (mem p l) eqn:E; [apply mem_In in E; contradiction|reflexivity].
Qed.

Lemma tr_remove_In x t p : In x (tr_remove t p) <-> In x t /\ x <> p.
Proof.
  unfold tr_remove. rewrite filter_In. split; intros [H1 H2]; split; auto.
  - apply negb_true_iff in H2. apply bits_eqb_neq in H2. exact H2.
  - apply negb_true_iff. apply bits_eqb_neq. exact H2.
Qed.

Lemma tr_add_In x t p : In x (tr_add t p) <-> x = p \/ In x t.
Proof.
  unfold tr_add. destruct (mem p t) eqn:E.
  - apply mem_In in E. split; [auto|]. intros [->|H]; auto.
  - simpl. split; intros [H|H]; auto.
Qed.

Lemma fold_tr_remove_In ps : forall t x,
  In x (fold_left tr_remove ps t) <-> In x t /\ ~ In x ps.
Proof.
  induction ps as [|p ps IH]; intros t x; simpl.
  - tauto.
  - rewrite IH, tr_remove_In. split.
    + intros [[H1 H2] H3]. split; [exact H1|]. intros [E|E]; [congruence|contradiction].
    + intros [H1 H2]. split; [split; [exact H1|]|]; intro E; apply H2; [left; congruence|right; exact E].
Qed.

Lemma superstrings_In x t p : In x (superstrings t p) <-> In x t /\ is_prefix p x = true.
Proof. unfold superstrings. apply filter_In. Qed.

Lemma find_prefix_of_Some t k e :
  find_prefix_of t k = Some e -> In e t /\ is_prefix e k = true.
Proof. unfold find_prefix_of. intro H. apply find_some in H. exact H. Qed.

Lemma find_prefix_of_None t k :
  find_prefix_of t k = None -> forall e, In e t -> is_prefix e k = false.
Proof. unfold find_prefix_of. intros H e He. exact (find_none _ _ H e He). Qed.

(* ---- first_index / insert_at -------------------------------------------- *)
Lemma first_index_None f l :
  first_index f l = None <-> forall x, In x l -> f x = false.
Proof.
  induction l as [|y l IH]; simpl.
  - split; [intros _ x []|reflexivity].
  - destruct (f y) eqn:E.
    + split; [discriminate|]. intro H. rewrite (H y (or_introl eq_refl)) in E. discriminate.
    + destruct (first_index f l) eqn:F.
      * split; [discriminate|]. intro H.
        assert (G: forall x, In x l -> f x = false) by (intros x Hx; apply H; right; exact Hx).
        apply IH in G. discriminate.
      * split; [|reflexivity]. intros _ x [<-|Hx]; [exact E|]. apply (proj1 IH eq_refl). exact Hx.
Qed.

Lemma first_index_Some f l i :
  first_index f l = Some i ->
  exists a x b, l = a ++ x :: b /\ length a = i /\ f x = true /\ (forall y, In y a -> f y = false).
Proof.
  revert i; induction l as [|y l IH]; simpl; intros i H; [discriminate|].
  destruct (f y) eqn:E.
  - inversion H; subst. exists [], y, l. repeat split; auto. intros z [].
  - destruct (first_index f l) as [j|] eqn:F; [|discriminate]. inversion H; subst.
    destruct (IH j eq_refl) as (a & x & b & -> & Hl & Hx & Ha).
    exists (y :: a), x, b. repeat split; simpl; auto.
    intros z [<-|Hz]; auto.
Qed.

Lemma insert_at_app a x b : insert_at (length a) x (a ++ b) = a ++ x :: b.
Proof. induction a as [|y a IH]; simpl; [destruct b; reflexivity|]. rewrite IH. reflexivity. Qed.

Lemma filter_app_false {A} (f : A -> bool) a :
  (forall y, In y a -> f y = true) -> filter f a = a.
Proof.
  induction a as [|y a IH]; simpl; intro H; [reflexivity|].
  rewrite (H y (or_introl eq_refl)). f_equal. apply IH. intros z Hz. apply H. right. exact Hz.
Qed.

(* ---- the invariant -------------------------------------------------------- *)
Definition pfree (l : list bits) : Prop :=
  forall a b, In a l -> In b l -> comparable a b = true -> a = b.

Record Inv_pq (q : pq) : Prop := {
  inv_nodup : NoDup (dq q);
  inv_same : forall p, In p (tr q) <-> In p (dq q);
  inv_pfree : pfree (dq q) }.

Lemma Inv_pq_empty : Inv_pq pq_empty.
Proof. split; simpl; [constructor|tauto|intros a b []]. Qed.

Lemma comparable_sym a b : comparable a b = comparable b a.
Proof. unfold comparable. apply orb_comm. Qed.

Lemma pfree_filter f l : pfree l -> pfree (filter f l).
Proof. intros H a b Ha Hb. apply filter_In in Ha, Hb. apply H; tauto. Qed.

Lemma NoDup_filter {A} (f : A -> bool) l : NoDup l -> NoDup (filter f l).
Proof.
  induction 1 as [|x l Hx _ IH]; simpl; [constructor|].
  destruct (f x); [constructor; [|exact IH]|exact IH].
  intro H. apply filter_In in H. tauto.
Qed.

(* removing a set of prefixes of which at least one is queued *)
Lemma remove_prefixes_spec q ps :
  Inv_pq q -> (exists p, In p ps /\ In p (dq q)) ->
  exists q' i, remove_prefixes_from_queue q ps = Ok (q', i) /\
    dq q' = filter (fun x => negb (mem x ps)) (dq q) /\
    first_index (fun x => mem x ps) (dq q) = Some i /\
    Inv_pq q'.
Proof.
  intros I [p [Hp Hq]]. unfold remove_prefixes_from_queue.
  destruct (first_index (fun x => mem x ps) (dq q)) as [i|] eqn:F.
  - eexists _, i. split; [reflexivity|]. simpl. split; [reflexivity|]. split; [reflexivity|].
    split; simpl.
    + apply NoDup_filter. apply (inv_nodup _ I).
    + intro x. rewrite fold_tr_remove_In, filter_In, (inv_same _ I), negb_true_iff, mem_false. tauto.
    + apply pfree_filter. apply (inv_pfree _ I).
  - exfalso. rewrite first_index_None in F. specialize (F p Hq). apply mem_false in F. contradiction.
Qed.

(* ---- push ------------------------------------------------------------------ *)
(* The three outcomes of Push(prefix), as the documentation states them. *)
Inductive push_outcome (q : pq) (p : bits) (q' : pq) : Prop :=
| PushAbsorb a x b :          (* superstrings present: p takes the place of the first *)
    dq q = a ++ x :: b -> is_prefix p x = true ->
    (forall y, In y a -> is_prefix p y = false) ->
    dq q' = a ++ p :: filter (fun y => negb (is_prefix p y)) b ->
    push_outcome q p q'
| PushCovered e :             (* a shorter or equal prefix is queued: no-op *)
    In e (dq q) -> is_prefix e p = true -> q' = q -> push_outcome q p q'
| PushAppend :                (* nothing overlaps: appended at the back *)
    (forall y, In y (dq q) -> comparable p y = false) ->
    dq q' = dq q ++ [p] -> push_outcome q p q'.

Lemma superstrings_nil t p : superstrings t p = [] -> forall x, In x t -> is_prefix p x = false.
Proof.
  intros H x Hx. destruct (is_prefix p x) eqn:E; [|reflexivity].
  assert (In x (superstrings t p)) by (apply superstrings_In; auto). rewrite H in H0. destruct H0.
Qed.

Lemma mem_superstrings x t p : mem x (superstrings t p) = (mem x t && is_prefix p x).
Proof.
  destruct (mem x (superstrings t p)) eqn:E.
  - apply mem_In, superstrings_In in E. destruct E as [H1 H2]. apply mem_In in H1. rewrite H1, H2. reflexivity.
  - symmetry. apply andb_false_iff. apply mem_false in E.
    destruct (mem x t) eqn:M; [|left; reflexivity]. right.
    destruct (is_prefix p x) eqn:P; [|reflexivity]. exfalso. apply E. apply superstrings_In. split; [apply mem_In; exact M|exact P].
Qed.

Lemma push1_spec q p :
  Inv_pq q -> exists q', push1 q p = Ok q' /\ Inv_pq q' /\ push_outcome q p q'.
Proof.
  intro I. unfold push1, remove_superstrings.
  destruct (superstrings (tr q) p) as [|s ss] eqn:S.
  - (* no superstrings *)
    simpl. pose proof (superstrings_nil _ _ S) as NS.
    destruct (find_prefix_of (tr q) p) as [e|] eqn:F.
    + exists q. split; [reflexivity|]. split; [exact I|].
      apply find_prefix_of_Some in F. destruct F as [He Hp].
      apply (PushCovered _ _ _ e); [apply (inv_same _ I); exact He|exact Hp|reflexivity].
    + pose proof (find_prefix_of_None _ _ F) as NP.
      eexists. split; [reflexivity|].
      assert (NC: forall y, In y (dq q) -> comparable p y = false).
      { intros y Hy. apply (inv_same _ I) in Hy. unfold comparable. rewrite (NS y Hy), (NP y Hy). reflexivity. }
      split.
      * split; simpl.
        -- apply NoDup_snoc; [apply (inv_nodup _ I)|].
           intro Hin. specialize (NC p Hin). unfold comparable in NC. rewrite is_prefix_refl in NC. discriminate.
        -- intro x. rewrite tr_add_In, in_app_iff, (inv_same _ I). simpl. intuition congruence.
        -- intros a b Ha Hb C. apply in_app_iff in Ha, Hb. simpl in Ha, Hb.
           destruct Ha as [Ha|[<-|[]]], Hb as [Hb|[<-|[]]].
           ++ apply (inv_pfree _ I); assumption.
           ++ rewrite comparable_sym, (NC a Ha) in C. discriminate.
           ++ rewrite (NC b Hb) in C. discriminate.
           ++ reflexivity.
      * apply PushAppend; [exact NC|reflexivity].
  - (* superstrings: removed, p inserted at the position of the first *)
    rewrite <- S.
    assert (EX: exists x, In x (superstrings (tr q) p) /\ In x (dq q)).
    { exists s. split; [rewrite S; left; reflexivity|].
      apply (inv_same _ I). assert (In s (superstrings (tr q) p)) by (rewrite S; left; reflexivity).
      apply superstrings_In in H. tauto. }
    destruct (remove_prefixes_spec q _ I EX) as (q1 & i & E & Hdq & Hfi & I1).
    rewrite E. simpl.
    apply first_index_Some in Hfi. destruct Hfi as (a & x & b & Hl & Hlen & Hx & Ha).
    eexists. split; [reflexivity|].
    assert (Hmem: forall y, In y (dq q) -> mem y (superstrings (tr q) p) = is_prefix p y).
    { intros y Hy. rewrite mem_superstrings. apply (inv_same _ I) in Hy. apply mem_In in Hy. rewrite Hy. reflexivity. }
    assert (Hxin: In x (dq q)) by (rewrite Hl; apply in_app_iff; right; left; reflexivity).
    assert (Hpx: is_prefix p x = true) by (rewrite <- (Hmem x Hxin); exact Hx).
    assert (Hpa: forall y, In y a -> is_prefix p y = false).
    { intros y Hy. rewrite <- (Hmem y); [apply Ha; exact Hy|]. rewrite Hl. apply in_app_iff. left. exact Hy. }
    assert (Hdq1: dq q1 = a ++ filter (fun y => negb (is_prefix p y)) b).
    { rewrite Hdq, Hl, filter_app. simpl. rewrite Hx. simpl. f_equal.
      - apply filter_app_false. intros y Hy. rewrite (Ha y Hy). reflexivity.
      - apply filter_ext_in. intros y Hy. rewrite Hmem; [reflexivity|].
        rewrite Hl. apply in_app_iff. right. right. exact Hy. }
    assert (Hins: insert_at i p (dq q1) = a ++ p :: filter (fun y => negb (is_prefix p y)) b).
    { rewrite Hdq1, <- Hlen. apply insert_at_app. }
    (* no remaining element is comparable with p *)
    assert (NC: forall y, In y (dq q1) -> comparable p y = false).
    { intros y Hy. rewrite Hdq in Hy. apply filter_In in Hy. destruct Hy as [Hy Hn].
      rewrite (Hmem y Hy) in Hn. apply negb_true_iff in Hn. unfold comparable. rewrite Hn. simpl.
      destruct (is_prefix y p) eqn:Y; [|reflexivity]. exfalso.
      assert (is_prefix y x = true) by (eapply is_prefix_trans; eauto).
      assert (y = x). { apply (inv_pfree _ I); auto. unfold comparable. rewrite H. reflexivity. }
      subst y. assert (p = x) by (apply is_prefix_antisym; assumption). subst x.
      rewrite is_prefix_refl in Hn. discriminate. }
    split.
    + split; simpl.
      * rewrite Hins.
        apply NoDup_insert; [rewrite <- Hdq1; apply (inv_nodup _ I1)|].
        rewrite <- Hdq1. intro Hin. specialize (NC p Hin). unfold comparable in NC. rewrite is_prefix_refl in NC. discriminate.
      * intro z. rewrite tr_add_In, Hins, (inv_same _ I1), Hdq1, !in_app_iff. simpl. intuition congruence.
      * rewrite Hins. intros u v Hu Hv C.
        assert (Hu': u = p \/ In u (dq q1)) by (rewrite Hdq1; apply in_app_iff in Hu; simpl in Hu; rewrite in_app_iff; intuition congruence).
        assert (Hv': v = p \/ In v (dq q1)) by (rewrite Hdq1; apply in_app_iff in Hv; simpl in Hv; rewrite in_app_iff; intuition congruence).
        destruct Hu' as [->|Hu'], Hv' as [->|Hv']; [reflexivity| | |].
        -- rewrite (NC v Hv') in C. discriminate.
        -- rewrite comparable_sym, (NC u Hu') in C. discriminate.
        -- apply (inv_pfree _ I1); assumption.
    + apply (PushAbsorb _ _ _ a x b); [exact Hl|exact Hpx|exact Hpa|exact Hins].
Qed.

Lemma push_inv ps : forall q, Inv_pq q -> exists q', push q ps = Ok q' /\ Inv_pq q'.
Proof.
  induction ps as [|p ps IH]; intros q I; simpl.
  - exists q. split; [reflexivity|exact I].
  - destruct (push1_spec q p I) as (q1 & E & I1 & _). rewrite E. simpl. apply IH. exact I1.
Qed.

Lemma pop_spec q : Inv_pq q ->
  match dq q with
  | [] => pop q = (q, None)
  | p :: d => exists q', pop q = (q', Some p) /\ dq q' = d /\ Inv_pq q'
  end.
Proof.
  intro I. unfold pop. destruct (dq q) as [|p d] eqn:E; [reflexivity|].
  eexists. split; [reflexivity|]. split; [reflexivity|].
  pose proof (inv_nodup _ I) as ND. rewrite E in ND. inversion ND as [|? ? Hp ND']; subst.
  split; simpl.
  - exact ND'.
  - intro x. rewrite tr_remove_In, (inv_same _ I), E. simpl. split.
    + intros [[<-|H] N]; [congruence|exact H].
    + intro H. split; [right; exact H|]. intro; subst. contradiction.
  - intros a b Ha Hb. apply (inv_pfree _ I); rewrite E; right; assumption.
Qed.

(* Remove(prefix): drops exactly the queued superstrings of the prefix *)
Lemma pq_remove_spec q p : Inv_pq q ->
  exists q' b, pq_remove q p = Ok (q', b) /\ Inv_pq q' /\
    dq q' = filter (fun y => negb (is_prefix p y)) (dq q) /\
    (b = true <-> exists y, In y (dq q) /\ is_prefix p y = true).
Proof.
  intro I. unfold pq_remove, remove_superstrings.
  destruct (superstrings (tr q) p) as [|s ss] eqn:S.
  - simpl. exists q, false. split; [reflexivity|]. split; [exact I|].
    pose proof (superstrings_nil _ _ S) as NS. split.
    + symmetry. apply filter_app_false. intros y Hy. apply (inv_same _ I) in Hy. rewrite (NS y Hy). reflexivity.
    + split; [discriminate|]. intros [y [Hy Hp]]. apply (inv_same _ I) in Hy. rewrite (NS y Hy) in Hp. discriminate.
  - rewrite <- S.
    assert (Hs: In s (tr q) /\ is_prefix p s = true).
    { apply superstrings_In. rewrite S. left. reflexivity. }
    assert (EX: exists x, In x (superstrings (tr q) p) /\ In x (dq q)).
    { exists s. split; [rewrite S; left; reflexivity|]. apply (inv_same _ I). tauto. }
    destruct (remove_prefixes_spec q _ I EX) as (q1 & i & E & Hdq & _ & I1).
    rewrite E. simpl. exists q1, true. split; [reflexivity|]. split; [exact I1|]. split.
    + rewrite Hdq. apply filter_ext_in. intros y Hy. rewrite mem_superstrings.
      apply (inv_same _ I) in Hy. apply mem_In in Hy. rewrite Hy. reflexivity.
    + split; [|reflexivity]. intros _. exists s. split; [apply (inv_same _ I)|]; tauto.
Qed.

(* ---- the reprovide queue over whole histories ------------------------------- *)
Inductive rop := RPush (ps : list bits) | RPop | RRem (p : bits) | RClr.

Definition rstep (q : pq) (o : rop) : res pq :=
  match o with
  | RPush ps => push q ps
  | RPop => Ok (fst (pop q))
  | RRem p => r <- pq_remove q p ;; Ok (fst r)
  | RClr => Ok (fst (pq_clear q))
  end.

Fixpoint rrun (q : pq) (ops : list rop) : res pq :=
  match ops with
  | [] => Ok q
  | o :: rest => q' <- rstep q o ;; rrun q' rest
  end.

Lemma rstep_inv q o : Inv_pq q -> exists q', rstep q o = Ok q' /\ Inv_pq q'.
Proof.
  intro I. destruct o as [ps| |p|]; simpl.
  - apply push_inv. exact I.
  - pose proof (pop_spec q I) as H. destruct (dq q) eqn:E.
    + rewrite H. exists q. split; [reflexivity|exact I].
    + destruct H as (q' & -> & _ & I'). exists q'. split; [reflexivity|exact I'].
  - destruct (pq_remove_spec q p I) as (q' & b & -> & I' & _). exists q'. split; [reflexivity|exact I'].
  - exists pq_empty. split; [reflexivity|apply Inv_pq_empty].
Qed.

Lemma rrun_inv ops : forall q, Inv_pq q -> exists q', rrun q ops = Ok q' /\ Inv_pq q'.
Proof.
  induction ops as [|o ops IH]; intros q I; simpl.
  - exists q. split; [reflexivity|exact I].
  - destruct (rstep_inv q o I) as (q1 & -> & I1). simpl. apply IH. exact I1.
Qed.
