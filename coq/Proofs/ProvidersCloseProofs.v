(* Lemmas about Model/ProvidersClose.v: the Close fence under every interleaving.
   One invariant, proved by induction over the schedule; the three clauses of
   the property and the progress statements are read off it. *)
From Verif.Lib Require Import GoSem Bits.
From Verif.Model Require Import ProvidersClose.
From Coq Require Import Lia.

(* ---- lists ------------------------------------------------------------------ *)
Lemma nth_upd : forall A (l : list A) i j x,
  nth_error (upd l i x) j =
  if Nat.eqb i j then match nth_error l i with Some _ => Some x | None => None end
  else nth_error l j.
Proof.
  induction l as [|y l IH]; intros i j x.
  - simpl. destruct (Nat.eqb i j); destruct i, j; reflexivity.
  - destruct i, j; simpl; try reflexivity. apply IH.
Qed.

Lemma sum_upd : forall (f : client -> nat) l i c x,
  nth_error l i = Some c ->
  sum_list (map f (upd l i x)) + f c = sum_list (map f l) + f x.
Proof.
  induction l as [|y l IH]; intros i c x H.
  - destruct i; discriminate.
  - destruct i; simpl in *.
    + inversion H; subst. unfold sum_list; simpl. lia.
    + specialize (IH _ _ x H). unfold sum_list in *; simpl. lia.
Qed.

(* ---- the invariant ------------------------------------------------------------ *)
Definition holds (p : cpc) : Prop :=
  match p with CCheck | CDs _ | CUnlock _ => True | _ => False end.
Definition in_ds (p : cpc) : Prop :=
  match p with CDs _ => True | _ => False end.
Definition xstopped (x : xpc) : bool :=
  match x with XUnlock | XReturn | XDone => true | _ => false end.
Definition xholds (x : xpc) : bool :=
  match x with XSet | XUnlock => true | _ => false end.
Definition past_wait (x : xpc) : bool :=
  match x with XInit | XWait => false | _ => true end.
Definition xstarted (x : xpc) : bool :=
  match x with XInit => false | _ => true end.

Record Inv (st : state) : Prop := {
  inv_hold1 : forall i c, nth_error (clients st) i = Some c -> holds (c_pc c) -> mu st = Some (TClient i);
  inv_hold2 : forall h, mu st = Some h ->
                match h with
                | TClient i => exists c, nth_error (clients st) i = Some c /\ holds (c_pc c)
                | TClose => xholds (cl st) = true
                | _ => False
                end;
  inv_xhold : xholds (cl st) = true -> mu st = Some TClose;
  inv_stopped : stopped st = xstopped (cl st);
  inv_gcx : past_wait (cl st) = true -> gc st = GExited;
  inv_cancel : cancelled st = xstarted (cl st);
  inv_ret : match close_ret st with
            | Some r => cl st = XDone /\ r < clock st
            | None => cl st <> XDone
            end;
  inv_ds : forall i c, nth_error (clients st) i = Some c -> in_ds (c_pc c) -> stopped st = false;
  inv_start : forall i c s, nth_error (clients st) i = Some c -> c_start c = Some s -> s < clock st;
  inv_late : forall i c s r, nth_error (clients st) i = Some c -> c_start c = Some s ->
               close_ret st = Some r -> r < s -> closed_or_pending (c_pc c);
  inv_log : forall n t o, In (n, t, o) (log st) ->
              n < clock st /\ forall r, close_ret st = Some r -> n < r
}.

Lemma init_clients : forall progs todo nticks i c,
  nth_error (clients (init progs todo nticks)) i = Some c -> c_pc c = CInit /\ c_start c = None.
Proof.
  intros progs todo nticks i c H. simpl in H.
  revert i H. induction progs as [|p progs IH]; intros i H; destruct i; simpl in H; try discriminate.
  - inversion H; subst. split; reflexivity.
  - eauto.
Qed.

Lemma inv_init : forall progs todo nticks, Inv (init progs todo nticks).
Proof.
  intros. constructor.
  - intros i c H Hh. destruct (init_clients _ _ _ _ _ H) as [E _]. rewrite E in Hh. destruct Hh.
  - intros h H. discriminate.
  - intro H. discriminate.
  - reflexivity.
  - intro H. discriminate.
  - reflexivity.
  - simpl. congruence.
  - intros i c H Hh. destruct (init_clients _ _ _ _ _ H) as [E _]. rewrite E in Hh. destruct Hh.
  - intros i c s H Hs. destruct (init_clients _ _ _ _ _ H) as [_ E]. congruence.
  - intros i c s r H Hs. destruct (init_clients _ _ _ _ _ H) as [_ E]. congruence.
  - intros n t o [].
Qed.

(* a closed Close call holds nothing *)
Lemma done_not_holder : forall st, Inv st -> close_ret st <> None -> stopped st = true /\ gc st = GExited.
Proof.
  intros st I H. pose proof (inv_ret st I) as R. destruct (close_ret st); [|congruence].
  destruct R as [R _]. split.
  - rewrite (inv_stopped st I), R. reflexivity.
  - apply (inv_gcx st I). rewrite R. reflexivity.
Qed.

Ltac cl_upd H i j :=
  rewrite nth_upd in H; destruct (Nat.eqb_spec i j); [subst j|].

(* ---- preservation: client steps -------------------------------------------------- *)
Lemma inv_step_client : forall st i st', Inv st -> step_client st i = Some st' -> Inv st'.
Proof.
  intros st i st' I H. unfold step_client in H.
  destruct (nth_error (clients st) i) as [c|] eqn:Hc; [|discriminate].
  pose proof (inv_ret st I) as R.
  destruct (c_pc c) as [| | |ops|r|r] eqn:Hpc.
  - (* CInit -> CLock *)
    inversion H; subst st'; clear H.
    constructor; simpl.
    + intros j c' H Hh. cl_upd H i j.
      * rewrite Hc in H. inversion H; subst. destruct Hh.
      * eapply inv_hold1; eauto.
    + intros h Hm. pose proof (inv_hold2 st I h Hm) as X. destruct h; auto.
      destruct X as [c' [X1 X2]]. rewrite nth_upd. destruct (Nat.eqb_spec i i0).
      * subst. rewrite Hc in X1. inversion X1; subst. rewrite Hpc in X2. destruct X2.
      * eauto.
    + apply (inv_xhold st I).
    + apply (inv_stopped st I).
    + apply (inv_gcx st I).
    + apply (inv_cancel st I).
    + destruct (close_ret st); [destruct R; split; auto; lia | auto].
    + intros j c' H Hd. cl_upd H i j.
      * rewrite Hc in H. inversion H; subst. destruct Hd.
      * eapply inv_ds; eauto.
    + intros j c' s H Hs. cl_upd H i j.
      * rewrite Hc in H. inversion H; subst. simpl in Hs. inversion Hs. lia.
      * pose proof (inv_start st I j c' s H Hs). lia.
    + intros j c' s r H Hs Hr Hlt. cl_upd H i j.
      * rewrite Hc in H. inversion H; subst. exact Logic.I.
      * eapply inv_late; eauto.
    + intros n t o Hin. destruct (inv_log st I n t o Hin). split; auto.
  - (* CLock *)
    destruct (mu st) eqn:Hmu; [discriminate|].
    inversion H; subst st'; clear H.
    assert (Hx : xholds (cl st) = false).
    { destruct (xholds (cl st)) eqn:E; auto. rewrite (inv_xhold st I E) in Hmu. discriminate. }
    constructor; simpl.
    + intros j c' H Hh. cl_upd H i j; [reflexivity|].
      rewrite (inv_hold1 st I j c' H Hh) in Hmu. discriminate.
    + intros h Hm. inversion Hm; subst h. exists (with_pc c CCheck).
      rewrite nth_upd, Nat.eqb_refl, Hc. split; [reflexivity|exact Logic.I].
    + rewrite Hx. discriminate.
    + apply (inv_stopped st I).
    + apply (inv_gcx st I).
    + apply (inv_cancel st I).
    + destruct (close_ret st); [destruct R; split; auto; lia | auto].
    + intros j c' H Hd. cl_upd H i j.
      * rewrite Hc in H. inversion H; subst. destruct Hd.
      * eapply inv_ds; eauto.
    + intros j c' s H Hs. cl_upd H i j.
      * rewrite Hc in H. inversion H; subst. simpl in Hs. pose proof (inv_start st I i c s Hc Hs). lia.
      * pose proof (inv_start st I j c' s H Hs). lia.
    + intros j c' s r H Hs Hr Hlt. cl_upd H i j.
      * rewrite Hc in H. inversion H; subst. exact Logic.I.
      * eapply inv_late; eauto.
    + intros n t o Hin. destruct (inv_log st I n t o Hin). split; auto.
  - (* CCheck *)
    inversion H; subst st'; clear H.
    assert (Hm : mu st = Some (TClient i)) by (apply (inv_hold1 st I i c Hc); rewrite Hpc; exact Logic.I).
    constructor; simpl.
    + intros j c' H Hh. cl_upd H i j; [assumption|]. eapply inv_hold1; eauto.
    + intros h Hm'. rewrite Hm in Hm'. inversion Hm'; subst h.
      eexists. rewrite nth_upd, Nat.eqb_refl, Hc. split; [reflexivity|].
      simpl. destruct (stopped st); exact Logic.I.
    + apply (inv_xhold st I).
    + apply (inv_stopped st I).
    + apply (inv_gcx st I).
    + apply (inv_cancel st I).
    + destruct (close_ret st); [destruct R; split; auto; lia | auto].
    + intros j c' H Hd. cl_upd H i j.
      * rewrite Hc in H. inversion H; subst. simpl in Hd. destruct (stopped st); [destruct Hd|reflexivity].
      * eapply inv_ds; eauto.
    + intros j c' s H Hs. cl_upd H i j.
      * rewrite Hc in H. inversion H; subst. simpl in Hs. pose proof (inv_start st I i c s Hc Hs). lia.
      * pose proof (inv_start st I j c' s H Hs). lia.
    + intros j c' s r H Hs Hr Hlt. cl_upd H i j.
      * rewrite Hc in H. inversion H; subst. simpl.
        destruct (done_not_holder st I) as [Hst _]; [congruence|]. rewrite Hst. exact Logic.I.
      * eapply inv_late; eauto.
    + intros n t o Hin. destruct (inv_log st I n t o Hin). split; auto.
  - (* CDs *)
    assert (Hm : mu st = Some (TClient i)) by (apply (inv_hold1 st I i c Hc); rewrite Hpc; exact Logic.I).
    assert (Hns : stopped st = false) by (apply (inv_ds st I i c Hc); rewrite Hpc; exact Logic.I).
    assert (Hnr : close_ret st = None).
    { destruct (close_ret st) eqn:E; auto. destruct (done_not_holder st I) as [X _]; congruence. }
    assert (Hnl : forall s r, c_start c = Some s -> close_ret st = Some r -> r < s -> False).
    { intros s r Hs Hr. congruence. }
    destruct ops as [|o ops]; inversion H; subst st'; clear H.
    + constructor; simpl.
      * intros j c' H Hh. cl_upd H i j; [assumption|]. eapply inv_hold1; eauto.
      * intros h Hm'. rewrite Hm in Hm'. inversion Hm'; subst h.
        eexists. rewrite nth_upd, Nat.eqb_refl, Hc. split; [reflexivity|exact Logic.I].
      * apply (inv_xhold st I).
      * apply (inv_stopped st I).
      * apply (inv_gcx st I).
      * apply (inv_cancel st I).
      * rewrite Hnr in *. auto.
      * intros j c' H Hd. cl_upd H i j; [assumption|]. eapply inv_ds; eauto.
      * intros j c' s H Hs. cl_upd H i j.
        -- rewrite Hc in H. inversion H; subst. simpl in Hs. pose proof (inv_start st I i c s Hc Hs). lia.
        -- pose proof (inv_start st I j c' s H Hs). lia.
      * intros j c' s r H Hs Hr Hlt. congruence.
      * intros n t o Hin. destruct (inv_log st I n t o Hin). split; auto.
    + constructor; simpl.
      * intros j c' H Hh. cl_upd H i j; [assumption|]. eapply inv_hold1; eauto.
      * intros h Hm'. rewrite Hm in Hm'. inversion Hm'; subst h.
        eexists. rewrite nth_upd, Nat.eqb_refl, Hc. split; [reflexivity|exact Logic.I].
      * apply (inv_xhold st I).
      * apply (inv_stopped st I).
      * apply (inv_gcx st I).
      * apply (inv_cancel st I).
      * rewrite Hnr in *. auto.
      * intros j c' H Hd. cl_upd H i j; [assumption|]. eapply inv_ds; eauto.
      * intros j c' s H Hs. cl_upd H i j.
        -- rewrite Hc in H. inversion H; subst. simpl in Hs. pose proof (inv_start st I i c s Hc Hs). lia.
        -- pose proof (inv_start st I j c' s H Hs). lia.
      * intros j c' s r H Hs Hr Hlt. congruence.
      * intros n t o' [Hin|Hin].
        -- inversion Hin; subst. split; [lia|]. intros r Hr. congruence.
        -- destruct (inv_log st I n t o' Hin). split; auto.
  - (* CUnlock *)
    assert (Hm : mu st = Some (TClient i)) by (apply (inv_hold1 st I i c Hc); rewrite Hpc; exact Logic.I).
    assert (Hx : xholds (cl st) = false).
    { destruct (xholds (cl st)) eqn:E; auto. rewrite (inv_xhold st I E) in Hm. discriminate. }
    inversion H; subst st'; clear H.
    constructor; simpl.
    + intros j c' H Hh. cl_upd H i j.
      * rewrite Hc in H. inversion H; subst. destruct Hh.
      * pose proof (inv_hold1 st I j c' H Hh) as X. rewrite Hm in X. inversion X. congruence.
    + intros h Hm'. discriminate.
    + rewrite Hx. discriminate.
    + apply (inv_stopped st I).
    + apply (inv_gcx st I).
    + apply (inv_cancel st I).
    + destruct (close_ret st); [destruct R; split; auto; lia | auto].
    + intros j c' H Hd. cl_upd H i j.
      * rewrite Hc in H. inversion H; subst. destruct Hd.
      * eapply inv_ds; eauto.
    + intros j c' s H Hs. cl_upd H i j.
      * rewrite Hc in H. inversion H; subst. simpl in Hs. pose proof (inv_start st I i c s Hc Hs). lia.
      * pose proof (inv_start st I j c' s H Hs). lia.
    + intros j c' s r' H Hs Hr Hlt. cl_upd H i j.
      * rewrite Hc in H. inversion H; subst. simpl in *.
        pose proof (inv_late st I i c s r' Hc Hs Hr Hlt) as X. rewrite Hpc in X. exact X.
      * eapply inv_late; eauto.
    + intros n t o Hin. destruct (inv_log st I n t o Hin). split; auto.
  - discriminate.
Qed.

(* ---- preservation: the GC goroutine and the timer ---------------------------------- *)
Lemma inv_set_gc : forall st g tk todo,
  Inv st -> (gc st = GExited -> g = GExited) ->
  Inv (set_gc st g tk todo (log st)).
Proof.
  intros st g tk todo I Hg. pose proof (inv_ret st I) as R.
  constructor; simpl; try (apply I).
  - intro P. apply Hg. apply (inv_gcx st I P).
  - destruct (close_ret st); [destruct R; split; auto; lia | auto].
  - intros i c s H Hs. pose proof (inv_start st I i c s H Hs). lia.
  - intros n t o Hin. destruct (inv_log st I n t o Hin). split; auto.
Qed.

Lemma inv_step_gc : forall st st', Inv st -> step_gc st = Some st' -> Inv st'.
Proof.
  intros st st' I H. unfold step_gc in H. pose proof (inv_ret st I) as R.
  destruct (gc st) as [|ops|ops|] eqn:Hg; try discriminate.
  - destruct ops as [|o ops]; inversion H; subst st'; clear H.
    + apply inv_set_gc; auto. congruence.
    + assert (Hnr : close_ret st = None).
      { destruct (close_ret st) eqn:E; auto. destruct (done_not_holder st I) as [_ X]; congruence. }
      constructor; simpl; try (apply I).
      * intro P. pose proof (inv_gcx st I P). congruence.
      * rewrite Hnr in *. auto.
      * intros i c s H Hs. pose proof (inv_start st I i c s H Hs). lia.
      * intros n t o' [Hin|Hin].
        -- inversion Hin; subst. split; [lia|]. intros r Hr. congruence.
        -- destruct (inv_log st I n t o' Hin). split; auto.
  - inversion H; subst st'; clear H. apply inv_set_gc; auto. congruence.
Qed.

Lemma inv_step_gc_tick : forall st st', Inv st -> step_gc_tick st = Some st' -> Inv st'.
Proof.
  intros st st' I H. unfold step_gc_tick in H.
  destruct (gc st) eqn:Hg; try discriminate. destruct (tick st); [|discriminate].
  inversion H; subst st'. apply inv_set_gc; auto. congruence.
Qed.

Lemma inv_step_gc_done : forall st st', Inv st -> step_gc_done st = Some st' -> Inv st'.
Proof.
  intros st st' I H. unfold step_gc_done in H.
  destruct (gc st) eqn:Hg; try discriminate. destruct (cancelled st); [|discriminate].
  inversion H; subst st'. apply inv_set_gc; auto.
Qed.

Lemma inv_step_timer : forall st st', Inv st -> step_timer st = Some st' -> Inv st'.
Proof.
  intros st st' I H. unfold step_timer in H. pose proof (inv_ret st I) as R.
  destruct (ticks_left st); [discriminate|]. inversion H; subst st'; clear H.
  constructor; simpl; try (apply I).
  - destruct (close_ret st); [destruct R; split; auto; lia | auto].
  - intros i c s H Hs. pose proof (inv_start st I i c s H Hs). lia.
  - intros n' t o Hin. destruct (inv_log st I n' t o Hin). split; auto.
Qed.

(* ---- preservation: Close ------------------------------------------------------------ *)
Ltac xfin st I Hx LOG :=
  solve
  [ intros h Hm; pose proof (inv_hold2 st I h Hm) as X; rewrite Hx in X; destruct h; auto
  | intros; discriminate
  | intros n t o Hin; destruct (LOG n t o Hin); split; auto; intros; discriminate
  | intros i c Hc Hh; pose proof (inv_hold1 st I i c Hc Hh); congruence
  | intros h Hm'; inversion Hm'; subst; reflexivity
  | intros h Hm'; match goal with Hm : mu st = Some TClose |- _ => rewrite Hm in Hm' end;
    inversion Hm'; subst; reflexivity
  | intros i c Hc Hd; exfalso;
    assert (Hh : holds (c_pc c)) by (destruct (c_pc c); try destruct Hd; exact Logic.I);
    pose proof (inv_hold1 st I i c Hc Hh); congruence
  | intros i c s r Hc Hs Hr Hlt; inversion Hr; subst r; pose proof (inv_start st I i c s Hc Hs); lia
  | intros n t o Hin; destruct (inv_log st I n t o Hin); split; [lia|];
    intros r Hr; inversion Hr; subst; assumption ].

Lemma inv_step_close : forall st st', Inv st -> step_close st = Some st' -> Inv st'.
Proof.
  intros st st' I H. unfold step_close in H.
  pose proof (inv_ret st I) as R. pose proof (inv_stopped st I) as STP.
  pose proof (inv_cancel st I) as C. pose proof (inv_xhold st I) as XH.
  pose proof (inv_gcx st I) as GX.
  assert (Hnr : cl st <> XDone -> close_ret st = None).
  { intro N. destruct (close_ret st); auto. destruct R; congruence. }
  assert (START : forall i c s, nth_error (clients st) i = Some c -> c_start c = Some s -> s < S (clock st)).
  { intros i c s Hc0 Hs. pose proof (inv_start st I i c s Hc0 Hs). lia. }
  assert (LOG : forall n t o, In (n, t, o) (log st) -> n < S (clock st) /\ forall r, close_ret st = Some r -> n < r).
  { intros n t o Hin. destruct (inv_log st I n t o Hin). split; auto. }
  destruct (cl st) eqn:Hx.
  - (* XInit: cancel *)
    inversion H; subst st'; clear H. rewrite Hnr in * by congruence.
    constructor; simpl; try rewrite Hnr by congruence; auto; try discriminate; try (apply I).
    all: xfin st I Hx LOG.
  - (* XWait *)
    destruct (gc st) eqn:Hg; try discriminate.
    inversion H; subst st'; clear H. rewrite Hnr in * by congruence.
    constructor; simpl; try rewrite Hnr by congruence; auto; try discriminate; try (apply I).
    all: xfin st I Hx LOG.
  - (* XLock *)
    destruct (mu st) eqn:Hm; [discriminate|].
    inversion H; subst st'; clear H. rewrite Hnr in * by congruence.
    constructor; simpl; try rewrite Hnr by congruence; auto; try discriminate; try (apply I).
    all: xfin st I Hx LOG.
  - (* XSet *)
    inversion H; subst st'; clear H. rewrite Hnr in * by congruence.
    assert (Hm : mu st = Some TClose) by (apply XH; reflexivity).
    constructor; simpl; try rewrite Hnr by congruence; auto; try discriminate; try (apply I).
    all: xfin st I Hx LOG.
  - (* XUnlock *)
    inversion H; subst st'; clear H. rewrite Hnr in * by congruence.
    assert (Hm : mu st = Some TClose) by (apply XH; reflexivity).
    constructor; simpl; try rewrite Hnr by congruence; auto; try discriminate; try (apply I).
    all: xfin st I Hx LOG.
  - (* XReturn *)
    inversion H; subst st'; clear H. rewrite Hnr in * by congruence.
    constructor; simpl; auto; try discriminate; try (apply I).
    all: xfin st I Hx LOG.
  - discriminate.
Qed.

Lemma inv_step : forall st t st', Inv st -> step st t = Some st' -> Inv st'.
Proof.
  intros st t st' I H. destruct t; simpl in H.
  - eapply inv_step_client; eauto.
  - eapply inv_step_gc; eauto.
  - eapply inv_step_gc_tick; eauto.
  - eapply inv_step_gc_done; eauto.
  - eapply inv_step_timer; eauto.
  - eapply inv_step_close; eauto.
Qed.

Lemma inv_exec : forall st t, Inv st -> Inv (exec st t).
Proof.
  intros st t I. unfold exec. destruct (step st t) eqn:E; [eapply inv_step; eauto | assumption].
Qed.

Lemma inv_run_from : forall sched st, Inv st -> Inv (run st sched).
Proof.
  induction sched as [|t sched IH]; intros st I; simpl; [assumption|].
  apply IH. apply inv_exec. assumption.
Qed.

Lemma inv_run : forall progs todo nticks sched, Inv (run (init progs todo nticks) sched).
Proof. intros. apply inv_run_from. apply inv_init. Qed.

(* ---- (i) no datastore call after Close returned -------------------------------------- *)
Lemma no_ds_after_close :
  forall progs todo nticks sched,
    let st := run (init progs todo nticks) sched in
    forall r, close_ret st = Some r ->
    forall n t o, In (n, t, o) (log st) -> n < r.
Proof.
  intros progs todo nticks sched st r Hr n t o Hin.
  destruct (inv_log st (inv_run progs todo nticks sched) n t o Hin) as [_ X]. auto.
Qed.

(* Close returns only when nobody is inside (or committed to) a datastore call:
   no client is in its datastore section, the sweep goroutine has exited *)
Lemma close_returned_quiet :
  forall progs todo nticks sched,
    let st := run (init progs todo nticks) sched in
    close_ret st <> None ->
    gc st = GExited /\ stopped st = true /\
    forall i c ops, nth_error (clients st) i = Some c -> c_pc c <> CDs ops.
Proof.
  intros progs todo nticks sched st Hr.
  pose proof (inv_run progs todo nticks sched) as I. fold st in I.
  destruct (done_not_holder st I Hr) as [Hs Hg]. repeat split; auto.
  intros i c ops Hc Hpc.
  pose proof (inv_ds st I i c Hc) as X. rewrite Hpc in X. rewrite X in Hs by exact Logic.I. discriminate.
Qed.

(* ---- (ii) calls made after Close returned report closed --------------------------------- *)
Lemma late_calls_closed :
  forall progs todo nticks sched,
    let st := run (init progs todo nticks) sched in
    forall r i c s, close_ret st = Some r -> nth_error (clients st) i = Some c ->
      c_start c = Some s -> r < s ->
      closed_or_pending (c_pc c) /\ (forall res, c_pc c = CDone res -> res = CRClosed).
Proof.
  intros progs todo nticks sched st r i c s Hr Hc Hs Hlt.
  pose proof (inv_late st (inv_run progs todo nticks sched) i c s r Hc Hs Hr Hlt) as X.
  split; [assumption|]. intros res E. rewrite E in X. destruct res; [destruct X|reflexivity].
Qed.

(* ---- (iii) progress ------------------------------------------------------------------------ *)
Lemma blocker_enabled_inv :
  forall st, Inv st -> cl st <> XInit -> cl st <> XDone -> enabled st (close_blocker st) = true.
Proof.
  intros st I H0 H1. unfold close_blocker, enabled.
  destruct (cl st) eqn:Hx; try congruence; simpl; unfold step_close; rewrite ?Hx; try reflexivity.
  - (* XWait *)
    destruct (gc st) eqn:Hg; simpl.
    + unfold step_gc_done. rewrite Hg. rewrite (inv_cancel st I), Hx. reflexivity.
    + unfold step_gc. rewrite Hg. destruct ops; reflexivity.
    + unfold step_gc. rewrite Hg. reflexivity.
    + unfold step_close. rewrite Hx, Hg. reflexivity.
  - (* XLock *)
    destruct (mu st) as [h|] eqn:Hm.
    + pose proof (inv_hold2 st I h Hm) as X.
      destruct h as [i| | | | |]; [ | destruct X | destruct X | destruct X | destruct X | ].
      * destruct X as [c [Hc Hh]]. simpl. unfold step_client. rewrite Hc.
        destruct (c_pc c); try destruct Hh; try reflexivity. destruct ops; reflexivity.
      * rewrite Hx in X. discriminate.
    + simpl. unfold step_close. rewrite Hx, Hm. reflexivity.
Qed.

Lemma close_blocker_enabled :
  forall progs todo nticks sched,
    let st := run (init progs todo nticks) sched in
    cl st <> XInit -> close_ret st = None -> enabled st (close_blocker st) = true.
Proof.
  intros progs todo nticks sched st H0 Hr.
  pose proof (inv_run progs todo nticks sched) as I. fold st in I.
  apply blocker_enabled_inv; auto.
  pose proof (inv_ret st I) as R. rewrite Hr in R. assumption.
Qed.

Lemma no_deadlock_inv :
  forall st, Inv st -> close_ret st = None -> exists t, enabled st t = true.
Proof.
  intros st I Hr.
  pose proof (inv_ret st I) as R. rewrite Hr in R.
  destruct (cl st) eqn:Hx; try congruence.
  - exists TClose. unfold enabled. simpl. unfold step_close. rewrite Hx. reflexivity.
  - exists (close_blocker st). apply blocker_enabled_inv; auto; congruence.
  - exists (close_blocker st). apply blocker_enabled_inv; auto; congruence.
  - exists (close_blocker st). apply blocker_enabled_inv; auto; congruence.
  - exists (close_blocker st). apply blocker_enabled_inv; auto; congruence.
  - exists (close_blocker st). apply blocker_enabled_inv; auto; congruence.
Qed.

Lemma no_deadlock :
  forall progs todo nticks sched,
    let st := run (init progs todo nticks) sched in
    close_ret st = None -> exists t, enabled st t = true.
Proof.
  intros progs todo nticks sched st Hr. apply no_deadlock_inv; auto. apply inv_run.
Qed.

(* every run that cannot be extended has Close returned *)
Lemma maximal_runs_closed :
  forall progs todo nticks sched,
    let st := run (init progs todo nticks) sched in
    (forall t, enabled st t = false) -> close_ret st <> None.
Proof.
  intros progs todo nticks sched st Hn Hr.
  destruct (no_deadlock progs todo nticks sched Hr) as [t Ht]. fold st in Ht. rewrite Hn in Ht. discriminate.
Qed.

(* ---- the number of steps is bounded ------------------------------------------------------------ *)
Lemma sum_list_app_len : forall (d : list dsop) (l : list (list dsop)),
  sum_list (map (@length dsop) (d :: l)) = length d + sum_list (map (@length dsop) l).
Proof. reflexivity. Qed.

Lemma set_client_fuel : forall st i c c' m lg,
  nth_error (clients st) i = Some c ->
  fuel (set_client st i c' m lg) + client_fuel c = fuel st + client_fuel c'.
Proof.
  intros st i c c' m lg Hc. unfold fuel; simpl.
  pose proof (sum_upd client_fuel (clients st) i c c' Hc) as X. lia.
Qed.

Ltac cfuel st i c Hc Hpc c' :=
  split; [|reflexivity];
  let X := fresh "X" in
  match goal with |- fuel (set_client _ _ _ ?m ?lg) < _ =>
    pose proof (set_client_fuel st i c c' m lg Hc) as X end;
  unfold client_fuel in X; simpl in X; rewrite Hpc in X; simpl in X.

Lemma step_fuel : forall st t st', step st t = Some st' -> fuel st' < fuel st /\ clock st' = S (clock st).
Proof.
  intros st t st' H. destruct t; simpl in H.
  - unfold step_client in H. destruct (nth_error (clients st) i) as [c|] eqn:Hc; [|discriminate].
    destruct (c_pc c) as [| | |ops|r|r] eqn:Hpc.
    + inversion H; subst st'; clear H.
      cfuel st i c Hc Hpc {| c_pc := CLock; c_prog := c_prog c; c_start := Some (clock st) |}. lia.
    + destruct (mu st); [discriminate|]. inversion H; subst st'; clear H.
      cfuel st i c Hc Hpc (with_pc c CCheck). lia.
    + inversion H; subst st'; clear H.
      cfuel st i c Hc Hpc (with_pc c (if stopped st then CUnlock CRClosed else CDs (c_prog c))).
      destruct (stopped st); simpl in *; lia.
    + destruct ops as [|o ops]; inversion H; subst st'; clear H.
      * cfuel st i c Hc Hpc (with_pc c (CUnlock CROk)). lia.
      * cfuel st i c Hc Hpc (with_pc c (CDs ops)). lia.
    + inversion H; subst st'; clear H.
      cfuel st i c Hc Hpc (with_pc c (CDone r)). lia.
    + discriminate.
  - unfold step_gc in H. destruct (gc st) as [|ops|ops|] eqn:Hg; try discriminate.
    + destruct ops as [|o ops]; inversion H; subst st'; clear H; unfold fuel; simpl; rewrite Hg; simpl; (split; [lia|reflexivity]).
    + inversion H; subst st'; clear H. unfold fuel; simpl. rewrite Hg. split; [|reflexivity].
      destruct (cancelled st); [simpl; lia|]. destruct ops; simpl; lia.
  - unfold step_gc_tick in H. destruct (gc st) eqn:Hg; try discriminate.
    destruct (tick st) eqn:Ht; [|discriminate]. inversion H; subst st'; clear H.
    unfold fuel; simpl. rewrite Hg, Ht. split; [|reflexivity].
    destruct (gc_todo st) as [|d l]; simpl.
    * lia.
    * unfold sum_list; simpl. fold (sum_list (map (@length dsop) l)). lia.
  - unfold step_gc_done in H. destruct (gc st) eqn:Hg; try discriminate.
    destruct (cancelled st); [|discriminate]. inversion H; subst st'; clear H.
    unfold fuel; simpl. rewrite Hg. simpl. split; [lia|reflexivity].
  - unfold step_timer in H. destruct (ticks_left st) eqn:Ht; [discriminate|]. inversion H; subst st'; clear H.
    unfold fuel; simpl. rewrite Ht. split; [|reflexivity]. destruct (tick st); lia.
  - unfold step_close in H. destruct (cl st) eqn:Hx.
    + inversion H; subst st'; clear H. unfold fuel; simpl. rewrite Hx. simpl. split; [lia|reflexivity].
    + destruct (gc st) eqn:Hg; try discriminate. inversion H; subst st'; clear H.
      unfold fuel; simpl. rewrite Hx, Hg. simpl. split; [lia|reflexivity].
    + destruct (mu st); [discriminate|]. inversion H; subst st'; clear H.
      unfold fuel; simpl. rewrite Hx. simpl. split; [lia|reflexivity].
    + inversion H; subst st'; clear H. unfold fuel; simpl. rewrite Hx. simpl. split; [lia|reflexivity].
    + inversion H; subst st'; clear H. unfold fuel; simpl. rewrite Hx. simpl. split; [lia|reflexivity].
    + inversion H; subst st'; clear H. unfold fuel; simpl. rewrite Hx. simpl. split; [lia|reflexivity].
    + discriminate.
Qed.

Lemma run_fuel : forall sched st, clock (run st sched) + fuel (run st sched) <= clock st + fuel st.
Proof.
  induction sched as [|t sched IH]; intro st; simpl; [lia|].
  specialize (IH (exec st t)). unfold exec in *. destruct (step st t) eqn:E; [|assumption].
  destruct (step_fuel _ _ _ E). lia.
Qed.

Lemma steps_bounded :
  forall progs todo nticks sched,
    clock (run (init progs todo nticks) sched) <= fuel (init progs todo nticks).
Proof.
  intros. pose proof (run_fuel sched (init progs todo nticks)) as X. simpl in X. simpl. lia.
Qed.

(* scheduling, again and again, the thread Close is waiting for makes Close
   return within [fuel st] steps *)
Fixpoint drive (n : nat) (st : state) : state :=
  match n with O => st | S k => drive k (exec st (close_blocker st)) end.

Lemma step_started : forall st t st', step st t = Some st' -> cl st <> XInit -> cl st' <> XInit.
Proof.
  intros st t st' H H0. destruct t; simpl in H.
  - unfold step_client in H. destruct (nth_error (clients st) i) as [c|]; [|discriminate].
    destruct (c_pc c) as [| | |[|o ops]|r|r]; try destruct (mu st); inversion H; subst; simpl; assumption.
  - unfold step_gc in H. destruct (gc st) as [|[|o ops]|ops|]; inversion H; subst; simpl; assumption.
  - unfold step_gc_tick in H. destruct (gc st); try discriminate. destruct (tick st); inversion H; subst; simpl; assumption.
  - unfold step_gc_done in H. destruct (gc st); try discriminate. destruct (cancelled st); inversion H; subst; simpl; assumption.
  - unfold step_timer in H. destruct (ticks_left st); inversion H; subst; simpl; assumption.
  - unfold step_close in H. destruct (cl st) eqn:Hx; try congruence.
    + destruct (gc st); inversion H; subst; simpl; discriminate.
    + destruct (mu st); inversion H; subst; simpl; discriminate.
    + inversion H; subst; simpl; discriminate.
    + inversion H; subst; simpl; discriminate.
    + inversion H; subst; simpl; discriminate.
Qed.

Lemma drive_returns_inv :
  forall n st, Inv st -> cl st <> XInit -> fuel st <= n ->
    exists k, k <= fuel st /\ close_ret (drive k st) <> None.
Proof.
  induction n as [|n IH]; intros st I H0 Hf.
  - exists 0. split; [lia|]. simpl. pose proof (inv_ret st I) as R.
    destruct (close_ret st); [congruence|]. exfalso.
    pose proof (blocker_enabled_inv st I H0 R) as E. unfold enabled in E.
    destruct (step st (close_blocker st)) eqn:Est; [|discriminate].
    destruct (step_fuel _ _ _ Est). lia.
  - pose proof (inv_ret st I) as R. destruct (close_ret st) eqn:Hr.
    + exists 0. split; [lia|]. simpl. congruence.
    + pose proof (blocker_enabled_inv st I H0 R) as E. unfold enabled in E.
      destruct (step st (close_blocker st)) as [st'|] eqn:Est; [|discriminate].
      destruct (step_fuel _ _ _ Est) as [F _].
      assert (I' : Inv st') by (eapply inv_step; eauto).
      assert (H0' : cl st' <> XInit) by (eapply step_started; eauto).
      destruct (IH st' I' H0') as [k [Hk Hd]]; [lia|].
      exists (S k). split; [lia|]. simpl. unfold exec. rewrite Est. assumption.
Qed.

Lemma close_returns_when_blockers_run :
  forall progs todo nticks sched,
    let st := run (init progs todo nticks) sched in
    cl st <> XInit ->
    exists k, k <= fuel st /\ close_ret (drive k st) <> None.
Proof.
  intros progs todo nticks sched st H0.
  apply (drive_returns_inv (fuel st)); auto. apply inv_run.
Qed.
