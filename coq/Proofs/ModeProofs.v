(* Lemmas for C13 (Model/Mode.v, Gen/ModeTable.v).  Induction over event lists. *)
From Verif.Lib Require Import GoSem Bits.
From Verif.Gen Require Import ModeTable.
From Verif.Model Require Import Mode.
From Coq Require Import Lia.

(* ---- the generated tables, as facts ------------------------------------------ *)

Lemma mode_eqb_eq : forall a b, mode_eqb a b = true <-> a = b.
Proof. intros [] []; simpl; split; intro H; try reflexivity; try discriminate. Qed.

Lemma message_rejected_false : forall m, message_rejected m = false <-> m = modeServer.
Proof. intros []; simpl; split; intro H; try reflexivity; try discriminate. Qed.

Lemma message_rejected_client : message_rejected modeClient = true.
Proof. reflexivity. Qed.

(* the mode after one processed event: the target, unless the target is the zero value *)
Lemma set_mode_effect : forall c t,
  match set_mode_action c t with
  | ActNone | ActError => c
  | Call_moveToServerMode => move_to_server_sets
  | Call_moveToClientMode => move_to_client_sets
  end = match t with Some m => m | None => c end.
Proof. intros [] [[]|]; reflexivity. Qed.

Lemma set_mode_server_only_from_client : forall c t,
  set_mode_action c t = Call_moveToServerMode -> c = modeClient /\ t = Some modeServer.
Proof. intros [] [[]|]; simpl; intro H; try discriminate; auto. Qed.

Lemma set_mode_client_only_from_server : forall c t,
  set_mode_action c t = Call_moveToClientMode -> c = modeServer /\ t = Some modeClient.
Proof. intros [] [[]|]; simpl; intro H; try discriminate; auto. Qed.

Lemma subscribes_dispatches : forall a, subscribes a = dispatches a.
Proof. intros []; reflexivity. Qed.

Lemma subscribes_auto : forall a, subscribes a = true <-> a = ModeAuto \/ a = ModeAutoServer.
Proof. intros []; simpl; split; intro H; auto; try discriminate; destruct H; discriminate. Qed.

Lemma initial_table :
  initial_mode ModeAuto = Some modeClient /\ initial_mode ModeClient = Some modeClient /\
  initial_mode ModeServer = Some modeServer /\ initial_mode ModeAutoServer = Some modeServer /\
  initial_mode ModeOptOther = None.
Proof. repeat split. Qed.

Lemma reach_table : forall a,
  reach_target a ReachabilityPublic = Some modeServer /\
  reach_target a ReachabilityPrivate = Some modeClient /\
  reach_target a ReachabilityUnknown = Some (if mode_opt_eqb a ModeAutoServer then modeServer else modeClient) /\
  reach_target a ReachabilityOther = None.
Proof. intros []; repeat split. Qed.

(* ---- frame facts of [step] ------------------------------------------------------ *)

Lemma process_cur : forall s r rest, dispatches (auto s) = true ->
  cur (process s r rest) = match reach_target (auto s) r with Some t => t | None => cur s end.
Proof.
  intros s r rest H. unfold process. rewrite H.
  rewrite <- (set_mode_effect (cur s) (reach_target (auto s) r)).
  destruct (set_mode_action (cur s) (reach_target (auto s) r)); reflexivity.
Qed.

Lemma process_frame : forall s r rest,
  auto (process s r rest) = auto s /\ queue (process s r rest) = rest /\ streams (process s r rest) = streams s.
Proof.
  intros. unfold process. destruct (dispatches (auto s)); [|auto].
  destruct (set_mode_action (cur s) (reach_target (auto s) r)); auto.
Qed.

Ltac step_cases H :=
  match type of H with
  | (if ?c then _ else _) = Some _ => let E := fresh "E" in destruct c eqn:E; step_cases H
  | match ?c with _ => _ end = Some _ => let E := fresh "E" in destruct c eqn:E; step_cases H
  | None = Some _ => discriminate H
  | Some _ = Some _ => injection H as H; subst
  | _ => idtac
  end.

Lemma step_auto : forall s e s', step s e = Some s' -> auto s' = auto s.
Proof.
  intros s e s' H. destruct e; simpl in H; step_cases H; try reflexivity.
  apply process_frame.
Qed.

Lemma run_auto : forall evs s s', run s evs = Some s' -> auto s' = auto s.
Proof.
  induction evs as [|e evs IH]; simpl; intros s s' H.
  - injection H as <-. reflexivity.
  - destruct (step s e) as [s1|] eqn:E; [|discriminate].
    rewrite (IH _ _ H). eapply step_auto; eauto.
Qed.

(* events other than EEmit / EProcess leave mode and queue alone *)
Lemma step_other_frame : forall s e s', step s e = Some s' ->
  (forall r, e <> EEmit r) -> e <> EProcess -> cur s' = cur s /\ queue s' = queue s.
Proof.
  intros s e s' H He Hp. destruct e; simpl in H; step_cases H; auto; try congruence.
Qed.

(* ---- 1. last event wins -------------------------------------------------------------- *)

Lemma fold_mode_app : forall a m l1 l2, fold_mode a m (l1 ++ l2) = fold_mode a (fold_mode a m l1) l2.
Proof. intros. unfold fold_mode. apply fold_left_app. Qed.

(* the mode is always "what the subscriber will reach once it has drained the queue" *)
Lemma run_fold_mode : forall evs s s', subscribes (auto s) = true -> run s evs = Some s' ->
  fold_mode (auto s) (cur s') (queue s') = fold_mode (auto s) (cur s) (queue s ++ emitted evs).
Proof.
  induction evs as [|e evs IH]; simpl; intros s s' Hs H.
  - injection H as <-. rewrite app_nil_r. reflexivity.
  - destruct (step s e) as [s1|] eqn:E; [|discriminate].
    assert (Ha : auto s1 = auto s) by (eapply step_auto; eauto).
    assert (Hs1 : subscribes (auto s1) = true) by (rewrite Ha; exact Hs).
    specialize (IH s1 s' Hs1 H). rewrite Ha in IH. rewrite IH.
    destruct e; try (destruct (step_other_frame _ _ _ E) as [-> ->]; [intros r; discriminate|discriminate|reflexivity]).
    + (* EEmit *) simpl in E. rewrite Hs in E. injection E as <-. simpl. rewrite <- app_assoc. reflexivity.
    + (* EProcess *) simpl in E. destruct (switching s); [discriminate|].
      destruct (queue s) as [|r rest] eqn:Q; [discriminate|]. injection E as <-.
      destruct (process_frame s r rest) as (_ & -> & _).
      rewrite process_cur by (rewrite <- subscribes_dispatches; exact Hs).
      simpl. reflexivity.
Qed.

Lemma init_fields : forall a s0, init a = Some s0 ->
  auto s0 = a /\ queue s0 = [] /\ switching s0 = false /\ streams s0 = [] /\
  initial_mode a = Some (cur s0) /\ handler s0 = mode_eqb (cur s0) modeServer.
Proof.
  intros a s0 H. unfold init in H. destruct (initial_mode a) as [m|] eqn:E; [|discriminate].
  injection H as <-. simpl. destruct m; simpl; repeat split; reflexivity.
Qed.

Theorem mode_follows_events : forall a s0 evs s,
  init a = Some s0 -> subscribes a = true -> run s0 evs = Some s ->
  fold_mode a (cur s) (queue s) = fold_mode a (cur s0) (emitted evs).
Proof.
  intros a s0 evs s Hi Hs Hr. destruct (init_fields _ _ Hi) as (Ha & Hq & _).
  rewrite <- Ha in *. rewrite (run_fold_mode evs s0 s Hs Hr). rewrite Hq. reflexivity.
Qed.

Theorem last_event_wins : forall a s0 evs s,
  init a = Some s0 -> subscribes a = true -> run s0 evs = Some s -> quiescent s ->
  (emitted evs = [] -> cur s = cur s0) /\
  (forall rs r t, emitted evs = rs ++ [r] -> reach_target a r = Some t -> cur s = t) /\
  cur s = fold_mode a (cur s0) (emitted evs).
Proof.
  intros a s0 evs s Hi Hs Hr [Hq _].
  pose proof (mode_follows_events _ _ _ _ Hi Hs Hr) as H. rewrite Hq in H. simpl in H.
  repeat split.
  - intro E. rewrite E in H. exact H.
  - intros rs r t E Ht. rewrite E, fold_mode_app in H. simpl in H. rewrite Ht in H. exact H.
  - exact H.
Qed.

(* ---- 2. fixed modes never change ------------------------------------------------------------ *)

Lemma fixed_step : forall s e s', subscribes (auto s) = false -> queue s = [] -> switching s = false ->
  step s e = Some s' ->
  queue s' = [] /\ switching s' = false /\ cur s' = cur s /\ handler s' = handler s.
Proof.
  intros s e s' Hs Hq Hw H. destruct e; simpl in H; rewrite ?Hs, ?Hq, ?Hw in H; step_cases H; simpl; auto; discriminate.
Qed.

Theorem fixed_modes_never_change : forall a s0 evs s,
  init a = Some s0 -> subscribes a = false -> run s0 evs = Some s ->
  cur s = cur s0 /\ handler s = handler s0 /\ queue s = [] /\ switching s = false.
Proof.
  intros a s0 evs s Hi Hs. destruct (init_fields _ _ Hi) as (Ha & Hq & Hw & _). rewrite <- Ha in Hs. clear Hi Ha.
  revert s0 Hq Hw Hs. induction evs as [|e evs IH]; simpl; intros s0 Hq Hw Hs H.
  - injection H as <-. auto.
  - destruct (step s0 e) as [s1|] eqn:E; [|discriminate].
    destruct (fixed_step _ _ _ Hs Hq Hw E) as (Q1 & W1 & C1 & H1).
    assert (A1 : subscribes (auto s1) = false) by (rewrite (step_auto _ _ _ E); exact Hs).
    destruct (IH s1 Q1 W1 A1 H) as (C & Hh & Q & W). rewrite C, Hh, C1, H1. auto.
Qed.

(* ---- stream bookkeeping ------------------------------------------------------------------------ *)

Lemma find_stream_some : forall i l x, find_stream i l = Some x -> In x l /\ sid x = i.
Proof.
  intros i l x H. unfold find_stream in H. apply find_some in H. destruct H as [H1 H2].
  apply Nat.eqb_eq in H2. auto.
Qed.

Lemma find_stream_none : forall i l, find_stream i l = None -> ~ In i (map sid l).
Proof.
  intros i l H Hin. apply in_map_iff in Hin. destruct Hin as (x & Hx & Hin).
  unfold find_stream in H. eapply find_none in H; eauto. simpl in H. rewrite Hx, Nat.eqb_refl in H. discriminate.
Qed.

Lemma find_stream_unique : forall i l x y, NoDup (map sid l) -> find_stream i l = Some x -> In y l -> sid y = i -> y = x.
Proof.
  induction l as [|z l IH]; simpl; intros x y Hnd Hf Hin Hy; [contradiction|].
  inversion Hnd as [|? ? Hn Hnd']; subst.
  unfold find_stream in Hf. simpl in Hf. destruct (Nat.eqb (sid z) (sid y)) eqn:E.
  - injection Hf as <-. destruct Hin as [->|Hin]; [reflexivity|].
    apply Nat.eqb_eq in E. exfalso. apply Hn. rewrite E. apply in_map. exact Hin.
  - destruct Hin as [->|Hin]; [rewrite Nat.eqb_refl in E; discriminate|].
    apply (IH x y Hnd' Hf Hin eq_refl).
Qed.

Lemma find_upd_same : forall i f l, (forall x, sid (f x) = sid x) ->
  find_stream i (upd_stream i f l) = option_map f (find_stream i l).
Proof.
  intros i f l Hf. induction l as [|z l IH]; simpl; [reflexivity|].
  unfold find_stream in *. simpl. destruct (Nat.eqb (sid z) i) eqn:E.
  - simpl. rewrite Hf, E. reflexivity.
  - simpl. rewrite E. exact IH.
Qed.

Lemma find_upd_other : forall i j f l, (forall x, sid (f x) = sid x) -> i <> j ->
  find_stream i (upd_stream j f l) = find_stream i l.
Proof.
  intros i j f l Hf Hij. induction l as [|z l IH]; simpl; [reflexivity|].
  unfold find_stream in *. simpl. destruct (Nat.eqb (sid z) j) eqn:E.
  - rewrite Hf. apply Nat.eqb_eq in E. destruct (Nat.eqb (sid z) i) eqn:E2.
    + apply Nat.eqb_eq in E2. congruence.
    + exact IH.
  - destruct (Nat.eqb (sid z) i); [reflexivity|exact IH].
Qed.

Lemma find_app_some : forall i l n x, find_stream i l = Some x -> find_stream i (l ++ [n]) = Some x.
Proof.
  intros i l n x. unfold find_stream. induction l as [|z l IH]; simpl; [discriminate|].
  destruct (Nat.eqb (sid z) i); auto.
Qed.

Lemma find_app_none : forall i l n, find_stream i l = None -> find_stream i (l ++ [n]) = find_stream i [n].
Proof.
  intros i l n. unfold find_stream. induction l as [|z l IH]; simpl; [reflexivity|].
  destruct (Nat.eqb (sid z) i); [discriminate|auto].
Qed.

Lemma map_sid_upd : forall i f l, (forall x, sid (f x) = sid x) -> map sid (upd_stream i f l) = map sid l.
Proof.
  intros i f l Hf. unfold upd_stream. rewrite map_map. apply map_ext. intro x.
  destruct (Nat.eqb (sid x) i); [apply Hf|reflexivity].
Qed.

Lemma NoDup_app_one : forall (l : list nat) x, NoDup l -> ~ In x l -> NoDup (l ++ [x]).
Proof.
  induction l as [|y l IH]; simpl; intros x Hnd Hx.
  - constructor; [intros []|constructor].
  - inversion Hnd; subst. constructor.
    + intro Hin. apply in_app_or in Hin. destruct Hin as [Hin|[->|[]]]; [contradiction|]. apply Hx. left; reflexivity.
    + apply IH; auto.
Qed.

Lemma demote_reset_sid : forall x, sid (demote_reset x) = sid x.
Proof. intro x. unfold demote_reset. destruct (is_open_inbound x); reflexivity. Qed.

(* ---- the invariant ------------------------------------------------------------------------------------ *)

(* per stream *)
Definition SI (x : stream) : Prop :=
  (ph x = PRead -> last_read x = Some modeServer) /\
  Forall (eq (Some modeServer)) (served x) /\
  handled x = length (served x) /\
  (ph x = PForeign <-> kind x <> KInDHT) /\
  (vis x = false -> ph x = PStart).

(* a stream blocked in ReadMsg has been reset (holds of every stream of a settled client) *)
Definition CI (x : stream) : Prop := ph x = PRead -> rst x = true.

Definition Inv (s : st) : Prop :=
  handler s = mode_eqb (cur s) modeServer /\
  (switching s = true -> cur s = modeClient) /\
  (cur s = modeClient -> switching s = false -> Forall CI (streams s)) /\
  Forall SI (streams s) /\
  NoDup (map sid (streams s)).

Lemma Inv_init : forall a s0, init a = Some s0 -> Inv s0.
Proof.
  intros a s0 H. destruct (init_fields _ _ H) as (_ & _ & Hw & Hs & _ & Hh).
  unfold Inv. rewrite Hs, Hw. repeat split; auto; try discriminate; constructor.
Qed.

Lemma Forall_upd : forall (P : stream -> Prop) i f l,
  Forall P l -> (forall x, In x l -> sid x = i -> P x -> P (f x)) -> Forall P (upd_stream i f l).
Proof.
  intros P i f l H Hf. unfold upd_stream. apply Forall_forall. intros y Hy.
  apply in_map_iff in Hy. destruct Hy as (x & <- & Hx).
  rewrite Forall_forall in H. destruct (Nat.eqb (sid x) i) eqn:E.
  - apply Hf; auto. apply Nat.eqb_eq. exact E.
  - auto.
Qed.

Lemma phase_eqb_eq : forall a b, phase_eqb a b = true <-> a = b.
Proof. intros [] []; simpl; split; intro H; try reflexivity; try discriminate. Qed.

Lemma SI_new : forall i k neg, SI (new_stream i k neg).
Proof.
  intros i k neg. unfold SI, new_stream; simpl. repeat split; auto; destruct k; try discriminate; try congruence.
Qed.

Lemma SI_read_inbound : forall x, SI x -> ph x = PRead -> kind x = KInDHT.
Proof.
  intros x (_ & _ & _ & D & _) P. destruct (kind x) eqn:K; auto; exfalso;
    (assert (F : ph x = PForeign) by (apply D; discriminate)); rewrite P in F; discriminate.
Qed.

Lemma CI_demote : forall x, SI x -> CI (demote_reset x).
Proof.
  intros x Hx. unfold CI, demote_reset, is_open_inbound.
  destruct (phase_eqb (ph x) PRead) eqn:P.
  - apply phase_eqb_eq in P. rewrite (SI_read_inbound x Hx P). destruct Hx as (_ & _ & _ & _ & V).
    destruct (vis x); [rewrite P; reflexivity|]. specialize (V eq_refl). congruence.
  - assert (N : ph x <> PRead) by (intro C; rewrite C in P; discriminate).
    destruct (skind_eqb (kind x) KInDHT && vis x && negb (phase_eqb (ph x) PDone)); simpl; intro; contradiction.
Qed.

Ltac si_tac :=
  match goal with
  | H : SI ?x |- SI _ =>
      let A := fresh in let B := fresh in let C := fresh in let D := fresh in let V := fresh in
      destruct H as (A & B & C & D & V); unfold SI; simpl; repeat split;
      try (intros; discriminate); try (apply D); auto
  end.

Ltac upd_si :=
  apply Forall_upd; auto;
  let y := fresh "y" in let Hy := fresh "Hy" in let Hs := fresh "Hs" in let Hsy := fresh "Hsy" in
  intros y Hy Hs Hsy;
  match goal with F : find_stream _ _ = Some ?x |- _ =>
    assert (y = x) by (eapply find_stream_unique; eauto); subst y end;
  destruct Hsy as (A & B & C & D & V); unfold SI; simpl; repeat split; auto; try (intro; discriminate);
  try (let K := fresh "K" in intro K; apply D in K; congruence);
  try (let K := fresh "K" in intro K; apply V in K; congruence);
  try (let K := fresh "K" in intro K; congruence).

Lemma Inv_set_streams : forall s l, Inv s ->
  (cur s = modeClient -> switching s = false -> Forall CI (streams s) -> Forall CI l) ->
  Forall SI l -> NoDup (map sid l) -> Inv (set_streams s l).
Proof.
  intros s l (Hh & Hsw & Hci & Hsi & Hnd) H1 H2 H3. unfold Inv, set_streams; simpl. repeat split; auto.
Qed.

Lemma CI_not_read : forall x, ph x <> PRead -> CI x.
Proof. intros x H P. contradiction. Qed.

Theorem step_inv : forall s e s', Inv s -> step s e = Some s' -> Inv s'.
Proof.
  intros s e s' HI H. pose proof HI as (Hh & Hsw & Hci & Hsi & Hnd).
  destruct e; simpl in H.
  - (* EEmit *)
    step_cases H; unfold Inv; simpl; auto.
  - (* EProcess *)
    destruct (switching s) eqn:W; [discriminate|]. destruct (queue s) as [|r rest]; [discriminate|].
    injection H as <-. unfold process. destruct (dispatches (auto s)).
    + destruct (set_mode_action (cur s) (reach_target (auto s) r)) eqn:A; unfold Inv; simpl;
        repeat split; auto; try (intros; discriminate);
        try (intro C; discriminate C); try (intros _ C; discriminate C).
    + unfold Inv; simpl. repeat split; auto; try (intros; discriminate).
  - (* ESetModeDone *)
    destruct (switching s) eqn:W; [|discriminate]. injection H as <-.
    unfold Inv; simpl. repeat split; auto; try (intro; discriminate).
    + intros _ _. apply Forall_forall. intros y Hy. apply in_map_iff in Hy. destruct Hy as (x & <- & Hx).
      rewrite Forall_forall in Hsi. apply CI_demote. auto.
    + apply Forall_forall. intros y Hy. apply in_map_iff in Hy. destruct Hy as (x & <- & Hx).
      rewrite Forall_forall in Hsi. specialize (Hsi x Hx). unfold demote_reset.
      destruct (is_open_inbound x); [si_tac|exact Hsi].
    + rewrite map_map. erewrite map_ext; [exact Hnd|]. intro x. apply demote_reset_sid.
  - (* ENewStream *)
    destruct (find_stream s0 (streams s)) eqn:F; [discriminate|].
    assert (Hnew : forall k0, Inv (set_streams s (streams s ++ [new_stream s0 k0 neg]))).
    { intro k0. apply Inv_set_streams; auto.
      - intros _ _ Hc. apply Forall_app; split; [auto|]. constructor; [|constructor].
        apply CI_not_read. destruct k0; simpl; discriminate.
      - apply Forall_app; split; [auto|]. constructor; [apply SI_new|constructor].
      - rewrite map_app; simpl; apply NoDup_app_one; auto; apply find_stream_none; exact F. }
    destruct k; [destruct (handler s)|..]; injection H as <-; auto.
  - (* EAnnounce *)
    destruct (find_stream s0 (streams s)) as [x|] eqn:F; [|discriminate].
    destruct (negb (vis x) && phase_eqb (ph x) PStart) eqn:P; [|discriminate].
    apply andb_true_iff in P. destruct P as [Vx P]. apply phase_eqb_eq in P.
    injection H as <-; apply Inv_set_streams; auto.
    + intros _ _ Hc. apply Forall_upd; auto.
    + upd_si.
    + rewrite map_sid_upd; auto.
  - (* EModeRead *)
    destruct (switching s) eqn:W; [discriminate|].
    destruct (find_stream s0 (streams s)) as [x|] eqn:F; [|discriminate].
    destruct (phase_eqb (ph x) PStart && vis x) eqn:P; [|discriminate].
    apply andb_true_iff in P. destruct P as [P Vx]. apply phase_eqb_eq in P.
    destruct (message_rejected (cur s)) eqn:R; injection H as <-; apply Inv_set_streams; auto.
    + intros _ _ Hc. apply Forall_upd; auto. intros y _ _ _. apply CI_not_read; simpl; discriminate.
    + upd_si.
    + rewrite map_sid_upd; auto.
    + intros C _. apply message_rejected_false in R. congruence.
    + apply message_rejected_false in R. upd_si; try (rewrite R; reflexivity).
    + rewrite map_sid_upd; auto.
  - (* EMessage *)
    destruct (find_stream s0 (streams s)) as [x|] eqn:F; [|discriminate].
    destruct (phase_eqb (ph x) PRead && negb (rst x)) eqn:P; [|discriminate].
    apply andb_true_iff in P. destruct P as [P Rx]. apply phase_eqb_eq in P.
    destruct good; injection H as <-; apply Inv_set_streams; auto.
    + intros _ _ Hc. apply Forall_upd; auto. intros y _ _ _. apply CI_not_read; simpl; discriminate.
    + upd_si. constructor; auto. symmetry. apply A. exact P.
    + rewrite map_sid_upd; auto.
    + intros _ _ Hc. apply Forall_upd; auto. intros y _ _ _. apply CI_not_read; simpl; discriminate.
    + upd_si.
    + rewrite map_sid_upd; auto.
  - (* EReadErr *)
    destruct (find_stream s0 (streams s)) as [x|] eqn:F; [|discriminate].
    destruct (phase_eqb (ph x) PRead && rst x) eqn:P; [|discriminate].
    apply andb_true_iff in P. destruct P as [P Rx]. apply phase_eqb_eq in P.
    injection H as <-; apply Inv_set_streams; auto.
    + intros _ _ Hc. apply Forall_upd; auto. intros y _ _ _. apply CI_not_read; simpl; discriminate.
    + upd_si.
    + rewrite map_sid_upd; auto.
  - (* EEOF *)
    destruct (find_stream s0 (streams s)) as [x|] eqn:F; [|discriminate].
    destruct (phase_eqb (ph x) PRead && negb (rst x)) eqn:P; [|discriminate].
    apply andb_true_iff in P. destruct P as [P Rx]. apply phase_eqb_eq in P.
    injection H as <-; apply Inv_set_streams; auto.
    + intros _ _ Hc. apply Forall_upd; auto. intros y _ _ _. apply CI_not_read; simpl; discriminate.
    + upd_si.
    + rewrite map_sid_upd; auto.
Qed.

Theorem run_inv : forall evs s s', Inv s -> run s evs = Some s' -> Inv s'.
Proof.
  induction evs as [|e evs IH]; simpl; intros s s' HI H.
  - injection H as <-. exact HI.
  - destruct (step s e) as [s1|] eqn:E; [|discriminate]. eapply IH; [|exact H]. eapply step_inv; eauto.
Qed.

Definition reachable (a : mode_opt) (s : st) : Prop :=
  exists s0 evs, init a = Some s0 /\ run s0 evs = Some s.

Lemma reachable_inv : forall a s, reachable a s -> Inv s.
Proof. intros a s (s0 & evs & Hi & Hr). eapply run_inv; [|exact Hr]. eapply Inv_init; eauto. Qed.

(* ---- 3. no service in client mode ------------------------------------------------------------------ *)

(* (a) a mode read that happens while the mode is client: the message loop ends
   before anything is read, the stream is reset, nothing is handled *)
Theorem mode_read_in_client : forall s i s',
  cur s = modeClient -> step s (EModeRead i) = Some s' ->
  exists x, find_stream i (streams s) = Some x /\
            find_stream i (streams s') = Some (with_rst (with_ph PDone x)) /\
            cur s' = modeClient.
Proof.
  intros s i s' C H. simpl in H. destruct (switching s); [discriminate|].
  destruct (find_stream i (streams s)) as [x|] eqn:F; [|discriminate].
  destruct (phase_eqb (ph x) PStart && vis x); [|discriminate].
  rewrite C, message_rejected_client in H. injection H as <-. exists x. simpl.
  rewrite find_upd_same by reflexivity. rewrite F. auto.
Qed.

(* (b) a finished handler never handles anything again *)
Lemma done_step : forall s e s' i x, find_stream i (streams s) = Some x -> ph x = PDone ->
  step s e = Some s' -> find_stream i (streams s') = Some x.
Proof.
  intros s e s' i x F P H.
  assert (Hne : forall j f s1, (forall z, sid (f z) = sid z) ->
              (j = i -> False) -> find_stream i (upd_stream j f (streams s1)) = find_stream i (streams s1)).
  { intros. apply find_upd_other; auto. }
  destruct e; simpl in H.
  - step_cases H; auto.
  - destruct (switching s); [discriminate|]. destruct (queue s); [discriminate|]. injection H as <-.
    destruct (process_frame s r l) as (_ & _ & ->). exact F.
  - destruct (switching s); [|discriminate]. injection H as <-. simpl.
    clear Hne. unfold find_stream in *. induction (streams s) as [|z l IH]; simpl in *; [discriminate|].
    rewrite demote_reset_sid. destruct (Nat.eqb (sid z) i).
    + injection F as ->. unfold demote_reset, is_open_inbound. rewrite P. simpl. rewrite andb_false_r. reflexivity.
    + auto.
  - destruct (find_stream s0 (streams s)) eqn:F0; [discriminate|].
    destruct k; [destruct (handler s)|..]; injection H as <-; simpl; auto; apply find_app_some; exact F.
  - destruct (find_stream s0 (streams s)) as [y|] eqn:F0; [|discriminate].
    destruct (negb (vis y) && phase_eqb (ph y) PStart) eqn:P0; [|discriminate].
    apply andb_true_iff in P0. destruct P0 as [_ P0]. apply phase_eqb_eq in P0.
    assert (s0 <> i) by (intro; subst; rewrite F in F0; injection F0 as <-; congruence).
    injection H as <-; simpl; rewrite find_upd_other; auto.
  - destruct (switching s); [discriminate|].
    destruct (find_stream s0 (streams s)) as [y|] eqn:F0; [|discriminate].
    destruct (phase_eqb (ph y) PStart && vis y) eqn:P0; [|discriminate].
    apply andb_true_iff in P0. destruct P0 as [P0 _]. apply phase_eqb_eq in P0.
    assert (s0 <> i) by (intro; subst; rewrite F in F0; injection F0 as <-; congruence).
    destruct (message_rejected (cur s)); injection H as <-; simpl; rewrite find_upd_other; auto.
  - destruct (find_stream s0 (streams s)) as [y|] eqn:F0; [|discriminate].
    destruct (phase_eqb (ph y) PRead && negb (rst y)) eqn:P0; [|discriminate].
    apply andb_true_iff in P0. destruct P0 as [P0 _]. apply phase_eqb_eq in P0.
    assert (s0 <> i) by (intro; subst; rewrite F in F0; injection F0 as <-; congruence).
    destruct good; injection H as <-; simpl; rewrite find_upd_other; auto.
  - destruct (find_stream s0 (streams s)) as [y|] eqn:F0; [|discriminate].
    destruct (phase_eqb (ph y) PRead && rst y) eqn:P0; [|discriminate].
    apply andb_true_iff in P0. destruct P0 as [P0 _]. apply phase_eqb_eq in P0.
    assert (s0 <> i) by (intro; subst; rewrite F in F0; injection F0 as <-; congruence).
    injection H as <-; simpl; rewrite find_upd_other; auto.
  - destruct (find_stream s0 (streams s)) as [y|] eqn:F0; [|discriminate].
    destruct (phase_eqb (ph y) PRead && negb (rst y)) eqn:P0; [|discriminate].
    apply andb_true_iff in P0. destruct P0 as [P0 _]. apply phase_eqb_eq in P0.
    assert (s0 <> i) by (intro; subst; rewrite F in F0; injection F0 as <-; congruence).
    injection H as <-; simpl; rewrite find_upd_other; auto.
Qed.

Theorem done_is_final : forall evs s s' i x, find_stream i (streams s) = Some x -> ph x = PDone ->
  run s evs = Some s' -> find_stream i (streams s') = Some x.
Proof.
  induction evs as [|e evs IH]; simpl; intros s s' i x F P H.
  - injection H as <-. exact F.
  - destruct (step s e) as [s1|] eqn:E; [|discriminate]. eapply IH; [|exact P|exact H]. eapply done_step; eauto.
Qed.

(* (a)+(b): the stream whose mode read saw client is reset and its handled count is frozen for ever *)
Theorem no_service_after_client_read : forall a s i s1 evs s2,
  reachable a s -> cur s = modeClient -> step s (EModeRead i) = Some s1 -> run s1 evs = Some s2 ->
  exists x x2, find_stream i (streams s) = Some x /\ find_stream i (streams s2) = Some x2 /\
               handled x2 = handled x /\ rst x2 = true /\ ph x2 = PDone.
Proof.
  intros a s i s1 evs s2 _ C H Hr. destruct (mode_read_in_client _ _ _ C H) as (x & F & F1 & _).
  exists x, (with_rst (with_ph PDone x)). repeat split; auto.
  eapply done_is_final; eauto.
Qed.

(* (c) a settled client (mode = client, setMode not in progress) handles nothing:
   no request can be read on any stream *)
Theorem settled_client_reads_nothing : forall a s i good,
  reachable a s -> cur s = modeClient -> switching s = false -> step s (EMessage i good) = None.
Proof.
  intros a s i good R C W. destruct (reachable_inv _ _ R) as (_ & _ & Hci & _ & _).
  specialize (Hci C W). simpl. destruct (find_stream i (streams s)) as [x|] eqn:F; [|reflexivity].
  destruct (find_stream_some _ _ _ F) as [Hin _]. rewrite Forall_forall in Hci. specialize (Hci x Hin).
  destruct (phase_eqb (ph x) PRead) eqn:P; [|reflexivity]. apply phase_eqb_eq in P.
  rewrite (Hci P). reflexivity.
Qed.

Lemma total_handled_upd : forall i f l, (forall x, handled (f x) = handled x) ->
  fold_right (fun x n => handled x + n) 0 (upd_stream i f l) = fold_right (fun x n => handled x + n) 0 l.
Proof.
  intros i f l Hf. induction l as [|z l IH]; simpl; [reflexivity|].
  destruct (Nat.eqb (sid z) i); rewrite ?Hf, IH; reflexivity.
Qed.

Lemma total_handled_app : forall l n, 
  fold_right (fun x n => handled x + n) 0 (l ++ [n]) = fold_right (fun x n => handled x + n) 0 l + handled n.
Proof. induction l as [|z l IH]; simpl; intros; [lia|]. rewrite IH. lia. Qed.

(* only EMessage _ true ever increases a handled counter *)
Lemma step_total_handled : forall s e s', step s e = Some s' -> (forall i, e <> EMessage i true) ->
  total_handled s' = total_handled s.
Proof.
  intros s e s' H Hne. unfold total_handled. destruct e; simpl in H.
  - step_cases H; reflexivity.
  - destruct (switching s); [discriminate|]. destruct (queue s); [discriminate|]. injection H as <-.
    destruct (process_frame s r l) as (_ & _ & ->). reflexivity.
  - destruct (switching s); [|discriminate]. injection H as <-. simpl.
    induction (streams s) as [|z l IH]; simpl; [reflexivity|]. rewrite IH. f_equal.
    unfold demote_reset. destruct (is_open_inbound z); reflexivity.
  - destruct (find_stream s0 (streams s)); [discriminate|].
    destruct k; [destruct (handler s)|..]; injection H as <-; simpl; auto; rewrite total_handled_app; simpl; lia.
  - step_cases H; simpl; apply total_handled_upd; reflexivity.
  - step_cases H; simpl; apply total_handled_upd; reflexivity.
  - destruct good; [exfalso; eapply Hne; reflexivity|]. step_cases H; simpl; apply total_handled_upd; reflexivity.
  - step_cases H; simpl; apply total_handled_upd; reflexivity.
  - step_cases H; simpl; apply total_handled_upd; reflexivity.
Qed.

Theorem settled_client_no_service : forall a s e s',
  reachable a s -> cur s = modeClient -> switching s = false -> step s e = Some s' ->
  total_handled s' = total_handled s.
Proof.
  intros a s e s' R C W H. apply (step_total_handled _ _ _ H). intros i ->.
  rewrite (settled_client_reads_nothing a s i true R C W) in H. discriminate.
Qed.

(* (d) every handled message was preceded, on its stream, by a mode read that returned server *)
Theorem served_only_after_server_read : forall a s x,
  reachable a s -> In x (streams s) ->
  handled x = length (served x) /\ Forall (eq (Some modeServer)) (served x).
Proof.
  intros a s x R Hin. destruct (reachable_inv _ _ R) as (_ & _ & _ & Hsi & _).
  rewrite Forall_forall in Hsi. destruct (Hsi x Hin) as (_ & B & C & _). auto.
Qed.

(* ---- 4. demotion resets ------------------------------------------------------------------------------------- *)

Theorem demotion_resets_open : forall s s', step s ESetModeDone = Some s' ->
  switching s' = false /\
  Forall (fun x => kind x = KInDHT -> vis x = true -> ph x <> PDone -> rst x = true) (streams s').
Proof.
  intros s s' H. simpl in H. destruct (switching s); [|discriminate]. injection H as <-. simpl. split; [reflexivity|].
  apply Forall_forall. intros y Hy. apply in_map_iff in Hy. destruct Hy as (x & <- & _).
  unfold demote_reset, is_open_inbound. destruct (kind x) eqn:K; simpl; try (intros; congruence).
  destruct (vis x) eqn:V; simpl; try (rewrite V; intros; congruence).
  destruct (ph x) eqn:P; simpl; try rewrite P; intros; congruence.
Qed.

(* streams never disappear and keep their kind; a reset is never undone *)
Lemma step_stream_persists : forall s e s' i x, step s e = Some s' -> find_stream i (streams s) = Some x ->
  exists x', find_stream i (streams s') = Some x' /\ kind x' = kind x /\ (rst x = true -> rst x' = true) /\
             (vis x = true -> vis x' = true).
Proof.
  intros s e s' i x H F.
  assert (Hupd : forall j f, (forall z, sid (f z) = sid z) -> (forall z, kind (f z) = kind z) ->
            (forall z, rst z = true -> rst (f z) = true) -> (forall z, vis z = true -> vis (f z) = true) ->
            exists x', find_stream i (upd_stream j f (streams s)) = Some x' /\ kind x' = kind x /\ (rst x = true -> rst x' = true) /\
                       (vis x = true -> vis x' = true)).
  { intros j f H1 H2 H3 H4. destruct (Nat.eq_dec i j) as [<-|N].
    - rewrite find_upd_same, F by auto. simpl. eexists; repeat split; auto.
    - rewrite find_upd_other, F by auto. eexists; repeat split; auto. }
  destruct e; simpl in H.
  - step_cases H; simpl; eauto.
  - destruct (switching s); [discriminate|]. destruct (queue s); [discriminate|]. injection H as <-.
    destruct (process_frame s r l) as (_ & _ & ->). eauto.
  - destruct (switching s); [|discriminate]. injection H as <-. simpl.
    clear Hupd. unfold find_stream in *. induction (streams s) as [|z l IH]; simpl in *; [discriminate|].
    rewrite demote_reset_sid. destruct (Nat.eqb (sid z) i).
    + injection F as ->. eexists; split; [reflexivity|]. unfold demote_reset. destruct (is_open_inbound x); simpl; auto.
    + auto.
  - destruct (find_stream s0 (streams s)); [discriminate|].
    destruct k; [destruct (handler s)|..]; injection H as <-; simpl; eauto; exists x; repeat split; auto; apply find_app_some; exact F.
  - step_cases H; simpl; apply Hupd; auto.
  - step_cases H; simpl; apply Hupd; auto.
  - step_cases H; simpl; apply Hupd; auto.
  - step_cases H; simpl; apply Hupd; auto.
  - step_cases H; simpl; apply Hupd; auto.
Qed.

Lemma run_stream_persists : forall evs s s' i x, run s evs = Some s' -> find_stream i (streams s) = Some x ->
  exists x', find_stream i (streams s') = Some x' /\ kind x' = kind x /\ (rst x = true -> rst x' = true) /\
             (vis x = true -> vis x' = true).
Proof.
  induction evs as [|e evs IH]; simpl; intros s s' i x H F.
  - injection H as <-. eauto.
  - destruct (step s e) as [s1|] eqn:E; [|discriminate].
    destruct (step_stream_persists _ _ _ _ _ E F) as (x1 & F1 & K1 & R1 & V1).
    destruct (IH _ _ _ _ H F1) as (x2 & F2 & K2 & R2 & V2). exists x2. repeat split; auto; congruence.
Qed.

(* every inbound DHT stream open when moveToClientMode starts is, when it
   returns, either finished or reset — for every interleaving in between *)
Theorem demotion_resets : forall s0 s1 evs s2 s3 i x,
  step s0 EProcess = Some s1 -> switching s1 = true ->
  run s1 evs = Some s2 -> step s2 ESetModeDone = Some s3 ->
  find_stream i (streams s1) = Some x -> kind x = KInDHT -> vis x = true ->
  exists x', find_stream i (streams s3) = Some x' /\ (ph x' = PDone \/ rst x' = true).
Proof.
  intros s0 s1 evs s2 s3 i x _ _ Hr Hd F K V.
  destruct (run_stream_persists _ _ _ _ _ Hr F) as (x2 & F2 & K2 & _ & V2).
  destruct (step_stream_persists _ _ _ _ _ Hd F2) as (x3 & F3 & K3 & _ & V3).
  exists x3. split; [exact F3|].
  destruct (demotion_resets_open _ _ Hd) as [_ Hall]. rewrite Forall_forall in Hall.
  destruct (find_stream_some _ _ _ F3) as [Hin _]. specialize (Hall x3 Hin).
  destruct (phase_eqb (ph x3) PDone) eqn:P; [left; apply phase_eqb_eq; exact P|right].
  apply Hall; [congruence|auto|]. intro C. rewrite C in P. discriminate.
Qed.

(* while moveToClientMode runs, the mode is already client and no new inbound DHT stream is accepted *)
Theorem switching_refuses_streams : forall a s i neg s',
  reachable a s -> switching s = true -> step s (ENewStream i KInDHT neg) = Some s' ->
  cur s = modeClient /\ s' = s.
Proof.
  intros a s i neg s' R W H. destruct (reachable_inv _ _ R) as (Hh & Hsw & _). specialize (Hsw W).
  split; [exact Hsw|]. simpl in H. rewrite Hh, Hsw in H. simpl in H.
  destruct (find_stream i (streams s)); [discriminate|]. injection H as <-. reflexivity.
Qed.

(* a client (settled or not) never accepts a new inbound DHT stream *)
Theorem client_refuses_streams : forall a s i neg s',
  reachable a s -> cur s = modeClient -> step s (ENewStream i KInDHT neg) = Some s' -> s' = s.
Proof.
  intros a s i neg s' R C H. destruct (reachable_inv _ _ R) as (Hh & _). simpl in H. rewrite Hh, C in H. simpl in H.
  destruct (find_stream i (streams s)); [discriminate|]. injection H as <-. reflexivity.
Qed.

(* ---- 5. server mode handles ---------------------------------------------------------------------------------- *)

Lemma srv_new : forall s i neg, handler s = true -> find_stream i (streams s) = None ->
  step s (ENewStream i KInDHT neg) = Some (set_streams s (streams s ++ [new_stream i KInDHT neg])).
Proof. intros s i neg H F. simpl. rewrite F, H. reflexivity. Qed.

Lemma srv_read : forall s i x, switching s = false -> cur s = modeServer ->
  find_stream i (streams s) = Some x -> ph x = PStart -> vis x = true ->
  step s (EModeRead i) = Some (set_streams s (upd_stream i (with_read modeServer) (streams s))).
Proof. intros s i x W C F P V. simpl. rewrite W, F, P, V, C. reflexivity. Qed.

Lemma srv_msg : forall s i x, find_stream i (streams s) = Some x -> ph x = PRead -> rst x = false ->
  step s (EMessage i true) = Some (set_streams s (upd_stream i with_handled (streams s))).
Proof. intros s i x F P R. simpl. rewrite F, P, R. reflexivity. Qed.

Lemma find_new : forall i l k neg, find_stream i l = None ->
  find_stream i (l ++ [new_stream i k neg]) = Some (new_stream i k neg).
Proof.
  intros i l k neg F. rewrite (find_app_none _ _ _ F). unfold find_stream. simpl. rewrite Nat.eqb_refl. reflexivity.
Qed.

Theorem server_handles : forall a s, reachable a s -> cur s = modeServer ->
  switching s = false /\ handler s = true /\
  (forall i, find_stream i (streams s) = None ->
     exists s3 x, run s [ENewStream i KInDHT false; EModeRead i; EMessage i true] = Some s3 /\
       find_stream i (streams s3) = Some x /\ handled x = 1 /\ rst x = false /\ ph x = PStart /\ cur s3 = modeServer) /\
  (forall i x, find_stream i (streams s) = Some x -> ph x = PStart -> vis x = true ->
     exists s', step s (EModeRead i) = Some s' /\ find_stream i (streams s') = Some (with_read modeServer x)) /\
  (forall i x, find_stream i (streams s) = Some x -> ph x = PRead -> rst x = false ->
     exists s', step s (EMessage i true) = Some s' /\ find_stream i (streams s') = Some (with_handled x)).
Proof.
  intros a s R C. destruct (reachable_inv _ _ R) as (Hh & Hsw & _).
  assert (W : switching s = false).
  { destruct (switching s); [|reflexivity]. specialize (Hsw eq_refl). congruence. }
  assert (HH : handler s = true) by (rewrite Hh, C; reflexivity).
  repeat split; auto.
  - intros i F.
    pose (s1 := set_streams s (streams s ++ [new_stream i KInDHT false])).
    pose (s2 := set_streams s1 (upd_stream i (with_read modeServer) (streams s1))).
    pose (s3 := set_streams s2 (upd_stream i with_handled (streams s2))).
    assert (F1 : find_stream i (streams s1) = Some (new_stream i KInDHT false)) by (apply find_new; exact F).
    assert (F2 : find_stream i (streams s2) = Some (with_read modeServer (new_stream i KInDHT false))).
    { change (streams s2) with (upd_stream i (with_read modeServer) (streams s1)).
      rewrite find_upd_same by reflexivity. rewrite F1. reflexivity. }
    exists s3, (with_handled (with_read modeServer (new_stream i KInDHT false))).
    split.
    + unfold run. rewrite (srv_new s i false HH F). fold s1.
      rewrite (srv_read s1 i _ W C F1 eq_refl eq_refl). fold s2.
      rewrite (srv_msg s2 i _ F2 eq_refl eq_refl). reflexivity.
    + split; [|repeat split; auto].
      change (streams s3) with (upd_stream i with_handled (streams s2)).
      rewrite find_upd_same by reflexivity. rewrite F2. reflexivity.
  - intros i x F P V. rewrite (srv_read s i x W C F P V). eexists. split; [reflexivity|]. simpl.
    rewrite find_upd_same by reflexivity. rewrite F. reflexivity.
  - intros i x F P Rx. rewrite (srv_msg s i x F P Rx). eexists. split; [reflexivity|]. simpl.
    rewrite find_upd_same by reflexivity. rewrite F. reflexivity.
Qed.

(* ---- the inherent window (why C13 is partial) ------------------------------------------------------------------- *)

(* between `dht.mode = modeClient` and the resets of moveToClientMode a stream
   whose mode read happened before the demotion still gets its request handled *)
Definition window_history : list event :=
  [ENewStream 1 KInDHT false; EModeRead 1; EEmit ReachabilityPrivate; EProcess].

Theorem client_window_exists :
  exists s0 s s', init ModeAutoServer = Some s0 /\ run s0 window_history = Some s /\
      cur s = modeClient /\ switching s = true /\
      step s (EMessage 1 true) = Some s' /\ total_handled s' = S (total_handled s).
Proof.
  eexists. eexists. eexists. split; [reflexivity|]. split; [vm_compute; reflexivity|].
  repeat split; vm_compute; reflexivity.
Qed.
